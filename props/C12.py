"""C12 — Presentation Exchange: wallet and verifier agree, mappings cannot be forged.
Lean: NutsProofs.Props.C12 over NutsModel.C12.PE + regenerated facts.
Correspondence: in-package harness on the real vcr/pe (ParsePresentationDefinition, Match, Build, ParseEnvelope,
Validate, ResolveConstraintsFields) with schema-directed generated definitions x wallets x mutated submissions.
Direct oracle: an independent reference matcher (below, Python) evaluated on the implementation's own outputs."""
import json, os, re
from collections import Counter

PKG = "vcr/pe"
HARNESS = ["vcr/pe/zz_verif_c12_test.go", "vcr/pe/zz_verif_c12_envjson_test.go"]
# consumer legs: the real callers of vcr/pe on the verifier side (auth/api/iam) and on the wallet side (vcr/holder)
IAM_PKG, IAM_HARNESS = "auth/api/iam", ["auth/api/iam/zz_verif_c12_iam_test.go"]
HOLDER_PKG, HOLDER_HARNESS = "vcr/holder", ["vcr/holder/zz_verif_c12_holder_test.go", "vcr/holder/zz_verif_c12_formats_test.go"]
DISC_PKG, DISC_HARNESS = "discovery", ["discovery/zz_verif_c12_discovery_test.go"]
POLICY_PKG, POLICY_HARNESS = "policy", ["policy/zz_verif_c12_policy_test.go"]
IAMC_PKG, IAMC_HARNESS = "auth/client/iam", ["auth/client/iam/zz_verif_c12_iamclient_test.go"]
HARNESSES = [(POLICY_PKG, POLICY_HARNESS, "c12policy"), (IAMC_PKG, IAMC_HARNESS, "c12iamclient"), (PKG, HARNESS, "c12"), (IAM_PKG, IAM_HARNESS, "c12iam"), (HOLDER_PKG, HOLDER_HARNESS, "c12holder"), (DISC_PKG, DISC_HARNESS, "c12disc")]

REQUIRED_DEEP = ["fact_regex_compiled_as_ecmascript", "ecma_anchored_accepts_iff", "ecma_dollar_is_end_of_input", "ecma_classes_are_ascii", "pattern_holds_iff_ecma",
                 "ecma_whole_match_is_input",
                 "fulfill_ok_spec", "fulfill_unrequired_refused", "fulfill_at_most_once", "fulfill_total", "consumer_invariant", "consumer_stored_mappings_not_forged",
                 "next_some_spec", "next_none_iff_all_fulfilled", "credential_map_of_reachable", "access_token_credentials_not_forged",
                 "input_descriptor_values_source", "access_token_fields_faithful", "duplicate_field_refused",
                 "fact_vp_format_preference", "fact_vp_format_default", "choose_vp_format_range", "choose_vp_format_supported",
                 "fact_fulfill_source", "fact_next_source", "fact_is_fulfilled_source", "fact_credential_map_source", "fact_new_pex_consumer_source",
                 "fact_resolve_input_descriptor_values_source",
                 "values_both_mem", "match_params_sound", "match_formats_sound", "formats_match_sound", "presenter_format_shared",
                 "fact_presenter_build_submission_source", "fact_formats_match_source", "fact_formats_normalize_source", "fact_formats_constructors_source",
                 "registration_rejects_surplus", "registration_total", "fact_registration_source", "client_registration_sound", "client_registration_total", "client_registration_accepted_end_to_end", "client_registration_never_partial", "client_registration_reports_missing", "activate_ok_iff_some_did_registered", "activate_nocred_iff_all_dids_lack_credentials", "fact_client_registration_source",
                 "fact_envelope_as_is_bytes", "fact_envelope_unmarshal_source", "fact_envelope_marshal_source", "fact_try_parse_json_array_source", "fact_parse_envelope_source",
                 "envelope_unmarshal_total", "envelope_array_iff", "envelope_single_iff", "envelope_string_wrapping_transparent", "envelope_json_round_trip", "envelope_marshal_form",
                 "rematch_constraints", "rematch_stable_basic", "wallet_verifier_agree_basic_unambiguous", "disagree_witness_is_ambiguous"]
REQUIRED = ["pe_total_match_raw", "pe_total_build_raw", "pe_total_credentials_required_raw", "pe_total_resolve_fields_raw",
            "old_code_panics_on_nil_entry", "fact_nil_entries_checked", "pe_total_match", "pe_total_build", "pe_total_validate", "pe_total_resolve_fields",
            "match_sound", "filter_sound_and_complete",
            "forged_mapping_rejected", "surplus_entry_rejected", "forged_entry_rejected", "incomplete_map_rejected",
            "field_values_faithful", "two_capture_groups_is_error",
            "match_sound_rules", "match_sound_requirements", "match_error_requirements", "wf_count_pos", "match_complete_or_error", "match_complete_or_error_rules",
            "credentials_required_of_descriptors", "build_reports_missing_credentials", "validate_rejects_without_complete_selection",
            "wallet_verifier_agree_partial", "wallet_verifier_disagree_witness",
            "old_code_max_zero_selects_all", "old_code_min_above_max_returns_partial",
            "fact_array_envelope_skips_no_entry", "array_envelope_positions_preserved", "array_envelope_junk_entry_rejected", "pe_total_parse_array_envelope",
            "fact_resolve_evaluates_path_nested_first", "path_nested_always_evaluated", "fact_apply_max_counts_taken_members", "fact_apply_count_counts_taken_members", "count_takes_exactly_count_members", "fact_regex_timeout_bounded", "fact_fulfill_callers_return_on_error", "fact_consumer_wiring", "fact_match_result_consumers", "fact_apply_max_test_first", "fact_apply_rejects_min_above_max",
            "old_code_panics_array_pattern", "old_code_type_only_filter_matches_any_array",
            "old_code_panics_pick_min_only", "old_code_accepts_shadowed_entry",
            "fact_array_case_guarded", "fact_apply_derefs_guarded", "fact_apply_max_guarded",
            "fact_resolve_rejects_duplicate_ids", "fact_cfg_fixed", "fact_sr_schema", "fact_mapping_paths"]


# ---------------------------------------------------------------- ECMA-262 semantics of the anchored-class pattern subset
# (same grammar as lean/NutsModel/C12/Ecma.lean, written independently): `^ atom quant? $`; `$` = end of INPUT only,
# \d = [0-9], \w = [A-Za-z0-9_].  Used INSTEAD of the harness's regexp2 table for these patterns, so the oracle does
# not depend on any regular-expression library; disagreements with the table are counted (ECMA_TABLE_DISAGREE).
ECMA_TABLE_DISAGREE = []
_PLAIN = set("abcdefghijklmnopqrstuvwxyzABCDEFGHIJKLMNOPQRSTUVWXYZ0123456789")
_DIG = set("0123456789")
_WORD = _PLAIN | {"_"}


def ecma_anchored(p):
    """-> (member predicate, min, max|None) or None when the pattern is outside the subset"""
    if not p.startswith("^"):
        return None
    i, sets = 1, []
    if p[i:i + 2] == "\\d":
        sets.append(_DIG); i += 2
    elif p[i:i + 2] == "\\w":
        sets.append(_WORD); i += 2
    elif p[i:i + 1] == "[":
        i += 1
        while True:
            if i >= len(p):
                return None
            if p[i] == "]":
                if not sets:
                    return None
                i += 1
                break
            if p[i:i + 2] == "\\d":
                sets.append(_DIG); i += 2
            elif p[i:i + 2] == "\\w":
                sets.append(_WORD); i += 2
            elif i + 2 < len(p) and p[i + 1] == "-":
                lo, hi = p[i], p[i + 2]
                if lo in _PLAIN and hi in _PLAIN and ord(lo) <= ord(hi):
                    sets.append(set(chr(x) for x in range(ord(lo), ord(hi) + 1))); i += 3
                else:
                    return None
            elif p[i] in _PLAIN:
                sets.append({p[i]}); i += 1
            else:
                return None
    else:
        return None
    rest = p[i:]
    m = re.fullmatch(r"(?:(\+)|(\*)|\{([0-9]+)(,([0-9]*))?\})?\$", rest, re.ASCII)
    if not m:
        return None
    if m.group(1):
        mn, mx = 1, None
    elif m.group(2):
        mn, mx = 0, None
    elif m.group(3) is not None:
        mn = int(m.group(3))
        mx = mn if m.group(4) is None else (None if m.group(5) == "" else int(m.group(5)))
        if mx is not None and mx < mn:
            return None
    else:
        mn, mx = 1, 1
    member = set().union(*sets)
    return member, mn, mx


def ecma_retbl(tbl):
    """override the entries of subset patterns with the library-free evaluation"""
    cache = {}
    for (p, s_), got in list(tbl.items()):
        if p not in cache:
            cache[p] = ecma_anchored(p)
        a = cache[p]
        if a is None:
            continue
        ok = all(ch in a[0] for ch in s_) and len(s_) >= a[1] and (a[2] is None or len(s_) <= a[2])
        want = ("whole", s_) if ok else ("noMatch", "")
        if tuple(got) != want:
            ECMA_TABLE_DISAGREE.append((p, s_, tuple(got), want))
        tbl[(p, s_)] = want
    return tbl


# ---------------------------------------------------------------- independent reference matcher (DIF PE semantics)
class Undecided(Exception):
    """the reference does not judge this case (unsupported value kinds, regexp errors, unparsable path)"""


def parse_path(p):
    """JSONPath subset -> (steps, wildcard)"""
    if not p.startswith("$"):
        raise Undecided("path")
    i, steps = 1, []
    while i < len(p):
        m = re.match(r"\.([A-Za-z0-9_@]+)", p[i:])
        if m:
            steps.append(m.group(1)); i += m.end(); continue
        m = re.match(r'\["([^"]*)"\]', p[i:])
        if m:
            steps.append(m.group(1)); i += m.end(); continue
        m = re.match(r"\[(\d+)\]", p[i:])
        if m:
            steps.append(int(m.group(1))); i += m.end(); continue
        if p[i:] == "[*]":
            return steps, True
        raise Undecided("path")
    return steps, False


def get_path(p, tree):
    steps, wild = parse_path(p)
    v = tree
    ok = True
    for s in steps:
        if isinstance(v, dict) and str(s) in v:
            v = v[str(s)]
        elif isinstance(v, list) and isinstance(s, int) and s < len(v):
            v = v[s]
        else:
            ok = False
            break
    if wild:
        if ok and isinstance(v, list):
            return v
        if ok and isinstance(v, dict):
            raise Undecided("wildcard over object (map order)")
        return []
    return v if ok else None


def value_matches(f, v, retbl):
    if "enum" in f:
        return any(value_matches({"type": "string", "const": e}, v, retbl) for e in f["enum"])
    if isinstance(v, list):
        for e in v:
            if value_matches(f, e, retbl):
                return True
        return f.get("type") == "array" and "const" not in f
    if v is None or isinstance(v, dict):
        raise Undecided("null/object value")
    ty = "string" if isinstance(v, str) else "boolean" if isinstance(v, bool) else "number"
    if f.get("type", "") != ty:
        return False
    if "const" in f and v != f["const"]:
        return False
    if "pattern" in f and ty == "string":
        k = retbl.get((f["pattern"], v))
        if k is None or k[0] in ("compileErr", "runErr", "many"):
            raise Undecided("regexp")
        return k[0] != "noMatch"
    return True


def field_ok(fld, tree, retbl):
    """(matches, [acceptable values])"""
    invalid = False
    vals = []
    for p in fld["paths"]:
        v = get_path(p, tree)
        if v is None:
            continue
        if "filter" not in fld:
            return True
        if value_matches(fld["filter"], v, retbl):
            return True
        invalid = True
    return bool(fld.get("optional")) and not invalid


def format_ok(fmts, cred):
    if not fmts:
        return True
    if cred["fmt"] == "":
        return True
    d = {k: dict((a, b) for a, b in items) for k, items in fmts}
    e = d.get(cred["fmt"])
    if e is None:
        return False
    if cred["fmt"] == "ldp_vc":
        return cred["nproof"] == 0 or any(t in cred["proofTypes"] for t in e.get("proof_type", []))
    if cred["fmt"] == "jwt_vc":
        return cred["sigEmpty"] or cred["alg"] in e.get("alg", [])
    return False


def satisfies(pd, d, cred, retbl):
    if "fields" in d:
        for f in d["fields"]:
            if not field_ok(f, cred["tree"], retbl):
                return False
    return format_ok(pd.get("format"), cred) and format_ok(d.get("format"), cred)


def shape_of_unsound(d, cred, retbl):
    for f in d.get("fields", []):
        try:
            if not field_ok(f, cred["tree"], retbl):
                flt = f.get("filter", {})
                vals = [get_path(p, cred["tree"]) for p in f["paths"]]
                if any(isinstance(v, list) for v in vals) and "const" not in flt and "enum" not in flt:
                    return "matchFilter:array-falls-through-to-type-only"
                return "field-not-satisfied"
        except Undecided:
            pass
    return "format-not-satisfied"


def ref_candidates(pd, creds, retbl):
    """first credential of the list satisfying each descriptor (reference); None when there is none"""
    return [next((c for c in creds if satisfies(pd, d, c, retbl)), None) for d in pd["descs"]]


def navigate_path(p, root):
    """evaluate a path of the subset on a root; returns (value, at) with `at` the keys/indexes walked, or None"""
    steps, wild = parse_path(p)
    if wild:
        return None
    v, at = root, []
    for st in steps:
        if isinstance(v, dict) and str(st) in v:
            v = v[str(st)]; at.append(str(st))
        elif isinstance(v, list) and isinstance(st, int) and st < len(v):
            v = v[st]; at.append(st)
        else:
            return None
    return v, at


def ref_resolve(op, m):
    """reference Resolve of one descriptor-map entry (with path_nested) using the go-did decode table of the op;
    returns the name of the credential it lands on, or None when it does not resolve to a credential"""
    root_i, root = 0, op["env"]
    level = m
    while True:
        try:
            r = navigate_path(level["path"], root)
        except Undecided:
            return None
        if r is None:
            return None
        v, at = r
        e = next((e for e in op.get("decode", []) if e["root"] == root_i and e["at"] == at and e["fmt"] == level["fmt"]), None)
        if e is None:
            return None
        if isinstance(v, str) != level["fmt"].startswith("jwt_") or not isinstance(v, (str, dict)):
            return None
        if "nested" not in level or level["nested"] is None:
            return e["cred"] if e["kind"] == "vc" else None
        mi = e.get("map", 0)
        if not mi:
            return None
        root_i, root, level = mi, op["maps"][mi], level["nested"]


def field_value_ok(fld, tree, retbl, got):
    """is `got` (JSON text) an acceptable value for a named field: the value at one of its paths, the regexp
    whole-match / single capture on the string at a path, or null for an absent optional field"""
    ok = set()
    for p in fld["paths"]:
        v = get_path(p, tree)
        if v is None:
            continue
        ok.add(json.dumps(v, sort_keys=True, separators=(",", ":")))
        flt = fld.get("filter", {})
        if isinstance(v, str) and "pattern" in flt:
            k = retbl.get((flt["pattern"], v))
            if k and k[0] in ("whole", "cap"):
                ok.add(json.dumps(k[1]))
    if fld.get("optional"):
        ok.add("null")
    return got in ok


def ref_sr(sr, pd, cand_of):
    """reference reading of one submission requirement on the candidates: (fulfillable, number of credentials selected > 0).
    cand_of: descriptor index -> candidate credential or None"""
    if sr["nested"]:
        subs = [ref_sr(n, pd, cand_of) for n in sr["nested"]]
        total = len(subs)
        avail = sum(1 for ok, nonempty in subs if ok and nonempty)
    else:
        members = [i for i, d in enumerate(pd["descs"]) for g in d["group"] if g == sr["from"]]
        total = len(members)
        avail = sum(1 for i in members if cand_of[i] is not None and not cand_of[i]["selEmpty"])
    if sr["rule"] == "all":
        return avail == total, total > 0
    if "count" in sr:
        return avail >= sr["count"], sr["count"] > 0
    if "min" in sr and "max" in sr and sr["max"] < sr["min"]:
        return False, False
    if "min" in sr and avail < sr["min"]:
        return False, False
    taken = min(avail, sr["max"]) if "max" in sr else avail
    return True, taken > 0


def complete_selection_exists(pd, wallet, retbl):
    """reference: does a selection exist that maps every input descriptor (no submission requirements) or fulfils
    every submission requirement? raises Undecided when the evaluation itself cannot be judged"""
    cand_of = ref_candidates(pd, wallet, retbl)
    if not pd["srs"]:
        return all(c is not None for c in cand_of)
    referenced = set()

    def collect(sr):
        if sr["from"]:
            referenced.add(sr["from"])
        for n in sr["nested"]:
            collect(n)
    for sr in pd["srs"]:
        collect(sr)
    if any(g not in referenced for d in pd["descs"] for g in d["group"]):
        return False
    return all(ref_sr(sr, pd, cand_of)[0] for sr in pd["srs"])


def sr_pick_without_max(sr):
    if sr["rule"] == "pick" and "count" not in sr and "max" not in sr:
        return True
    return any(sr_pick_without_max(n) for n in sr.get("nested", []))


# ---------------------------------------------------------------- the check
def run(ctx):
    del ECMA_TABLE_DISAGREE[:]
    facts = ctx.facts()
    thms = ctx.build_and_audit(["NutsProofs.Props.C12", "NutsProofs.Props.C12Ecma", "NutsProofs.Props.C12Consumer", "NutsProofs.Props.C12Formats", "NutsProofs.Props.C12Registration", "NutsProofs.Props.C12Envelope", "NutsProofs.Props.C12Agree"])
    for r in REQUIRED + REQUIRED_DEEP:
        if not any(t.endswith("Props." + r) for t in thms):
            ctx.oblige("thm-present:" + r, False, "theorem missing or its module does not build")
    ctx.trusted += [
        "modelled, not verified (contracts, supplied to the model as data by the harness): go-did credential/presentation parsing and "
        "marshalling (map view, Raw(), json.Marshal identity, decoding of envelope values), dlclark/regexp2 results on (pattern, input), "
        "PaesslerAG/jsonpath on the generated subset ($, .key, [\"key\"], [n], trailing [*]), santhosh-tekuri/jsonschema",
        "model scope: vcr/pe presentation_definition.go, submission_requirement.go, presentation_submission.go (Build/Resolve/Validate), util.go (envelope as data)",
        "consumers of vcr/pe (vcr/holder presenter.buildSubmission, auth/api/iam PEXConsumer.fulfill/credentialMap + resolveInputDescriptorValues + "
        "ParsePresentationSubmission, discovery Module.Search) are NOT in the Lean model: they are tied by call-site facts and by harness legs that run "
        "the real code on the pe leg's inputs and compare with the pe-level results (props/C12.coverage.md)",
    ]
    ctx.assumptions += [
        "credentials are identified by json.Marshal (vcEqual) / Raw(); distinct generated credentials have distinct identities",
        "JSONPath and regular expressions outside the generated subset are not covered",
        "wallet_verifier_agree is proved under `hstable` (re-matching the presented credentials reproduces the wallet's selection); "
        "without it the statement is false of the code (Lean witness wallet_verifier_disagree_witness, open known finding, replayed from the corpus)",
        "input descriptor ids are distinct (PE spec; the JSON schema cannot express it) and wallet credentials are parsed ones "
        "(Format() ldp_vc/jwt_vc); in-memory 'holder credentials' (Format()==\"\") are matched but never presented",
        "match_complete_or_error assumes an error ignored by the enum loop did not hide a match (array with a null/object element before the matching string)",
        "credentials parsed from an envelope have a non-empty Raw() (go-did); PresentationSigner and envelope parsing are taken as data",
    ]

    binary = ctx.go_test_binary(PKG, HARNESS, "c12")
    if binary is None:
        ctx.oblige("harness-builds", False, ctx.harness_error[-1500:])
        return
    ctx.oblige("harness-builds", True)
    env = {}
    if ctx.replay:
        env["VERIF_REPLAY"] = os.path.abspath(ctx.replay)
    else:
        env["VERIF_CORPUS"] = os.path.join(os.path.dirname(os.path.dirname(os.path.abspath(__file__))), "harness", "corpus", "C12")
        env["VERIF_CASES"] = 40000 if ctx.thorough else 2600
    rc, log, out = ctx.run_harness(binary, "TestVerifC12", env, timeout=3000)
    if rc != 0:
        ctx.oblige("harness-runs", False, log[-1500:])
        return
    ctx.oblige("harness-runs", True)
    ops_p, impl_p, model_p = (os.path.join(out, x) for x in ("ops.jsonl", "impl.out", "model.out"))
    ok, err = ctx.model("C12", ops_p, model_p)
    ctx.oblige("model-driver-runs", ok, err[-500:])
    impl, model, bad = ctx.compare(impl_p, model_p)
    ops_raw = ctx.read_lines(ops_p)
    try:
        stats = json.load(open(os.path.join(out, "stats.json")))
    except Exception:
        stats = {}

    # ---- direct property oracle on the implementation's own outputs
    seen_sig = {}
    counts = Counter()
    distinct = set()
    case = None
    case_line = None
    retbl = {}
    oracle_bad = 0
    last_build = None

    def report(sig, what, i, with_build=False):
        nonlocal oracle_bad
        if sig in seen_sig:
            if seen_sig[sig]:
                oracle_bad += 1
            else:
                counts["known-finding-hit"] += 1
            return
        name = re.sub(r"[^A-Za-z0-9_.-]+", "-", sig.split(":", 1)[1]) + ".jsonl"
        pre = (json.dumps(last_build[0]) + "\n") if with_build and last_build else ""
        seen_sig[sig] = ctx.violation(sig, what + f" (op line {i})", name, case_line + "\n" + pre + ops_raw[i] + "\n")
        if seen_sig[sig]:
            oracle_bad += 1
        else:
            counts["known-finding-hit"] += 1

    for i, line in enumerate(impl):
        if i >= len(ops_raw) or not ops_raw[i]:
            break
        op = json.loads(ops_raw[i])
        kind = op.get("op")
        if kind == "case":
            case, case_line = op, ops_raw[i]
            last_build = None
            retbl = ecma_retbl({(p, s): (k, v) for p, s, k, v in op.get("re", [])})
            continue
        if kind == "envjson":
            # Envelope.UnmarshalJSON / MarshalJSON routing, judged from the TEXT with Python's own JSON reader (the go-did / jwx verdicts per byte string are the op's data)
            text, eb = op.get("envText", ""), op.get("envBytes") or {}
            def single_ok(x):
                return x.get("vp") == "jwt" or (x.get("vp") == "ld" and bool(x.get("json")))
            try:
                outer = json.loads(text); outer_ok = True
            except ValueError:
                outer, outer_ok = None, False
            inner = outer if isinstance(outer, str) else text
            try:
                inner_v = json.loads(inner); inner_ok = True
            except ValueError:
                inner_v, inner_ok = None, False
            if not outer_ok:
                want_e = "envjson err marshal=none again=none"
            elif inner_ok and isinstance(inner_v, list):
                ents = eb.get("entries") or []
                okall = len(ents) == len(inner_v) and all(single_ok(e["asString"] if isinstance(v, str) else e["asMarshalled"]) for e, v in zip(ents, inner_v))
                want_e = (f"envjson ok array:{len(inner_v)}" if okall else "envjson err") 
            else:
                want_e = "envjson ok single" if single_ok({"vp": eb.get("vp"), "json": inner_ok}) else "envjson err"
            if want_e.startswith("envjson ok"):
                want_e += " marshal=" + ("asis" if inner[:1] in ("[", "{") else "quoted") + " again=same"
            elif want_e == "envjson err":
                want_e = "envjson err marshal=none again=none"
            cls = ("wrapped-" if isinstance(outer, str) else "") + ("invalid" if not inner_ok else "array" if isinstance(inner_v, list) else "object" if isinstance(inner_v, dict) else "scalar") + ":" + line.split(" ")[1] + ("" if " marshal=" not in line else ":" + line.split(" marshal=")[1].split(" ")[0])
            counts["envjson:" + cls] += 1
            bad_contract = (inner == "" and (eb.get("vp") != "bad" or eb.get("top") != "invalid")) or (eb.get("vp") == "jwt" and inner[:1] in ("[", "{"))
            if line != want_e or bad_contract:
                what_e = "library contract of envelope_json_round_trip broken (empty text accepted / JWT verdict on a text starting with [ or {)" if bad_contract and line == want_e else \
                    f"Envelope JSON routing: got '{line}', the text requires '{want_e}' (array texts go to the array branch with every entry parsed, a JSON string is unwrapped, the stored form reads back as the same envelope)"
                sig = "C12:envjson:" + cls + ":want-" + want_e.split(" marshal=")[0].replace("envjson ", "").replace(" ", "-")
                if sig not in seen_sig:
                    seen_sig[sig] = ctx.violation(sig, what_e + f" (op line {i})", "envjson.jsonl", ops_raw[i] + "\n")
                if seen_sig[sig]:
                    oracle_bad += 1
            continue
        if kind == "vpformat":
            sup = op.get("supported") or []
            want_f = "jwt_vp" if ("jwt_vp" in sup or "jwt_vp_json" in sup) else "ldp_vp" if "ldp_vp" in sup else ""
            counts["vpformat:" + (line[9:] or "none")] += 1
            if line != "vpformat " + want_f:
                sig = "C12:vpformat:" + (line[9:] or "none") + "-for-" + "+".join(sorted(sup))
                if sig not in seen_sig:
                    seen_sig[sig] = ctx.violation(sig, f"ChooseVPFormat({sorted(sup)}) = '{line[9:]}', the presenter must prefer jwt_vp (also for jwt_vp_json), then ldp_vp, else none (op line {i})",
                                                  "vpformat.jsonl", ops_raw[i] + "\n")
                if seen_sig[sig]:
                    oracle_bad += 1
            continue
        if kind == "reject" or case is None:
            continue
        pd = case["def"]
        creds = {c["name"]: c for c in case["creds"]}
        if kind == "validate" and op.get("re"):
            retbl = dict(retbl)
            retbl.update(ecma_retbl({(p_, s_): (k_, v_) for p_, s_, k_, v_ in op["re"]}))
        if line.endswith(" hang"):
            pats = sorted({f["filter"]["pattern"] for d in pd["descs"] for f in d.get("fields", []) if "pattern" in f.get("filter", {})})
            report("C12:hang:matchFilter:regexp-without-timeout",
                   f"{kind} did not return within the watchdog time (patterns {pats}: catastrophic backtracking on a wallet value)", i)
            continue
        if kind == "nildef" and "panic:" in line:
            report("C12:panic:nil-entry-in-definition", f"a definition with a nil (JSON null) input descriptor / submission requirement panics: {line}", i)
            continue
        if " panic:" in line:
            site = line.split("panic:", 1)[1].split()[0]
            shape = "other"
            if site == "nil-deref" and any(sr_pick_without_max(s) for s in pd["srs"]):
                shape = "apply:pick-without-max"
            elif site == "type-assert":
                shape = "matchFilter:array-falls-through-to-pattern"
            report(f"C12:panic:{site}:{shape}", f"{kind} panicked ({site}) on a schema-valid definition", i)
            continue
        if kind == "match":
            wallet = [case["creds"][k] for k in op.get("wallet", [])]
            m = re.match(r"match ok vcs=\[(.*?)\] map=\[(.*)\]$", line)
            descs = {}
            for d in pd["descs"]:
                descs.setdefault(d["id"], d)
            if m:
                vcs = [x for x in m.group(1).split(",") if x]
                maps = [x.split(":", 2) for x in m.group(2).split(",") if x]
                counts["match-ok"] += 1
                if vcs:
                    distinct.add((case["n"], tuple(op.get("wallet", []))))
                # soundness: each mapped credential satisfies the descriptor it is mapped to
                for did, fmt, path in maps:
                    mi = re.match(r"\$\.verifiableCredential\[(\d+)\]$", path)
                    if mi and int(mi.group(1)) != maps.index([did, fmt, path]) and len(maps) == len(vcs):
                        # Validate and discovery Search zip mappings[i] with credentials[i]
                        report("C12:match-results-not-aligned", f"mapping number {maps.index([did, fmt, path])} points at credential {mi.group(1)}", i)
                    if not mi or int(mi.group(1)) >= len(vcs) or did not in descs:
                        report("C12:match-mapping-malformed", f"mapping {did}:{path} does not point into the selected credentials", i)
                        continue
                    cred = creds.get(vcs[int(mi.group(1))])
                    if cred is None:
                        report("C12:match-selected-foreign-credential", "selected credential is not from the wallet", i)
                        continue
                    if cred["name"] not in [w["name"] for w in wallet]:
                        report("C12:match-selected-foreign-credential", "selected credential is not from the wallet", i)
                    if len({d["id"] for d in pd["descs"]}) != len(pd["descs"]):
                        continue  # duplicate descriptor ids: the id does not name one descriptor
                    try:
                        if not satisfies(pd, descs[did], cred, retbl):
                            report("C12:match-unsound:" + shape_of_unsound(descs[did], cred, retbl),
                                   f"credential {cred['name']} is mapped to descriptor {did} whose constraints/format it does not satisfy", i)
                        elif fmt != cred["fmt"]:
                            report("C12:match-mapping-format", f"mapping format {fmt} != credential format {cred['fmt']}", i)
                        counts["sound-checked"] += 1
                    except Undecided:
                        counts["oracle-undecided"] += 1
                # submission requirement bounds, judged where the count is unambiguous: one top-level `from` requirement,
                # every group member listed once, candidates pairwise different credentials
                if (len(pd["srs"]) == 1 and pd["srs"][0]["nested"] and pd["srs"][0]["rule"] == "pick" and "count" not in pd["srs"][0]
                        and all(n["rule"] == "all" and n["from"] and not n["nested"] for n in pd["srs"][0]["nested"])
                        and len({d["id"] for d in pd["descs"]}) == len(pd["descs"]) and all(len(d["group"]) == 1 for d in pd["descs"])):
                    # pick min/max over nested `all from G_i` requirements with one descriptor per group: every selected member is one credential
                    sr = pd["srs"][0]
                    groups = [n["from"] for n in sr["nested"]]
                    per_group = {g: [d for d in pd["descs"] if d["group"] == [g]] for g in groups}
                    if len(set(groups)) == len(groups) and all(len(v) == 1 for v in per_group.values()):
                        try:
                            cand = [next((c for c in wallet if satisfies(pd, per_group[g][0], c, retbl)), None) for g in groups]
                            avail = [c["name"] for c in cand if c is not None and not c["selEmpty"]]
                            if len(set(avail)) == len(avail):
                                nsel = len(vcs)
                                if "min" in sr and nsel < sr["min"]:
                                    report("C12:sr-rule-violated:nested-min", f"selection of {nsel} credential(s) violates min of the nested pick requirement {json.dumps({k: v for k, v in sr.items() if k != 'nested'})} ({len(avail)} members selectable)", i)
                                if "max" in sr and nsel > sr["max"]:
                                    report("C12:sr-rule-violated:nested-max", f"selection of {nsel} credential(s) violates max of the nested pick requirement", i)
                                if nsel != (min(len(avail), sr["max"]) if "max" in sr else len(avail)):
                                    report("C12:sr-rule-violated:nested-take", f"selected {nsel} of {len(avail)} selectable members for {json.dumps({k: v for k, v in sr.items() if k != 'nested'})}", i)
                                counts["sr-bounds-checked-nested"] += 1
                        except Undecided:
                            counts["oracle-undecided"] += 1
                if (len(pd["srs"]) == 1 and pd["srs"][0]["nested"] and pd["srs"][0]["rule"] == "pick" and pd["srs"][0].get("count", 0) > 0
                        and all(n["rule"] == "all" and n["from"] and not n["nested"] for n in pd["srs"][0]["nested"])
                        and len({d["id"] for d in pd["descs"]}) == len(pd["descs"]) and all(len(d["group"]) == 1 for d in pd["descs"])):
                    # pick COUNT over nested `all from G_j` requirements (groups of any size): the selection must fulfil exactly
                    # `count` nested requirements — each taken one completely, nothing of the others
                    sr = pd["srs"][0]
                    groups = [n["from"] for n in sr["nested"]]
                    per_group = {g: [d for d in pd["descs"] if d["group"] == [g]] for g in groups}
                    if len(set(groups)) == len(groups) and all(per_group[g] for g in groups):
                        try:
                            cand = {d["id"]: next((c for c in wallet if satisfies(pd, d, c, retbl)), None) for g in groups for d in per_group[g]}
                            names = [c["name"] for c in cand.values() if c is not None]
                            if len(set(names)) == len(names) and not any(c["selEmpty"] for c in cand.values() if c is not None):
                                mapped = {m[0] for m in maps}
                                full = [g for g in groups if all(d["id"] in mapped for d in per_group[g])]
                                part = [g for g in groups if g not in full and any(d["id"] in mapped for d in per_group[g])]
                                if len(full) != sr["count"] or part:
                                    report("C12:sr-rule-violated:nested-count", f"selection fulfils {len(full)} nested requirement(s) completely ({len(part)} partially) but the pick requirement asks for exactly count={sr['count']} of {len(groups)} (group sizes {[len(per_group[g]) for g in groups]})", i)
                                elif len(vcs) != sum(len(per_group[g]) for g in full):
                                    report("C12:sr-rule-violated:nested-count", f"{len(vcs)} credentials selected for {len(full)} nested requirements with {sum(len(per_group[g]) for g in full)} descriptors", i)
                                counts["sr-bounds-checked-nested-count"] += 1
                        except Undecided:
                            counts["oracle-undecided"] += 1
                if len(pd["srs"]) == 1 and not pd["srs"][0]["nested"] and pd["srs"][0]["from"] and len({d["id"] for d in pd["descs"]}) == len(pd["descs"]):
                    sr = pd["srs"][0]
                    try:
                        members = [d for d in pd["descs"] if sr["from"] in d["group"]]
                        if all(d["group"].count(sr["from"]) == 1 for d in members):
                            cand = [next((c for c in wallet if satisfies(pd, d, c, retbl)), None) for d in members]
                            avail = [c["name"] for c in cand if c is not None and not c["selEmpty"]]
                            if len(set(avail)) == len(avail):
                                nsel, shape = len(vcs), None
                                if sr["rule"] == "all":
                                    if nsel != len(members):
                                        shape = "all"
                                elif "count" in sr:
                                    if nsel != sr["count"]:
                                        shape = "count"
                                else:
                                    if "max" in sr and nsel > sr["max"]:
                                        shape = "max-0" if sr["max"] == 0 else "max"
                                    if "min" in sr and nsel < sr["min"]:
                                        shape = "min-greater-than-max" if "max" in sr and sr["max"] < sr["min"] else "min"
                                    elif not shape and nsel != (min(len(avail), sr["max"]) if "max" in sr else len(avail)):
                                        shape = "take"  # fewer members taken than selectable and allowed
                                if shape:
                                    report("C12:sr-rule-violated:" + shape, f"selection of {nsel} credential(s) violates the submission requirement {json.dumps({k: v for k, v in sr.items() if k != 'nested'})}", i)
                                counts["sr-bounds-checked"] += 1
                    except Undecided:
                        counts["oracle-undecided"] += 1
                if len(maps) != len(vcs):
                    report("C12:match-results-not-aligned", f"{len(maps)} mappings but {len(vcs)} selected credentials (callers zip them by index)", i)
                if not pd["srs"]:
                    ids = [x[0] for x in maps]
                    if ids != [d["id"] for d in pd["descs"]]:
                        report("C12:match-partial", "successful match does not map every input descriptor", i)
            elif line == "match err:nocred" and not pd["srs"]:
                # completeness: a complete selection must not exist
                counts["match-nocred"] += 1
                try:
                    if all(any(satisfies(pd, d, c, retbl) for c in wallet) for d in pd["descs"]):
                        report("C12:match-incomplete", "wallet reports missing credentials although every descriptor has a satisfying credential", i)
                    counts["complete-checked"] += 1
                except Undecided:
                    counts["oracle-undecided"] += 1
        elif kind == "build":
            last_build = (op, line)
            # the wallet reports missing credentials instead of an (empty / partial) submission: when the reference says that
            # NO wallet holds a complete selection for a definition that has input descriptors, Build must fail
            if line.startswith("build ok") and pd["descs"] and len({d["id"] for d in pd["descs"]}) == len(pd["descs"]):
                try:
                    ws = [[case["creds"][k] for k in w] for w in op.get("wallets", [])]
                    if ws and not any(complete_selection_exists(pd, w, retbl) for w in ws):
                        report("C12:build-ok-without-complete-selection",
                               f"Build returned a submission ({line[6:80]}) although no wallet holds a complete selection for the definition", i)
                    counts["build-complete-checked"] += 1
                except Undecided:
                    counts["oracle-undecided"] += 1
        elif kind == "validate" and not op.get("envErr"):
            counts["validate:" + op.get("mut", "")] += 1
            unique_ids = len({d["id"] for d in pd["descs"]}) == len(pd["descs"])
            pres = []
            for row in op.get("pres", []):
                pres.append([dict(creds[x["ref"]], raw=x["raw"]) if "ref" in x else x["full"] for x in row])
            mok = re.match(r"validate ok \{(.*)\}$", line)
            # envelope parsing: an array envelope with an entry that is not a presentation must be refused as a whole
            if "junk" in (op.get("entries") or []) and line != "validate envelope-err":
                report("C12:envelope-with-junk-entry-parsed",
                       f"array envelope with entries {op['entries']} was parsed ({line[:40]}): positions of the presentations shift", i)
            # accepted => every mapping's first path resolves IN THE RAW PRESENTED JSON (independent evaluation over the bytes
            # received) to a string or an object, and to the same object the parsed envelope holds there
            if mok and (op.get("envRaw", "").lstrip()[:1] in "[{"):
                try:
                    raw_env = json.loads(op["envRaw"])
                    for m in op.get("sub", []):
                        rr = navigate_path(m["path"], raw_env)
                        pr = navigate_path(m["path"], op["env"])
                        unresolved = rr is None or not isinstance(rr[0], (str, dict)) or (isinstance(rr[0], dict) and (pr is None or pr[0] != rr[0]))
                        if unresolved:
                            report("C12:accepted-path-does-not-resolve-in-raw-envelope",
                                   f"accepted although {m['path']} of the PRESENTED envelope is {json.dumps(rr[0])[:40] if rr else 'nothing'}", i)
                    counts["raw-envelope-checked"] += 1
                except (Undecided, ValueError):
                    counts["oracle-undecided"] += 1
            if mok and not unique_ids:
                counts["validate:duplicate-descriptor-ids-outside-domain"] += 1
            elif mok:
                accepted = dict(x.split("=", 1) for x in mok.group(1).split(",") if x)
                counts["validate-accepted"] += 1
                if op.get("sub"):
                    distinct.add((case["n"], "v", json.dumps(op["sub"], sort_keys=True)))
                # forged_mapping_rejected: every entry resolves (inside the envelope) to the credential the verifier's own matching selected
                ids = [m["id"] for m in op.get("sub", [])]
                for m in op.get("sub", []):
                    landed = ref_resolve(op, m)
                    if m["id"] not in accepted:
                        report("C12:accepted-unknown-descriptor", f"accepted submission maps unknown/unselected descriptor {m['id']}", i)
                    elif landed is None or landed.rstrip("'") != accepted[m["id"]].rstrip("'"):
                        if ids.count(m["id"]) > 1:
                            report("C12:accepted-duplicate-descriptor-entry:shadowed", f"accepted although an entry for {m['id']} resolves to {landed}, not {accepted[m['id']]} (a later entry with the same id overwrote it)", i)
                        else:
                            report("C12:accepted-forged-mapping", f"accepted although the entry for {m['id']} resolves to {landed}, not {accepted[m['id']]}", i)
                if set(ids) != set(accepted):
                    report("C12:accepted-incomplete-mapping", f"accepted although descriptors {sorted(set(accepted) - set(ids))} are not mapped", i)
                elif len(ids) != len(accepted) and unique_ids:
                    report("C12:accepted-duplicate-descriptor-entry:surplus", "accepted although the descriptor map has more than one entry for an input descriptor", i)
                # an accepted submission implies that some presentation of the envelope holds a complete selection for the
                # definition (an empty / incomplete descriptor map over decoys must be rejected)
                if pd["descs"]:
                    try:
                        if not any(complete_selection_exists(pd, p, retbl) for p in pres):
                            report("C12:accepted-without-complete-selection",
                                   f"accepted {accepted} although no presentation of the envelope holds a complete selection for the definition", i)
                        counts["accepted-complete-checked"] += 1
                    except Undecided:
                        counts["oracle-undecided"] += 1
                # the accepted mapping is what reference matching selects on the first presentation that matches (basic mode)
                if not pd["srs"] and unique_ids and len(pres) == 1:
                    try:
                        cand = ref_candidates(pd, pres[0], retbl)
                        want = {d["id"]: (c["name"] if c else None) for d, c in zip(pd["descs"], cand)}
                        if all(want.values()) and want != accepted:
                            report("C12:accepted-mapping-differs-from-reference-match", f"verifier returned {accepted}, reference matching selects {want}", i)
                        counts["accepted-vs-reference-checked"] += 1
                    except Undecided:
                        counts["oracle-undecided"] += 1
            elif op.get("mut") == "orig" and line.startswith("validate err:") and last_build and last_build[1].startswith("build ok"):
                # wallet_verifier_agree: the verifier must accept what the wallet built from the same definition
                cls = line.split("err:", 1)[1]
                mb = re.match(r"build ok vcs=\[(.*?)\] map=", last_build[1])
                sel = [creds[x] for x in mb.group(1).split(",") if x and x in creds]
                wallet = [case["creds"][k] for k in last_build[0]["wallets"][-1]] if last_build[0].get("wallets") else []
                if cls == "signer":
                    counts["agree:signer-broken-on-purpose"] += 1
                elif any(c["fmt"] == "" for c in sel):
                    counts["agree:holder-credential-outside-domain"] += 1
                elif not unique_ids:
                    counts["agree:duplicate-descriptor-ids-outside-domain"] += 1
                else:
                    try:
                        amb = False
                        if len(last_build[0].get("wallets", [])) == 1:
                            cw = [c["name"] if c else None for c in ref_candidates(pd, wallet, retbl)]
                            cs = [c["name"] if c else None for c in ref_candidates(pd, sel, retbl)]
                            # the known limitation: re-matching the presented credentials picks a DIFFERENT credential for some
                            # descriptor (a descriptor that merely loses its candidate because it was not selected is not that)
                            amb = any(a and b and a != b for a, b in zip(cw, cs))
                        else:
                            amb = None
                        if amb:
                            report("C12:wallet-verifier-disagree:credential-matches-several-descriptors",
                                   f"verifier rejects ({cls}) the wallet's own submission: re-matching the presented credentials selects differently", i, True)
                        elif amb is None:
                            counts["agree:multi-wallet-not-judged"] += 1
                        else:
                            report("C12:wallet-verifier-disagree:" + cls, f"verifier rejects ({cls}) the wallet's own submission", i, True)
                    except Undecided:
                        counts["oracle-undecided"] += 1
            if op.get("mut") == "orig" and unique_ids and all(m["fmt"] for m in op.get("sub", [])):
                # the wallet's own descriptor map: every path resolves inside the wallet's own presentation, to a credential
                # that satisfies the descriptor the entry names
                by_name = {}
                for row, views in zip(op.get("pres", []), pres):
                    for x, v in zip(row, views):
                        by_name[x.get("ref") or x["full"]["name"]] = v
                descs_by_id = {d["id"]: d for d in pd["descs"]}
                for m in op.get("sub", []):
                    landed = ref_resolve(op, m)
                    if landed is None:
                        report("C12:wallet-path-does-not-resolve-in-own-presentation",
                               f"the wallet mapped {m['id']} to {m['path']}, which does not resolve to a credential in its own presentation", i, True)
                    elif landed in by_name and m["id"] in descs_by_id:
                        try:
                            if not satisfies(pd, descs_by_id[m["id"]], by_name[landed], retbl):
                                report("C12:wallet-path-points-at-unsatisfying-credential",
                                       f"the wallet mapped {m['id']} to {m['path']} = {landed}, which does not satisfy that descriptor", i, True)
                            counts["own-path-checked"] += 1
                        except Undecided:
                            counts["oracle-undecided"] += 1
            if op.get("mut") == "orig" and mok:
                counts["agree:accepted"] += 1
        elif kind == "fields":
            mf = re.match(r"fields ok \{(.*)\}$", line)
            if mf and len({d["id"] for d in pd["descs"]}) == len(pd["descs"]):
                got = {}
                for part in re.split(r",(?=f\d+=)", mf.group(1)):
                    if part:
                        k, v = part.split("=", 1)
                        got[k] = v
                cm = {e[0]: case["creds"][e[1]] for e in op.get("credMap", [])}
                try:
                    for k, v in got.items():
                        okv = False
                        for d in pd["descs"]:
                            if d["id"] in cm:
                                for f in d.get("fields", []):
                                    if f.get("id") == k and field_value_ok(f, cm[d["id"]]["tree"], retbl, json.dumps(json.loads(v), sort_keys=True, separators=(",", ":"))):
                                        okv = True
                        if not okv:
                            report("C12:field-value-not-faithful", f"resolved field {k}={v} is not the value at the field's paths in the mapped credential", i)
                    counts["fields-checked"] += 1
                    if got:
                        distinct.add((case["n"], "f", mf.group(1)))
                except Undecided:
                    counts["oracle-undecided"] += 1
    # ---- consumer legs: the real callers of vcr/pe, fed with the same generated definitions / wallets / envelopes / maps
    import vlib
    ops_by_n = {}
    for k, raw in enumerate(ops_raw):
        if raw:
            o = json.loads(raw)
            ops_by_n[o.get("n")] = (k, o)
    case_of = {}
    cur = None
    for k, raw in enumerate(ops_raw):
        if raw:
            o = json.loads(raw)
            if o.get("op") in ("case", "reject"):
                cur = k
            case_of[k] = cur

    def consumer_leg(pkg, files, name, test, outfile, quick_limit=5000):
        b = ctx.go_test_binary(pkg, files, name)
        if b is None:
            ctx.oblige("harness-builds:" + name, False, ctx.harness_error[-1200:])
            return []
        ctx.oblige("harness-builds:" + name, True)
        rc2, log2, _ = ctx.run_harness(b, test, {"VERIF_FEED": ops_p, "VERIF_LIMIT": 60000 if ctx.thorough else quick_limit},
                                       outdir=out, timeout=1800, cwd=os.path.join(vlib.REPO, pkg))
        if rc2 != 0:
            ctx.oblige("harness-runs:" + name, False, log2[-1200:])
            return []
        ctx.oblige("harness-runs:" + name, True)
        return [json.loads(l) for l in ctx.read_lines(os.path.join(out, outfile)) if l]

    def load_case(k):
        c = json.loads(ops_raw[case_of[k]])
        return c, ops_raw[case_of[k]], ecma_retbl({(p_, s_): (k_, v_) for p_, s_, k_, v_ in c.get("re", [])})

    def creport(sig, what, k, extra_line=None):
        """report on the op at line k (replay = its case + the op)"""
        nonlocal case_line, last_build
        case_line, last_build = ops_raw[case_of[k]], None
        report(sig, what, k)

    # verifier side: ParsePresentationSubmission + PEXConsumer.fulfill / credentialMap + resolveInputDescriptorValues
    for r in consumer_leg(IAM_PKG, IAM_HARNESS, "c12iam", "TestVerifC12Iam", "iam.out"):
        if r["n"] not in ops_by_n:
            continue
        k, op = ops_by_n[r["n"]]
        line = impl[k] if k < len(impl) else ""
        c, _, rt = load_case(k)
        if op.get("re"):
            rt.update({(p_, s_): (k_, v_) for p_, s_, k_, v_ in op["re"]})
        pdx = c["def"]
        pe_ok = line.startswith("validate ok")
        counts["iam:" + r.get("r", "?")] += 1
        if r.get("r") == "panic":
            creport("C12:consumer-panic:iam", f"auth/api/iam consumer panicked: {r.get('panic','')[:80]}", k)
            continue
        if r.get("r") == "sub-reject":
            if pe_ok and op.get("mut") == "orig" and op.get("sub") and all(m["fmt"] for m in op["sub"]):
                creport("C12:own-submission-rejected-by-submission-schema", "ParsePresentationSubmission rejects the descriptor map the wallet built", k)
            continue
        if r.get("otherDefinitionRefused") is False:
            creport("C12:consumer:fulfill-accepts-submission-for-other-definition", "PEXConsumer.fulfill accepted a submission whose definition_id is not required", k)
        if r.get("r") == "fulfill-ok" and not pe_ok:
            creport("C12:consumer:fulfill-accepts-what-validate-rejects", f"PEXConsumer.fulfill accepted, PresentationSubmission.Validate says: {line[:60]}", k)
        elif r.get("r") == "fulfill-err" and pe_ok:
            creport("C12:consumer:fulfill-rejects-what-validate-accepts", "PEXConsumer.fulfill refused a submission that Validate accepts", k)
        if r.get("r") != "fulfill-ok" or not pe_ok:
            continue
        if not r.get("fulfilled") or not r.get("secondFulfillRefused"):
            creport("C12:consumer:fulfill-bookkeeping", "after fulfill the definition is not marked fulfilled / can be fulfilled twice", k)
        accepted = dict(x.split("=", 1) for x in re.match(r"validate ok \{(.*)\}$", line).group(1).split(",") if x)
        raw_of, view_of = {}, {}
        cr = {x["name"]: x for x in c["creds"]}
        for row in op.get("pres", []):
            for x in row:
                nm = x.get("ref") or x["full"]["name"]
                rw = x.get("raw") if "ref" in x else x["full"]["raw"]
                raw_of.setdefault(nm, rw)
                view_of[rw] = dict(cr[x["ref"]], raw=rw) if "ref" in x else x["full"]
        want = {i: raw_of.get(nm) for i, nm in accepted.items()}
        if r.get("credentialMap") != want and len({d["id"] for d in pdx["descs"]}) == len(pdx["descs"]):
            creport("C12:consumer:credentialMap-differs-from-validated-mapping",
                    f"PEXConsumer.credentialMap() = {r.get('credentialMap')} but the validated mapping is {want}", k)
        flds = r.get("fields")
        if isinstance(flds, dict) and isinstance(r.get("credentialMap"), dict) and len({d["id"] for d in pdx["descs"]}) == len(pdx["descs"]):
            try:
                for fk, fv in flds.items():
                    okv = False
                    for d in pdx["descs"]:
                        view = view_of.get(r["credentialMap"].get(d["id"]))
                        if view is None:
                            continue
                        for f in d.get("fields", []):
                            if f.get("id") == fk and field_value_ok(f, view["tree"], rt, json.dumps(fv, sort_keys=True, separators=(",", ":"))):
                                okv = True
                    if not okv:
                        creport("C12:consumer:field-value-not-faithful",
                                f"resolveInputDescriptorValues reports {fk}={json.dumps(fv)[:60]}, not a value of the mapped credential", k)
                counts["iam:fields-checked"] += 1
            except Undecided:
                counts["oracle-undecided"] += 1
            if flds and r.get("duplicateFieldRefused") is False:
                creport("C12:consumer:duplicate-field-not-refused", "the same field id mapped by two presentation definitions was not refused", k)

    # ---- the scripted PEXConsumer session (two required definitions) of the iam leg against the Lean model
    #      (NutsModel/C12/Consumer.lean, driver op `consumer`), plus direct oracles on the implementation's own line
    script = {}
    for l in ctx.read_lines(os.path.join(out, "iam.consumer.out")):
        if l and "\t" in l:
            n_, line_ = l.split("\t", 1)
            script[int(n_)] = line_
    if script:
        c_lines, c_want, defid = [], [], ""
        for k_, raw in enumerate(ops_raw):
            if not raw:
                continue
            if raw.startswith('{"op":"case"') or raw.startswith('{"op":"reject"'):
                c_lines.append(raw)
                if raw.startswith('{"op":"case"'):
                    try:
                        defid = json.loads(json.loads(raw)["defRaw"]).get("id", "")
                    except Exception:
                        defid = ""
            elif raw.startswith('{"op":"validate"'):
                o = json.loads(raw)
                if o.get("n") in script:
                    o["op"], o["defId"] = "consumer", defid
                    c_lines.append(json.dumps(o))
                    c_want.append((k_, o["n"]))
        c_ops, c_model = os.path.join(out, "iam.ops.jsonl"), os.path.join(out, "iam.model.out")
        with open(c_ops, "w") as f:
            f.write("\n".join(c_lines) + "\n")
        okc, errc = ctx.model("C12", c_ops, c_model)
        ctx.oblige("model-driver-runs:consumer", okc, errc[-400:])
        c_got = [l for l in ctx.read_lines(c_model) if l.startswith("consumer ")]
        ctx.oblige("correspondence:consumer-model-lines", len(c_got) == len(c_want), f"{len(c_got)} model lines for {len(c_want)} sessions")
        c_bad = 0
        for (k, n_), mline in zip(c_want, c_got):
            iline = script[n_]
            counts["iam-session:" + ("accepted" if " f1=ok " in iline else "refused")] += 1
            if iline != mline:
                c_bad += 1
                fields_i = dict(x.split("=", 1) for x in re.split(r" (?=[a-z0-9]+=)", iline[len("consumer "):])) if iline.startswith("consumer next0") else {}
                fields_m = dict(x.split("=", 1) for x in re.split(r" (?=[a-z0-9]+=)", mline[len("consumer "):]))
                diff = sorted(f_ for f_ in set(fields_i) | set(fields_m) if fields_i.get(f_) != fields_m.get(f_)) or ["line"]
                creport("C12:consumer-session:model-differs:" + diff[0],
                        f"PEXConsumer session differs from the Lean model at {diff[0]}: impl {iline[:160]} / model {mline[:160]}", k)
                continue
            # direct oracles on the implementation's own line
            pe_line = impl[k] if k < len(impl) else ""
            pe_ok = pe_line.startswith("validate ok")
            f = dict(x.split("=", 1) for x in re.split(r" (?=[a-z0-9]+=)", iline[len("consumer "):]))
            if f.get("other") != "err:not-required":
                creport("C12:consumer-session:unrequired-definition-not-refused", f"fulfill for an unrequired definition id: {f.get('other')}", k)
            if f.get("next0") != "organization":
                creport("C12:consumer-session:next-order", f"next() of a fresh consumer = {f.get('next0')}", k)
            if pe_ok:
                exp = {"f1": "ok", "next1": "user", "again": "err:already", "f2": "ok", "next2": "none"}
            else:
                exp = {"f1": "err:validate", "next1": "organization", "again": "err:validate", "f2": "err:validate", "next2": "organization", "cm": "{}"}
            for kk, vv in exp.items():
                if f.get(kk) != vv:
                    creport("C12:consumer-session:" + kk, f"PEXConsumer session: {kk}={f.get(kk)} although Validate says '{pe_line[:50]}' (expected {vv})", k)
            if f.get("cm", "").startswith("err"):
                creport("C12:consumer-session:credentialMap-fails", "credentialMap() fails on a state reached by accepted fulfill calls only", k)
            if f.get("v1", "").startswith("ok {") and f.get("v1") != "ok {}" and f.get("v2") != "err:duplicate-field":
                creport("C12:consumer-session:duplicate-field-not-refused", f"two definitions map the same fields but resolveInputDescriptorValues says {f.get('v2', '')[:60]}", k)
            if f.get("v1") == "ok {}" and f.get("v2") != "ok {}":
                creport("C12:consumer-session:duplicate-field-spurious", f"no named field, but two definitions give {f.get('v2', '')[:60]}", k)
        ctx.oblige("correspondence:consumer-model=impl", c_bad == 0, f"{c_bad} of {len(c_want)} PEXConsumer sessions differ from the model")
        ctx.cov["consumer_sessions_vs_model"] = len(c_want)

    # ---- presenter format negotiation (credential.Formats.Match x3 + ChooseVPFormat, and the real buildSubmission) vs the
    #      Lean model (NutsModel/C12/Formats.lean) and an independent set-based reference
    def ref_vp_format(defaults, verifier, pdf):
        al = {"alg_values_supported": "alg", "proof_type_values_supported": "proof_type"}
        def openid(m):
            return {f_: {al.get(p_, p_): set(v_) for p_, v_ in ps.items()} for f_, ps in (m or {}).items()}
        cur, ver, step = openid(defaults), openid(verifier), {}
        for f_, ps in cur.items():
            if f_ in ver:
                common = {p_: ps[p_] & ver[f_][p_] for p_ in ps if p_ in ver[f_] and ps[p_] & ver[f_][p_]}
                if common:
                    step[f_] = common
        if pdf is not None:
            fa, step2 = {"jwt_vp_json": "jwt_vp", "jwt_vc_json": "jwt_vc"}, {}
            for f_, ps in step.items():
                o_ = {p_: set(v_) for p_, v_ in pdf.get(fa.get(f_, f_), {}).items()} if fa.get(f_, f_) in pdf else None
                if o_ is not None:
                    common = {p_: ps[p_] & o_[p_] for p_ in ps if p_ in o_ and ps[p_] & o_[p_]}
                    if common:
                        step2[f_] = common
            step = step2
        return "jwt_vp" if set(step) & {"jwt_vp", "jwt_vp_json"} else "ldp_vp" if "ldp_vp" in step else ""

    hb = ctx.go_test_binary(HOLDER_PKG, HOLDER_HARNESS, "c12holder")
    if hb is not None:
        fenv = {"VERIF_REPLAY": os.path.abspath(ctx.replay)} if ctx.replay else {}
        rcf, logf, _ = ctx.run_harness(hb, "TestVerifC12Formats", fenv, outdir=out, timeout=900, cwd=os.path.join(vlib.REPO, HOLDER_PKG))
        ctx.oblige("harness-runs:c12holder:formats", rcf == 0, logf[-800:])
        if rcf == 0:
            f_ops = [l for l in ctx.read_lines(os.path.join(out, "formats.ops.jsonl")) if l]
            f_impl = [l for l in ctx.read_lines(os.path.join(out, "formats.impl.out")) if l]
            okf, errf = ctx.model("C12", os.path.join(out, "formats.ops.jsonl"), os.path.join(out, "formats.model.out"))
            ctx.oblige("model-driver-runs:formats", okf, errf[-400:])
            f_model = [l for l in ctx.read_lines(os.path.join(out, "formats.model.out")) if l]
            f_bad = 0
            for i_, (raw, il) in enumerate(zip(f_ops, f_impl)):
                iline, _, real = il.partition("\treal=")
                mline = f_model[i_] if i_ < len(f_model) else None
                o = json.loads(raw)
                chosen = iline.split(" ")[1][len("chosen="):] if iline.startswith("formats chosen=") else "?"
                counts["formats:" + (chosen or "none")] += 1
                sig = None
                if iline != mline:
                    f_bad += 1
                    sig, what = "C12:formats:model-differs", f"format negotiation differs from the Lean model: impl {iline[:200]} / model {str(mline)[:200]}"
                elif chosen != ref_vp_format(o["defaults"], o.get("verifier"), o.get("pdFormat")):
                    sig, what = "C12:formats:chosen-format-not-shared", (f"presenter chose '{chosen}' but node defaults, verifier metadata and definition format share "
                                                                       f"'{ref_vp_format(o['defaults'], o.get('verifier'), o.get('pdFormat'))}'")
                elif (chosen == "") != (real == "nofmt") or real == "panic":
                    sig, what = "C12:formats:buildSubmission-disagrees", f"real buildSubmission outcome {real} with negotiated format '{chosen}'"
                if sig and sig not in seen_sig:
                    seen_sig[sig] = ctx.violation(sig, what + f" (formats op {i_})", sig.split(":", 1)[1].replace(":", "-") + ".jsonl", raw + "\n")
                if sig and seen_sig.get(sig):
                    oracle_bad += 1
            ctx.oblige("correspondence:formats-model=impl", f_bad == 0 and len(f_model) == len(f_impl), f"{f_bad} of {len(f_impl)} format negotiations differ from the model")
            ctx.cov["format_negotiations_vs_model"] = len(f_impl)

    # wallet side: presenter.buildSubmission, then what the verifier does with its output
    for r in consumer_leg(HOLDER_PKG, HOLDER_HARNESS, "c12holder", "TestVerifC12Holder", "holder.out", 4000):
        if r["n"] not in ops_by_n:
            continue
        k, op = ops_by_n[r["n"]]
        line = impl[k] if k < len(impl) else ""
        c, _, rt = load_case(k)
        pdx = c["def"]
        cr = {x["name"]: x for x in c["creds"]}
        counts["holder:" + r.get("r", "?") + (":" + r["verdict"] if "verdict" in r else "")] += 1
        if r.get("r") == "panic":
            creport("C12:consumer-panic:holder", f"presenter.buildSubmission panicked: {r.get('panic','')[:80]}", k)
            continue
        mb = re.match(r"build ok vcs=\[(.*?)\] map=(\[.*\])$", line)
        if r.get("r") in ("err:format", "err:sign"):
            continue
        if r.get("r") == "err:nomatch":
            if mb:
                creport("C12:presenter:fails-although-build-succeeds", "presenter.buildSubmission fails for a wallet on which Build succeeds", k)
            continue
        if not mb:
            creport("C12:presenter:submission-although-build-fails", f"presenter.buildSubmission returned a submission, Build says: {line[:60]}", k)
            continue
        sel = [cr[x] for x in mb.group(1).split(",") if x and x in cr]
        if r.get("keys") != [x["key"] for x in sel]:
            creport("C12:presenter:presentation-credentials-differ-from-sign-instruction",
                    f"the presentation holds {len(r.get('keys', []))} credential(s) {r.get('keys')}, the sign instruction selected {[x['name'] for x in sel]}", k)
            continue
        if r.get("map") != mb.group(2) or r.get("definitionId") is False:
            creport("C12:presenter:descriptor-map-differs-from-build", f"presenter returned {r.get('map')}, Build {mb.group(2)}", k)
            continue
        unique_ids = len({d["id"] for d in pdx["descs"]}) == len(pdx["descs"])
        if not unique_ids or any(x["fmt"] == "" for x in sel):
            counts["holder:outside-domain"] += 1
            continue
        v = r.get("verdict")
        if v == "submission-schema-reject":
            creport("C12:own-empty-submission-rejected-by-submission-schema" if r.get("map") == "[]" else "C12:own-submission-rejected-by-submission-schema",
                    f"the verifier's ParsePresentationSubmission rejects the wallet's own marshalled submission (descriptor map {r.get('map')})", k)
        elif v in ("validate-err", "envelope-reject"):
            try:
                wallet = [c["creds"][i] for i in op["wallets"][0]]
                cw = [x["name"] if x else None for x in ref_candidates(pdx, wallet, rt)]
                cs = [x["name"] if x else None for x in ref_candidates(pdx, sel, rt)]
                if any(a and b and a != b for a, b in zip(cw, cs)):
                    creport("C12:wallet-verifier-disagree:credential-matches-several-descriptors",
                            f"verifier rejects the presenter's own submission ({r.get('validateErr','')[:50]}): re-matching the presented credentials selects differently", k)
                else:
                    creport("C12:presenter:own-submission-rejected", f"verifier rejects the presenter's own submission: {r.get('validateErr', v)[:80]}", k)
            except Undecided:
                counts["oracle-undecided"] += 1
        elif v == "ok":
            ids = [x.split(":", 1)[0] for x in mb.group(2)[1:-1].split(",") if x]
            want = {i: x["key"] for i, x in zip(ids, sel)}
            if r.get("accepted") != want and len(ids) == len(sel):
                creport("C12:presenter:accepted-mapping-differs", f"verifier accepted {r.get('accepted')}, the wallet mapped {want}", k)

    # discovery client: Module.Search zips Match's results by index and resolves the constraint fields
    disc_results = consumer_leg(DISC_PKG, DISC_HARNESS, "c12disc", "TestVerifC12Discovery", "discovery.out", 3000)
    # ---- discovery validateRegistration (PE part) against the Lean model (NutsModel/C12/Registration.lean, driver op
    #      `registration`) + direct oracle against the pe leg's own Match result on the same wallet
    reg = {r["n"]: r["reg"] for r in disc_results if "reg" in r and r["n"] in ops_by_n}
    creg = {r["n"]: (r.get("creg", "-"), r.get("rt", "-")) for r in disc_results if "reg" in r and r["n"] in ops_by_n}
    if reg:
        r_lines, r_want = [], []
        for k_, raw in enumerate(ops_raw):
            if not raw:
                continue
            if raw.startswith('{"op":"case"') or raw.startswith('{"op":"reject"'):
                r_lines.append(raw)
            elif raw.startswith('{"op":"match"'):
                o = json.loads(raw)
                if o.get("n") in reg:
                    r_lines.append(json.dumps({"op": "registration", "n": o["n"], "wallet": o.get("wallet", [])}))
                    r_want.append((k_, o["n"], o.get("wallet", [])))
        r_ops, r_model = os.path.join(out, "reg.ops.jsonl"), os.path.join(out, "reg.model.out")
        with open(r_ops, "w") as f:
            f.write("\n".join(r_lines) + "\n")
        okr, errr = ctx.model("C12", r_ops, r_model)
        ctx.oblige("model-driver-runs:registration", okr, errr[-400:])
        r_all = ctx.read_lines(r_model)
        r_got = [l for l in r_all if l.startswith("registration ")]
        # ---- the CLIENT side (discovery/client.go findCredentialsAndBuildPresentation, model clientRegistrationCreds) and the
        #      round trip client -> server, on the same wallets
        c_got = [l for l in r_all if l.startswith("clientreg ")]
        t_got = [l for l in r_all if l.startswith("roundtrip ")]
        c_bad = 0
        for (k, n_, wal), cline, tline in zip(r_want, c_got, t_got):
            got, rt = creg.get(n_, ("-", "-"))
            if got == "-":
                continue
            c_, _, _ = load_case(k)
            if got.startswith("ok:"):
                idx = [x for x in got[3:].split(",") if x != ""]
                if "?" in idx:
                    creport("C12:client-registration:foreign-credential", f"the registration presentation holds a credential that is not in the wallet ({got})", k)
                    continue
                got_names = "ok:" + ",".join(c_["creds"][int(i_)]["name"] for i_ in idx if int(i_) < len(c_["creds"]))
            else:
                got_names = got
            counts["client-registration:" + got.split(":")[0] + (":" + got.split(":")[1] if got.startswith("err") else "")] += 1
            if "clientreg " + got_names != cline:
                c_bad += 1
                creport("C12:client-registration:model-differs", f"findCredentialsAndBuildPresentation presents {got_names}, Lean model says {cline}", k)
            pe_line = impl[k] if k < len(impl) else ""
            mm = re.match(r"match ok vcs=\[(.*?)\]", pe_line)
            # direct oracle: the client registers exactly what Match selects on its wallet, and reports missing credentials
            # exactly when Match does (no partial / padded registration)
            if got.startswith("ok:") and (not mm or got_names[3:] != mm.group(1)):
                creport("C12:client-registration:presents-other-than-matched", f"registration presents [{got_names[3:]}] but Match on the wallet selects {pe_line[:80]}", k)
            if got == "err:nocred" and pe_line != "match err:nocred":
                creport("C12:client-registration:nocred-invented", f"client reports missing credentials but Match says {pe_line[:60]}", k)
            if got.startswith("ok:") and rt != "err:validity":
                counts["client-server-roundtrip:" + rt] += 1
                if "roundtrip " + rt != tline:
                    c_bad += 1
                    creport("C12:client-registration:roundtrip-model-differs", f"server says {rt} to the client's own registration, Lean model says {tline}", k)
        ctx.oblige("correspondence:client-registration-model=impl", c_bad == 0 and len(c_got) == len(r_want) and len(t_got) == len(r_want), f"{c_bad} of {len(r_want)} client registrations differ from the model")
        ctx.cov["client_registrations_vs_model"] = sum(1 for (_, n_, _) in r_want if creg.get(n_, ("-",))[0] != "-")
        r_bad = 0
        for (k, n_, wal), mline in zip(r_want, r_got):
            got = reg[n_]
            counts["registration:" + got] += 1
            if got == "err:validity":
                continue  # the JWT-expiry test between the two PE steps is discovery's own (C16)
            if "registration " + got != mline:
                r_bad += 1
                creport("C12:registration:model-differs", f"validateRegistration = {got}, Lean model says {mline}", k)
                continue
            pe_line = impl[k] if k < len(impl) else ""
            mm = re.match(r"match ok vcs=\[(.*?)\]", pe_line)
            c_, _, _ = load_case(k)
            names = [c_["creds"][i_]["name"] for i_ in wal if i_ < len(c_["creds"])]
            if got == "ok" and (not mm or not set(names) <= set(mm.group(1).split(","))):
                creport("C12:registration:surplus-credential-accepted", f"registration accepted although Match selects [{mm.group(1) if mm else pe_line[:40]}] of the presented {names}", k)
            if got == "err:not-fulfilled" and mm and set(names) <= set(mm.group(1).split(",")):
                creport("C12:registration:complete-presentation-refused", f"registration refused although every presented credential {names} is selected by Match", k)
            if got == "err:match" and mm:
                creport("C12:registration:match-error-invented", "registration says the definition is not matched although Match succeeds", k)
        ctx.oblige("correspondence:registration-model=impl", r_bad == 0 and len(r_got) == len(r_want), f"{r_bad} of {len(r_want)} registrations differ from the model")
        ctx.cov["registrations_vs_model"] = len(r_want)
    # ---- discovery/client.go activate: the DID loop of the REAL clientRegistrationManager on every outcome sequence of up to
    #      three DIDs vs the Lean model (activateVerdict) + direct oracle
    act_results = consumer_leg(DISC_PKG, DISC_HARNESS, "c12disc", "TestVerifC12DiscoveryActivate", "discovery.activate.out", 0)
    if act_results:
        a_ops, a_model = os.path.join(out, "act.ops.jsonl"), os.path.join(out, "act.model.out")
        with open(a_ops, "w") as f:
            f.write("\n".join(json.dumps({"op": "activate", "results": r["results"]}) for r in act_results) + "\n")
        oka, erra = ctx.model("C12", a_ops, a_model)
        ctx.oblige("model-driver-runs:activate", oka, erra[-400:])
        a_got = [l for l in ctx.read_lines(a_model) if l.startswith("activate ")]
        a_bad = 0
        for r, mline in zip(act_results, a_got):
            res_, v = r["results"], r["verdict"]
            counts["activate:" + v] += 1
            replay = json.dumps({"op": "activate", "results": res_})
            if "activate " + v != mline:
                a_bad += 1
                ctx.violation("C12:activate:model-differs", f"activate on DID outcomes {res_} = {v}, Lean model says {mline}", "activate-model-differs.jsonl", replay)
            if (v == "ok") != ("registered" in res_):
                ctx.violation("C12:activate:verdict-ignores-registered-did", f"activate on DID outcomes {res_} = {v}", "activate-verdict.jsonl", replay)
            if (v == "err:failed:nocred") != (len(res_) > 0 and all(x == "nocred" for x in res_)):
                ctx.violation("C12:activate:missing-credentials-misreported", f"activate on DID outcomes {res_} = {v}", "activate-nocred.jsonl", replay)
            if r.get("pending", 0) != 0:
                ctx.violation("C12:activate:did-skipped", f"activate on DID outcomes {res_} left {r['pending']} DID(s) with credentials unregistered", "activate-did-skipped.jsonl", replay)
        ctx.oblige("correspondence:activate-model=impl", a_bad == 0 and len(a_got) == len(act_results) and len(act_results) == 40, f"{a_bad} of {len(act_results)} activate runs differ from the model")
        ctx.cov["activate_sequences_vs_model"] = len(act_results)
    else:
        ctx.oblige("leg-runs:activate", False, "discovery activate leg produced no output")
    for r in disc_results:
        if r["n"] not in ops_by_n:
            continue
        k, op = ops_by_n[r["n"]]
        line = impl[k] if k < len(impl) else ""
        counts["discovery:" + r.get("r", "?") + (":fields" if r.get("fields") else "")] += 1
        if r.get("r") == "panic":
            creport("C12:consumer-panic:discovery", f"discovery Module.Search panicked: {r.get('panic','')[:80]}", k)
            continue
        if r.get("r") != "ok":
            continue
        c, _, rt = load_case(k)
        pdx = c["def"]
        cr = {x["name"]: x for x in c["creds"]}
        mm = re.match(r"match ok vcs=\[(.*?)\] map=\[(.*)\]$", line)
        if not mm:
            if r.get("fields"):
                creport("C12:discovery:fields-although-match-fails", f"Search reports fields {r['fields']} although Match says {line[:50]}", k)
            continue
        if len({d["id"] for d in pdx["descs"]}) != len(pdx["descs"]) or not r.get("fields"):
            continue
        names = [x for x in mm.group(1).split(",") if x]
        ids = [x.split(":", 1)[0] for x in mm.group(2).split(",") if x]
        cm = {i: cr[nm] for i, nm in zip(ids, names) if nm in cr}
        try:
            for fk, fv in r["fields"].items():
                okv = False
                for d in pdx["descs"]:
                    if d["id"] in cm:
                        for f in d.get("fields", []):
                            if f.get("id") == fk and field_value_ok(f, cm[d["id"]]["tree"], rt, json.dumps(fv, sort_keys=True, separators=(",", ":"))):
                                okv = True
                if not okv:
                    creport("C12:discovery:search-field-not-faithful",
                            f"Search reports {fk}={json.dumps(fv)[:60]}, which is not a value of the credential mapped to that field's descriptor", k)
            counts["discovery:fields-checked"] += 1
        except Undecided:
            counts["oracle-undecided"] += 1

    # producers of a PresentationDefinition that do not go through ParsePresentationDefinition: can null entries reach Match?
    producer_lines = []
    for pkg, files, name, test, outfile in ((POLICY_PKG, POLICY_HARNESS, "c12policy", "TestVerifC12Policy", "producers.policy.out"),
                                            (IAMC_PKG, IAMC_HARNESS, "c12iamclient", "TestVerifC12IamClient", "producers.iamclient.out"),
                                            (DISC_PKG, DISC_HARNESS, "c12disc", "TestVerifC12DiscoveryProducers", "producers.discovery.out")):
        b = ctx.go_test_binary(pkg, files, name + "p")
        if b is None:
            ctx.oblige("harness-builds:" + name + ":producers", False, ctx.harness_error[-800:])
            continue
        rc3, log3, _ = ctx.run_harness(b, test, {}, outdir=out, timeout=600, cwd=os.path.join(vlib.REPO, pkg))
        ctx.oblige("harness-runs:" + name + ":producers", rc3 == 0, log3[-800:])
        if rc3 == 0:
            producer_lines += [l for l in ctx.read_lines(os.path.join(out, outfile)) if l]
    for pl in producer_lines:
        counts["producer:" + pl.split(" -> ")[-1]] += 1
        if "Match-panics" in pl:
            sig = "C12:panic:nil-entry-in-definition"
            if sig not in seen_sig:
                seen_sig[sig] = ctx.violation(sig, "a producer that bypasses schema validation hands Match a definition with a nil entry and Match panics: " + pl,
                                              "panic-nil-entry-in-definition.producer.txt", "\n".join(producer_lines) + "\n")
            if seen_sig[sig]:
                oracle_bad += 1
    ctx.cov["producers"] = producer_lines

    # the harness's regexp2 contract table (compiled by the harness itself with regexp2.ECMAScript) agrees with the
    # library-free ECMA-262 evaluation on the anchored-class subset
    ctx.oblige("regexp2-table-is-ecma262-on-anchored-subset", not ECMA_TABLE_DISAGREE,
               f"{len(ECMA_TABLE_DISAGREE)} table entries differ, first: {ECMA_TABLE_DISAGREE[:2]}")
    counts["ecma-subset-table-disagreements"] = len(ECMA_TABLE_DISAGREE)
    ctx.oblige("oracle:reference-matcher(impl)", oracle_bad == 0, f"{oracle_bad} disagreements with the reference matcher / panics")

    # ---- correspondence model vs implementation
    if bad:
        i = bad[0]
        detail = f"first differing line {i}\nimpl : {impl[i][:1500] if i < len(impl) else None}\nmodel: {model[i][:1500] if i < len(model) else None}"
        ctx.oblige("correspondence:model=impl", False, f"{len(bad)} of {len(impl)} lines differ; " + detail[:600])
        if oracle_bad == 0:
            k = i
            while k >= 0 and json.loads(ops_raw[k]).get("op") not in ("case", "reject"):
                k -= 1
            with open(os.path.join(ctx.replay_dir(), "correspondence.jsonl"), "w") as f:
                f.write(ops_raw[k] + "\n" + (ops_raw[i] + "\n" if k != i else ""))
            ctx.unproved(["correspondence C12 (model.out != impl.out)"], detail + f"\nreplay ops: {ctx.replay_dir()}/correspondence.jsonl")
    else:
        ctx.oblige("correspondence:model=impl", True, f"{len(impl)} lines equal")

    ctx.cov["consumer_leg_evaluations"] = sum(v for k_, v in counts.items() if k_.split(":")[0] in ("iam", "holder", "discovery") and k_.count(":") == 1)
    ctx.cov["evaluations"] = len(impl)
    ctx.cov["distinct_nontrivial"] = len(distinct)
    ctx.cov["traces_validated_against_impl"] = len(impl) - len(bad)
    ctx.cov["rule"] = ("schema-directed presentation definitions (1-3 descriptors aimed at generated credentials; filters type/const/enum/pattern, "
                       "optional, formats, groups, submission requirements all/pick with count/min/max/none and nesting) x wallets of 0-5 JSON-LD/JWT/holder "
                       "credentials; every op runs on the real vcr/pe and on the Lean model; the reference matcher judges the implementation's own output. "
                       "distinct_nontrivial = distinct (definition, wallet) pairs whose match selected at least one credential")
    ctx.cov["input_distribution"] = {"generator": stats, "oracle": dict(counts)}
    ctx.cov["samples"] = [l[:200] for l in impl if l.startswith("match ok vcs=[c")][:3]
