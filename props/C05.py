"""C05 — one-time secrets are honoured at most once under every interleaving of session-store operations.
Lean: NutsProofs.Props.C05 over NutsModel.C05.OneTime (+ Today.lean: the model instantiated with regenerated facts).
Correspondence: gating store under the REAL SessionStoreImpl / in-memory + redis session databases, every interleaving of
2 (quick) / 3 (thorough) consumers at underlying-store-call granularity; model and implementation agree schedule by schedule."""
import json, os, re
from collections import Counter


def vlib_repo():
    import vlib
    return vlib.REPO

PKG = "storage"
HARNESS = ["storage/zz_verif_c05_test.go", "storage/zz_verif_c05_export.go"]
IAM_PKG = "auth/api/iam"
IAM_HARNESS = ["auth/api/iam/zz_verif_c05_test.go", "auth/api/iam/zz_verif_c05b_test.go", "storage/zz_verif_c05_export.go"]
VCI_PKG = "vcr/issuer"
VCI_HARNESS = ["vcr/issuer/zz_verif_c05_test.go", "vcr/issuer/zz_verif_c05b_test.go", "storage/zz_verif_c05_export.go"]
HARNESSES = [(PKG, HARNESS, "c05"), (IAM_PKG, IAM_HARNESS, "c05iam"), (VCI_PKG, VCI_HARNESS, "c05vci")]

BURN = {"code", "reqobj", "vpnonce", "redirect", "preauth"}
TTL_FACT = {"code": "ttl_oauthCodeStore", "reqobj": "ttl_authzRequestObjectStore", "vpnonce": "ttl_oauthNonceStore",
            "redirect": "ttl_userRedirectStore", "preauth": "vciTokenTTL", "s2s": "ttl_s2sNonceStore", "jti": "ttl_useNonceOnceStore"}

REQUIRED = ["at_most_once_atomic", "at_most_one_success_atomic", "at_most_one_success_today",
            "mark_successes_separated", "mark_at_most_once_within_ttl", "mark_at_most_once_within_ttl_today",
            "dead_never_honoured", "dead_after_ttl", "code_dead_after_failed_attempt",
            "two_success_witness", "two_success_witness_mark", "at_most_once_fails_without_atomicity",
            "at_most_once_partial", "mark_separated_partial",
            "store_fault_fails_closed", "nonce_covers_window", "replay_window_empty_today", "s2s_no_replay_inside_window", "program_matches_api_calls",
            "fact_consumer_calls", "fact_store_keys", "fact_call_sites", "fact_engine_wiring", "fact_requests_are_self_contained", "fact_keyspace_disjoint", "keyspace_disjoint", "keyspace_disjoint_redis", "fact_key_construction", "put_total_on_keys", "fact_store_users", "fact_prefixes_distinct", "fact_gad_atomic_today",
            "fact_mark_atomic_today", "fact_session_store_shapes", "fact_ttls_positive", "two_success_witness_multinode",
            # request-level layer (Props/C05Forms.lean)
            "fact_form_sources", "fact_form_tables", "code_dead_after_any_attempt", "vp_nonce_dead_after_any_response", "refused_grant_touches_nothing",
            "handleCode_refines_thread", "token_endpoint_at_most_once_all_schedules",
            "s2s_envelope_accepted_only_if_all_fresh", "s2s_nonce_no_replay_within_ttl", "vp_nonce_accepted_only_if_common",
            "request_object_dead_after_any_fetch", "landing_token_dead_after_use", "dpop_refusal_registers_nothing", "dpop_jti_replay_refused", "dpop_jti_no_replay_within_ttl",
            # OpenID4VCI request level + landing-page refinement (Props/C05Vci.lean)
            "fact_vci_sources", "fact_vci_tables", "preauth_code_dead_after_any_attempt", "preauth_honoured_at_most_once_in_any_history",
            "preauth_honoured_only_if_live_and_own", "preauth_dead_code_issues_nothing", "handleLanding_refines_thread", "landing_page_at_most_once_all_schedules",
            # round 3: the remaining iam burn handlers as threads (Props/C05Ref.lean)
            "validateNonce_refines_threads", "vp_response_at_most_once_all_schedules", "handleReqObj_refines_thread", "request_object_at_most_once_all_schedules",
            "every_endpoint_refines_its_threads", "any_endpoints_at_most_once_all_schedules",
            "handlePreAuth_refines_thread", "preauth_at_most_once_all_schedules", "dead_after_burn_all_in_every_schedule",
            "honoured_request_means_every_thread_honoured", "fact_call_column_prefixes"]


def oracle(op, line, facts):
    """direct property oracle on one implementation run. Returns list of (signature, what)."""
    bad = []
    m = re.match(r"succ=(\d+) out=(\S*) store=\[(.*?)\] trace=(.*)$", line)
    if not m:
        return [("C05:unparsable-output", line[:200])]
    outs = m.group(2).split(",") if m.group(2) else []
    threads, sched = op["threads"], op["sched"]
    ttl = lambda k: (op.get("ttl") or {}).get(k, facts.get(TTL_FACT[k], 0))
    # time and position of first / last step of every thread
    now, first, last, tfirst, tlast = 0, {}, {}, {}, {}
    for pos, s in enumerate(sched):
        if s < 0:
            now += -s
            continue
        first.setdefault(s, pos); tfirst.setdefault(s, now)
        last[s] = pos; tlast[s] = now
    where = f"{op.get('level')}:{op.get('backend')}" + (":strict-delete" if op.get("strict") else "")
    short = lambda x: x if len(x) <= 24 else f"{x[:8]}…{x[-4:]} ({len(x)} chars)"
    witness_replayed = None
    for i, a in enumerate(threads):
        for j, b in enumerate(threads):
            if i >= j or a["kind"] != b["kind"] or a["id"] != b["id"] or i >= len(outs) or j >= len(outs):
                continue
            k = a["kind"]
            both = outs[i] == "ok" and outs[j] == "ok"
            if k in BURN:
                if both:
                    bad.append((f"C05:{k}:{where}:two-requests-honoured", f"threads {i} and {j} both succeeded with secret {short(a['id'])}"))
            elif both and abs(tlast.get(i, 0) - tlast.get(j, 0)) < ttl(k):
                bad.append((f"C05:{k}:{where}:two-requests-honoured", f"threads {i} and {j} both accepted {short(a['id'])} within the nonce TTL"))
    # store faults fail closed: a request whose own store call failed is never honoured
    for i, a in enumerate(threads):
        if a.get("fail") and i < len(outs) and outs[i] == "ok":
            bad.append((f"C05:{a['kind']}:{where}:honoured-despite-store-failure", f"thread {i} was honoured although its underlying {a['fail']} failed"))
    for i, a in enumerate(threads):
        if a["kind"] not in BURN or i >= len(outs) or outs[i] != "ok":
            continue
        # dead after any finished attempt on the same secret (authorization code: also failed attempts), dead after the TTL
        for j, b in enumerate(threads):
            if j != i and b["kind"] == a["kind"] and b["id"] == a["id"] and j in last and i in first and last[j] < first[i] \
                    and j < len(outs) and not outs[j].startswith("stuck") and b.get("fail") != "del" and (a["kind"] == "code" or outs[j] in ("ok", "mismatch", "post-check") or (a["kind"] == "vpnonce" and outs[j] == "missing-param")):
                # vpnonce: a burn-all response (missing-param) is an attempt too (dead_after_burn_all_in_every_schedule)
                bad.append((f"C05:{a['kind']}:{where}:honoured-after-earlier-attempt", f"thread {i} succeeded after thread {j} ({outs[j]}) had finished"))
        if (op.get("ttl") or {}).get(a["kind"], facts.get(TTL_FACT[a["kind"]])) is not None and tfirst.get(i, 0) > ttl(a["kind"]):
            bad.append((f"C05:{a['kind']}:{where}:honoured-after-ttl", f"thread {i} succeeded at t={tfirst[i]} > ttl {ttl(a['kind'])}"))
    return bad


def _pres_nonce(p):
    """the nonce validatePresentationNonce works with for one presentation (challenge, else nonce)"""
    if p.get("fmt") == "jwt":
        return p.get("jwt", "")
    if p.get("fmt") == "ld":
        if p.get("lderr"):
            return ""
        return p.get("challenge", "") or p.get("nonce", "")
    return ""


def forms_oracle(op, line, facts):
    """direct oracle on a sequence of requests served one after the other by the real endpoints (op "forms")"""
    bad = []
    m = re.match(r"forms ans=(.*) live=\[(.*?)\](?: calls=\[(.*)\])?$", line)
    if not m:
        return [("C05:forms:unparsable-output", line[:200])]
    ans = m.group(1).split(";")
    reqs = op["reqs"]
    if len(ans) != len(reqs):
        return [("C05:forms:unparsable-output", line[:200])]
    where = "iam:" + op.get("backend", "?")
    issued = {(i["kind"], i["id"]) for i in op.get("init", [])}
    now, t = 0, []
    for r in reqs:
        now += r.get("dt", 0)
        t.append(now)
    live = set(filter(None, m.group(2).split(",")))
    calls = [c.split(",") if c else [] for c in m.group(3).split(";")] if m.group(3) is not None else None
    if calls is not None and len(calls) != len(reqs):
        return [("C05:forms:unparsable-output", line[:200])]

    def consumed(j, key, second):
        """request j read `key` and then wrote it off (del for burn-on-use, set for mark-as-used) in its own store calls"""
        cs = calls[j]
        return ("get:" + key) in cs and (second + ":" + key) in cs[cs.index("get:" + key) + 1:]
    for j, (r, a) in enumerate(zip(reqs, ans)):
        if calls is not None:
            # an attempt with an authorization code issues the burn of that code, whatever the answer
            if r["t"] == "token" and r.get("grant") == "authorization_code" and "code" in r and ("del:code/" + r["code"]) not in calls[j]:
                bad.append((f"C05:code:{where}:form-attempt-without-burn", f"request {j} presented code {r['code']!r} (answer {a}); its store calls {calls[j]} contain no Delete of the code"))
            # an honoured request consumed its secret itself: Get then Delete (burn-on-use) / Get then Set (mark-as-used) of the key it named
            if a == "200":
                need = []
                if r["t"] == "token" and r.get("grant") == "authorization_code" and "code" in r:
                    need = [("code/" + r["code"], "del")]
                elif r["t"] == "reqobj":
                    need = [("reqobj/" + r.get("id", ""), "del")]
                elif r["t"] == "landing":
                    need = [("redirect/" + r.get("token", ""), "del")]
                elif r["t"] == "dpop":
                    need = [("jti/" + r.get("jti", ""), "set")]
                elif r["t"] == "response":
                    need = [("vpnonce/" + n, "del") for n in sorted({_pres_nonce(p) for p in r.get("vp") or []} - {""})]
                elif r["t"] == "token" and r.get("grant") == "vp_token-bearer":
                    need = [("s2s/" + n, "set") for n in (r.get("assertion") or [])]
                for key, second in need:
                    if not consumed(j, key, second):
                        bad.append((f"C05:{key.split('/')[0]}:{where}:form-honoured-without-consuming", f"request {j} was honoured; its store calls {calls[j]} do not read and then {second} {key!r}"))
        code_req = r["t"] == "token" and r.get("grant") == "authorization_code" and "code" in r
        # every authorization code the token endpoint was shown is gone at the end, whatever the answer was
        if code_req and ("code/" + r["code"]) in live:
            bad.append((f"C05:code:{where}:form-code-alive-after-attempt", f"request {j} presented code {r['code']!r} (answer {a}); the code is still stored at the end"))
        # "burn them all": every nonce a response named is gone at the end, once the response reached the nonce check
        if r["t"] == "response" and "state" in r and not r.get("unknownState") and not r.get("wrongTenant") and r.get("vp"):
            for n in sorted({_pres_nonce(p) for p in r["vp"]} - {""}):
                if ("vpnonce/" + n) in live:
                    bad.append((f"C05:vpnonce:{where}:form-nonce-alive-after-attempt", f"request {j} named nonce {n!r} (answer {a}); the nonce is still stored at the end"))
        # a request object / landing token named by a request is gone at the end
        if r["t"] == "reqobj" and ("reqobj/" + r.get("id", "")) in live:
            bad.append((f"C05:reqobj:{where}:form-object-alive-after-fetch", f"request {j} fetched request object {r.get('id', '')!r} (answer {a}); it is still stored at the end"))
        if r["t"] == "landing" and r.get("token") and ("redirect/" + r["token"]) in live:
            bad.append((f"C05:redirect:{where}:form-token-alive-after-use", f"request {j} presented landing token {r['token']!r} (answer {a}); it is still stored at the end"))
        if a != "200":
            continue
        if r["t"] in ("reqobj", "landing"):
            kind, sid = ("reqobj", r.get("id", "")) if r["t"] == "reqobj" else ("redirect", r.get("token", ""))
            if (kind, sid) not in issued:
                bad.append((f"C05:{kind}:{where}:form-honoured-never-issued", f"request {j}: {kind} {sid!r} was never issued"))
            if t[j] > facts.get(TTL_FACT[kind], 10**9):
                bad.append((f"C05:{kind}:{where}:form-honoured-after-ttl", f"request {j}: {kind} {sid!r} honoured at t={t[j]}"))
            for i in range(j):
                q = reqs[i]
                if q["t"] == r["t"] and (q.get("id", "") if kind == "reqobj" else q.get("token", "")) == sid:
                    bad.append((f"C05:{kind}:{where}:form-honoured-after-earlier-attempt",
                                f"request {j} was honoured with {kind} {sid!r} after request {i} (answer {ans[i]}) had presented it"))
            continue
        if r["t"] == "dpop":
            ttl = facts.get(TTL_FACT["jti"], 0)
            if r.get("badParse") or r.get("badMatch") or r.get("noAth") or r.get("badAth"):
                bad.append((f"C05:jti:{where}:form-invalid-proof-accepted", f"request {j}: {r}"))
            if ("jti", r.get("jti", "")) in issued and t[j] < ttl:
                bad.append((f"C05:jti:{where}:form-honoured-used-jti", f"request {j}: jti {r.get('jti', '')!r} was registered as used at t=0"))
            for i in range(j):
                q = reqs[i]
                if q["t"] == "dpop" and q.get("jti", "") == r.get("jti", "") and ans[i] == "200" and t[j] - t[i] < ttl:
                    bad.append((f"C05:jti:{where}:form-two-requests-honoured", f"requests {i} and {j} were both accepted with jti {r.get('jti', '')!r} within the TTL"))
            continue
        if code_req:
            c = r["code"]
            if ("code", c) not in issued:
                bad.append((f"C05:code:{where}:form-honoured-never-issued", f"request {j}: code {c!r} was never issued"))
            if t[j] > facts.get(TTL_FACT["code"], 10**9):
                bad.append((f"C05:code:{where}:form-honoured-after-ttl", f"request {j}: code {c!r} honoured at t={t[j]}"))
            for i in range(j):
                q = reqs[i]
                if q["t"] == "token" and q.get("grant") == "authorization_code" and q.get("code") == c:
                    bad.append((f"C05:code:{where}:form-honoured-after-earlier-attempt",
                                f"request {j} was honoured with code {c!r} after request {i} (answer {ans[i]}) had presented it"))
        elif r["t"] == "response":
            ns = {_pres_nonce(p) for p in r.get("vp") or []}
            if len(ns) != 1 or "" in ns:
                bad.append((f"C05:vpnonce:{where}:form-honoured-without-common-nonce", f"request {j}: presentations carry nonces {sorted(ns)}"))
                continue
            n = next(iter(ns))
            if ("vpnonce", n) not in issued:
                bad.append((f"C05:vpnonce:{where}:form-honoured-never-issued", f"request {j}: nonce {n!r} was never issued"))
            if t[j] > facts.get(TTL_FACT["vpnonce"], 10**9):
                bad.append((f"C05:vpnonce:{where}:form-honoured-after-ttl", f"request {j}: nonce {n!r} honoured at t={t[j]}"))
            for i in range(j):
                q = reqs[i]
                # an earlier response that reached the nonce check and named n (alone: consumed; among others: burn-all)
                if q["t"] == "response" and "state" in q and not q.get("unknownState") and not q.get("wrongTenant") and q.get("vp") and n in {_pres_nonce(p) for p in q["vp"]}:
                    bad.append((f"C05:vpnonce:{where}:form-honoured-after-earlier-attempt",
                                f"request {j} was honoured with nonce {n!r} after request {i} (answer {ans[i]}) had named it"))
        elif r["t"] == "token" and r.get("grant") == "vp_token-bearer":
            ns = r.get("assertion") or []
            ttl = facts.get(TTL_FACT["s2s"], 0)
            if "" in ns or len(set(ns)) != len(ns):
                bad.append((f"C05:s2s:{where}:form-honoured-with-missing-or-repeated-nonce", f"request {j}: nonces {ns}"))
            for n in ns:
                if ("s2s", n) in issued and t[j] < ttl:
                    bad.append((f"C05:s2s:{where}:form-honoured-used-nonce", f"request {j}: nonce {n!r} was registered as used at t=0"))
                for i in range(j):
                    q = reqs[i]
                    # an earlier envelope whose loop reached n (every nonce before n in it was fresh is not needed: accepted envelopes registered all)
                    if q["t"] == "token" and q.get("grant") == "vp_token-bearer" and ans[i] == "200" and n in (q.get("assertion") or []) and t[j] - t[i] < ttl:
                        bad.append((f"C05:s2s:{where}:form-two-requests-honoured", f"requests {i} and {j} were both honoured with nonce {n!r} within the nonce TTL"))
    return bad


def vforms_oracle(op, line, facts):
    """direct oracle on a sequence of issuing calls / token requests served by the real OpenID4VCI issuer (op "vforms")"""
    bad = []
    m = re.match(r"vforms ans=(.*) live=\[(.*)\] at=\[(.*)\] cn=\[(.*?)\](?: calls=\[(.*)\])?$", line)
    reqs = op["reqs"]
    if not m or len(m.group(1).split(";")) != len(reqs):
        return [("C05:vforms:unparsable-output", line[:200])]
    ans = m.group(1).split(";")
    where = "vci:" + op.get("backend", "?")
    ttl = facts.get("vciTokenTTL", 10**9)   # absent fact (extractor could not read a mutated source): the after-ttl oracle cannot be evaluated
    live = set(filter(None, m.group(2).split(",")))
    calls = [x.split(",") if x else [] for x in m.group(5).split(";")] if m.group(5) is not None else None
    if calls is not None and len(calls) != len(reqs):
        return [("C05:vforms:unparsable-output", line[:200])]
    now, t = 0, []
    for r in reqs:
        now += r.get("dt", 0) if op.get("backend") == "redis" else 0
        t.append(now)
    flow_iss, flow_t = {}, {}      # flow id -> issuer / time of the successful Store
    issued = {}                    # code -> (index, time, flow) of the last successful StoreReference
    attempts = {}                  # code -> indices of token requests since that issuance
    honoured_flows = []
    for j, (r, a) in enumerate(zip(reqs, ans)):
        if r["t"] == "flow":
            if a == "ok":
                flow_iss[r.get("id", "")], flow_t[r.get("id", "")] = r.get("issuer"), t[j]
            continue
        if r["t"] == "ref":
            if a == "ok":
                issued[r["code"]] = (j, t[j], r.get("flow", ""))
                attempts[r["code"]] = []
            continue
        c = r["code"]
        if calls is not None:
            cs = calls[j]
            # an honoured request consumed the code itself (Get, then Delete); a second look-up is not a violation by itself: the
            # call-sequence correspondence reports it
            if a.startswith("200:") and not (("get:preauth/" + c) in cs and ("del:preauth/" + c) in cs[cs.index("get:preauth/" + c) + 1:]):
                bad.append((f"C05:preauth:{where}:vform-honoured-without-consuming", f"request {j} was honoured; its store calls {cs} do not read and then delete code {c!r}"))
        if a.startswith("200:"):
            fl = a[4:]
            honoured_flows.append(fl)
            if c not in issued:
                bad.append((f"C05:preauth:{where}:vform-honoured-never-issued", f"request {j}: pre-authorized code {c!r} was never issued"))
            else:
                i0, t0, f0 = issued[c]
                if fl != f0:
                    bad.append((f"C05:preauth:{where}:vform-honoured-wrong-flow", f"request {j}: code {c!r} was issued for flow {f0!r}, the tokens refer to {fl!r}"))
                if t[j] - t0 > ttl:
                    bad.append((f"C05:preauth:{where}:vform-honoured-after-ttl", f"request {j}: code {c!r} issued at t={t0} honoured at t={t[j]}"))
                for i in attempts.get(c, []):
                    sig = "vform-two-requests-honoured" if ans[i].startswith("200:") else "vform-honoured-after-earlier-attempt"
                    bad.append((f"C05:preauth:{where}:{sig}", f"request {j} was honoured with pre-authorized code {c!r} after request {i} (answer {ans[i]}) had presented it"))
            if fl in flow_iss and flow_iss[fl] != r.get("at"):
                bad.append((f"C05:preauth:{where}:vform-honoured-at-other-issuer", f"request {j}: flow {fl!r} belongs to {flow_iss[fl]!r}, honoured at {r.get('at')!r}"))
        attempts.setdefault(c, []).append(j)
    # a code that was presented after its (last) issuance is gone at the end, whatever the answers were
    for c, idx in attempts.items():
        if idx and any(x.startswith("code/" + c + "=") for x in live):
            bad.append((f"C05:preauth:{where}:vform-code-alive-after-attempt", f"requests {idx} presented pre-authorized code {c!r} (answers {[ans[i] for i in idx]}); it is still stored at the end"))
    # tokens are issued by honoured requests only, one access token and one c_nonce each
    for name, grp in (("access-token", m.group(3)), ("c_nonce", m.group(4))):
        have = Counter(filter(None, grp.split(",")))
        may = Counter(honoured_flows)
        if any(have[f] > may[f] for f in have):
            bad.append((f"C05:preauth:{where}:vform-token-without-honoured-request", f"{name} references at the end {dict(have)}, honoured requests per flow {dict(may)}"))
    return bad


def run(ctx):
    facts = ctx.facts() or {}
    thms = ctx.build_and_audit(["NutsProofs.Props.C05", "NutsProofs.Props.C05Forms", "NutsProofs.Props.C05Vci", "NutsProofs.Props.C05Ref"])
    for r in REQUIRED:
        if not any(t.endswith("Props." + r) for t in thms):
            ctx.oblige("thm-present:" + r, False, "theorem missing or its module does not build")
    ctx.trusted += [
        "modelled, not verified: go-cache / Redis (miniredis) / memcached Get, Set, Delete are each atomic; gocache lib passes calls through; JSON (un)marshalling of session values",
        "the gating store wrapper and controlled scheduler of the harness (one goroutine runs at a time; blocked-on-mutex detected from goroutine dumps)",
        "memcached's 'Delete of a missing key is an error' is emulated in the gate (strict) — no memcached server in the sandbox",
        "model scope: storage/session.go (Get/Put/Delete/GetAndDelete), session_inmemory.go, session_redis.go key construction; the store-call sequence of the six consumers in auth/api/iam",
    ]
    ctx.assumptions += [
        "single node: atomicity obtained from an in-process mutex does not extend to several nodes sharing one Redis/memcached (open known finding, exhibited on every run with a multi-node miniredis scenario)",
        "secrets are issued under fresh random keys (no Put of an existing burn-on-use key): regenerated fact fact_store_users pins the issuing functions",
    ]
    # corpus = the Lean witness schedules (printed by the driver from the defs the theorems are about) + past witnesses
    import shutil, subprocess, glob
    import vlib
    corpus = os.path.join(ctx.scratch, "corpus")
    os.makedirs(corpus, exist_ok=True)
    try:
        wl = subprocess.run([os.path.join(vlib.BIN, "nm_C05"), "witnesses"], stdout=subprocess.PIPE, text=True, timeout=60).stdout
    except Exception as e:  # noqa
        wl = ""
    ctx.oblige("lean-witness-schedules-exported", wl.count("\n") >= 6, f"{wl.count(chr(10))} lines")
    with open(os.path.join(corpus, "00_lean_witnesses.jsonl"), "w") as f:
        f.write(wl)
    for fn in glob.glob(os.path.join(os.path.dirname(os.path.dirname(os.path.abspath(__file__))), "harness", "corpus", "C05", "*.jsonl")):
        shutil.copy(fn, corpus)
    ops, impl, model, bad = [], [], [], []
    for pkg, files, name, cwd in ((PKG, HARNESS, "c05", None), (IAM_PKG, IAM_HARNESS, "c05iam", os.path.join(vlib_repo(), IAM_PKG)),
                                  (VCI_PKG, VCI_HARNESS, "c05vci", os.path.join(vlib_repo(), VCI_PKG))):
        binary = ctx.go_test_binary(pkg, files, name)
        if binary is None:
            ctx.oblige("harness-builds:" + name, False, ctx.harness_error[-1500:])
            continue
        ctx.oblige("harness-builds:" + name, True)
        env = {"VERIF_C05_VALIDITY": facts.get("s2sMaxPresentationValidity", 5), "VERIF_C05_SKEW": facts.get("verifierMaxSkew", 5)}
        if ctx.replay:
            env["VERIF_REPLAY"] = os.path.abspath(ctx.replay)
        else:
            env["VERIF_CORPUS"] = corpus
            env["VERIF_MAXRUNS"] = 3500 if ctx.thorough else 3000
        out = os.path.join(ctx.scratch, "out-" + name)
        rc, log, out = ctx.run_harness(binary, "TestVerifC05", env, outdir=out, timeout=3000, cwd=cwd)
        if rc != 0:
            ctx.oblige("harness-runs:" + name, False, log[-1500:])
            continue
        ctx.oblige("harness-runs:" + name, True)
        ops_p, impl_p, model_p = (os.path.join(out, x) for x in ("ops.jsonl", "impl.out", "model.out"))
        try:
            ok, err = ctx.model("C05", ops_p, model_p)
        except Exception as e:  # noqa  (model binary missing because the Lean build broke: the oracles below still run on the implementation's outputs)
            ok, err = False, repr(e)
            open(model_p, "w").close()
        ctx.oblige("model-driver-runs:" + name, ok, err[-500:])
        i1, m1, b1 = ctx.compare(impl_p, model_p)
        o1 = ctx.read_lines(ops_p)
        if o1 and o1[-1] == "":
            o1.pop()
        n = max(len(i1), len(m1), len(o1))
        base = len(impl)
        ops += o1 + [""] * (n - len(o1))
        impl += i1 + [None] * (n - len(i1))
        model += m1 + [None] * (n - len(m1))
        bad += [base + k for k in b1]

    # ---- direct property oracle on the implementation's own outputs
    n_bad, seen, n_window, n_cross, n_forms, n_vforms = 0, set(), 0, 0, 0, 0
    form_answers, form_kinds = Counter(), Counter()
    lw = Counter()
    kinds, sizes, backends, succ_hist = Counter(), Counter(), Counter(), Counter()
    distinct = set()
    interleaved = 0
    for i, line in enumerate(impl):
        if i >= len(ops) or not ops[i] or line is None:
            continue
        op = json.loads(ops[i])
        if op.get("op") == "window":
            # replay strictly inside the acceptance window of the presentation, yet the nonce check passes a second time
            n_window += 1
            win = op["validity"] + 2 * op["skew"]
            if ("accept1=true accept2=true" in line and "nonce1=ok nonce2=ok" in line and "maxvalidity=ok" in line
                    and op["replay"] - op["first"] < win):
                n_bad += 1
                sig = "C05:s2s:iam:redis:nonce-forgotten-inside-acceptance-window"
                if sig not in seen:
                    seen.add(sig)
                    ctx.violation(sig, f"a JSON-LD presentation (validity {op['validity']} s, skew {op['skew']} s) first used at window offset {op['first']} s is accepted "
                                  f"again at offset {op['replay']} s: still inside its acceptance window of {win} s, but the nonce is already forgotten: {line}",
                                  "s2s_nonce_window.jsonl", ops[i])
            continue
        if op.get("op") == "cross":
            n_cross += 1
            if " replay=ok" in line:
                n_bad += 1
                sig = f"C05:{op['kind']}:iam:mem:honoured-after-hostile-response"
                if sig not in seen:
                    seen.add(sig)
                    ctx.violation(sig, f"the {op['kind']} secret was honoured a second time after hostile requests (authorization responses, token requests, request-object "
                                  f"fetches, landing page) had named every '/'-tail of and '../'-path to every session-store key: {line}", re.sub(r"[^A-Za-z0-9_.-]", "_", sig) + ".jsonl", ops[i])
            continue
        if op.get("op") == "vforms":
            n_vforms += 1
            for a in line.split(" live=")[0][len("vforms ans="):].split(";"):
                form_answers["vci:" + (a.split("|")[-1][:40] if not a.startswith("200") else "200")] += 1
            for r in op["reqs"]:
                form_kinds["vci:" + r["t"]] += 1
            for sig, what in vforms_oracle(op, line, facts):
                n_bad += 1
                if sig in seen:
                    continue
                seen.add(sig)
                ctx.violation(sig, f"{what}; sequence {op['scn']}: {line[:300]}", re.sub(r"[^A-Za-z0-9_.-]", "_", sig) + ".jsonl", ops[i])
            continue
        if op.get("op") == "forms":
            n_forms += 1
            for a in line.split(" live=")[0][len("forms ans="):].split(";"):
                form_answers[a.split("|")[-1][:40]] += 1
            for r in op["reqs"]:
                form_kinds[r["t"] + (":" + r.get("grant", "") if r["t"] == "token" else ":" + str(len(r.get("vp") or [])) + "vp" if r["t"] == "response" else "")] += 1
            for sig, what in forms_oracle(op, line, facts):
                n_bad += 1
                if sig in seen:
                    continue
                seen.add(sig)
                ctx.violation(sig, f"{what}; sequence {op['scn']}: {line[:300]}", re.sub(r"[^A-Za-z0-9_.-]", "_", sig) + ".jsonl", ops[i])
            continue
        if op.get("op") != "run":
            continue
        ths = op["threads"]
        if op["scn"].startswith("lean-witness"):
            nsucc = line.split(" ", 1)[0]
            if op["backend"] == "redis-multinode" and nsucc == "succ=2":
                lw["multi2"] += 1
            elif op["backend"] != "redis-multinode" and nsucc == "succ=1":
                lw["single1"] += 1
            else:
                lw["other"] += 1
        kinds[op.get("level", "?") + ":" + "+".join(sorted({t["kind"] for t in ths}))] += 1
        sizes[len(ths)] += 1
        backends[op["backend"] + ("/strict" if op.get("strict") else "")] += 1
        succ_hist[line.split(" ", 1)[0]] += 1
        steps = [s for s in op["sched"] if s >= 0]
        if any(steps[k] != steps[k + 1] and steps[k] in steps[k + 1:] for k in range(len(steps) - 1)):
            interleaved += 1
        distinct.add((op["scn"], json.dumps(ths, sort_keys=True), op["backend"], op.get("strict"), tuple(op["sched"])))
        for sig, what in oracle(op, line, facts):
            n_bad += 1
            if sig in seen:
                continue
            seen.add(sig)
            ctx.violation(sig, f"{what}; schedule {op['sched']} of scenario {op['scn']}: {line[:300]}",
                          re.sub(r"[^A-Za-z0-9_.-]", "_", sig) + ".jsonl", ops[i])
    unexpected = [x for x in seen if not any(k.get("status", "open") == "open" and re.fullmatch(k["signature"], x) for k in ctx.known)]
    ctx.oblige("oracle:at-most-once+dead-after-attempt+dead-after-ttl(impl)", not unexpected,
               f"{n_bad} runs violate the property; signatures {sorted(seen)}; not a known finding: {sorted(unexpected)}")
    # the Lean witness schedules were replayed: two successes where the lock does not reach (several nodes), one on a single node
    if not ctx.replay:
        ctx.oblige("lean-witnesses-replayed-on-impl", lw["multi2"] >= 3 and lw["single1"] >= 6 and lw["other"] == 0,
                   f"multinode runs with 2 successes: {lw['multi2']}, single-node runs with 1 success: {lw['single1']}, unexpected: {lw['other']}")

    # ---- correspondence model vs implementation, schedule by schedule
    if bad:
        i = bad[0]
        detail = f"first differing line {i}\nop   : {ops[i][:600] if i < len(ops) else None}\nimpl : {impl[i][:900] if i < len(impl) else None}\nmodel: {model[i][:900] if i < len(model) else None}"
        ctx.oblige("correspondence:model=impl", False, f"{len(bad)} of {len(impl)} lines differ; " + detail[:700])
        if n_bad == 0:
            with open(os.path.join(ctx.replay_dir(), "correspondence.jsonl"), "w") as f:
                f.write(ops[i] + "\n")
            ctx.unproved(["correspondence C05 (model.out != impl.out)"], detail + f"\nreplay ops: {ctx.replay_dir()}/correspondence.jsonl")
    else:
        ctx.oblige("correspondence:model=impl", True, f"{len(impl)} lines equal")

    ctx.cov["evaluations"] = sum(sizes.values()) + sum(form_kinds.values())
    ctx.cov["distinct_nontrivial"] = interleaved
    ctx.cov["traces_validated_against_impl"] = len(impl) - len(bad)
    ctx.cov["rule"] = ("every maximal schedule (depth-first, re-executed from scratch) of 2 (quick: + one 3-thread scenario; thorough: all 3-thread "
                       "scenarios) consumers presenting the same secret, for each consumer kind and each pair of request variants (honest, wrong "
                       "client/state, missing parameter, failing PKCE/method), secret present / absent / already used, back-ends go-cache, go-cache with "
                       "strict Delete (memcached emulation), redis (miniredis); plus sequential replays around the TTL with clock control (miniredis). "
                       "One step = one underlying Get/Set/Delete of the real store. distinct_nontrivial = runs whose schedule really interleaves two threads")
    ctx.cov["window_probes"] = n_window
    ctx.cov["hostile_response_probes"] = n_cross
    ctx.cov["request_sequences"] = n_forms
    ctx.oblige("forms-leg-ran", bool(ctx.replay) or n_forms >= 100, f"{n_forms} request sequences")
    ctx.cov["vci_request_sequences"] = n_vforms
    ctx.oblige("vforms-leg-ran", bool(ctx.replay) or n_vforms >= 100, f"{n_vforms} OpenID4VCI call sequences")
    ctx.cov["input_distribution"] = {"threads_per_run": dict(sorted(sizes.items())), "kinds": dict(kinds), "backends": dict(backends),
                                     "success_count_histogram": dict(succ_hist), "distinct_runs": len(distinct),
                                     "form_requests": dict(form_kinds), "form_answers": dict(form_answers)}
    ctx.cov["samples"] = [ops[0][:300] if ops else "", impl[0][:300] if impl else ""]
