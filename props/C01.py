"""C01 — credentials/presentations verify iff authentic, untampered, current, unrevoked.
Lean: NutsProofs.Props.C01 over NutsModel.C01.Verifier + regenerated facts (check sequences, maxSkew, algorithms).
Correspondence: real issuer + wallet + verifier (two nodes, shared DID history), systematic mutation of every member of the
issued documents, verdict class vs model.  Direct oracles on the implementation's own outputs:
  (a) everything the node's own issuer/wallet produced is accepted;
  (b) an accepted mutant never has different canonical bytes / proof options / JWT signing input than the original;
  (c) an accepted mutant never differs from the original in a member the node reads into a typed field (id, type, issuer,
      dates, subject id, status entries, holder, embedded credentials, proof options, JWT header/claims) nor in a
      context-defined claim; what remains — members the JSON-LD context does not define, representation-only changes,
      members go-did drops — is measured and recorded as the residue."""
import json, os, re
from collections import Counter

PKG = "vcr/verifier"
HARNESS = ["vcr/verifier/zz_verif_c01_test.go", "vcr/verifier/zz_verif_c01x_test.go", "auth/api/iam/zz_verif_c01_export.go"]
PKG2 = "vcr/test"
HARNESS2 = ["vcr/test/zz_verif_c01s_test.go"]
PKG3 = "vcr/credential"
HARNESS3 = ["vcr/credential/zz_verif_c01v_test.go"]
HARNESSES = [(PKG, HARNESS, "c01"), (PKG2, HARNESS2, "c01s"), (PKG3, HARNESS3, "c01v")]
V_OPS = ("rune-tables", "validate", "pres-dates", "filter-method", "autocorrect")
GO_SPACE = set([9, 10, 11, 12, 13, 0x20, 0x85, 0xA0, 0x1680, 0x2028, 0x2029, 0x202F, 0x205F, 0x3000] + list(range(0x2000, 0x200B)))

REQUIRED = ["check_order_irrelevant_for_accept", "valid_only_if", "key_is_from_the_issuers_document",
            "vp_valid_only_if", "vp_every_other_credential_is_signature_checked", "fact_check_signature_flag_is_per_credential", "untrust_is_effective", "untrusted_issuer_is_rejected", "fact_trust_store_code", "fact_wiring", "fact_key_lookup_relationship_is_constant", "proof_purpose_does_not_select_the_relationship", "fact_store_credential_always_verifies_the_signature", "stored_credentials_were_signature_checked", "resolve_reports_only_signature_checked", "fact_verifier_is_stateless", "fact_strict_mode_fixes_the_contexts", "fact_key_lookup_iterates_the_relationship", "fact_status_list_renewal_loads_revocations", "fact_status_list_refresh_replaces_all_columns", "api_vc_valid_only_if", "wallet_lists_only_current_unrevoked", "wallet_validate_ok", "vp_check_order_irrelevant_for_accept", "empty_presentation_holder_is_not_checked",
            "tamper_evident", "tamper_evident_jwt", "tamper_evident_vp", "undefined_member_unsigned",
            "own_output_verifies_ld", "own_output_verifies_jwt", "own_presentation_verifies",
            "fact_verify_check_sequence", "fact_doVerifyVP_check_sequence", "fact_jsonldProof_check_sequence",
            "fact_jwtSignature_check_sequence", "fact_parseJWT_check_sequence", "fact_validator_selection", "fact_issue_sequence",
            "fact_model_checks_are_the_source_checks", "fact_max_skew", "fact_supported_algs",
            # deepening round 2026-09-28 (Props/C01Subject.lean)
            "validateResources_iff", "validateResources_append", "accepted_authorization_credential_is_well_formed",
            "accepted_organization_credential_is_well_formed", "other_types_subject_is_not_validated",
            "presentation_dates_are_signed_members", "verified_presentation_dates_contain_validation_time",
            "filterOnDIDMethod_sublist", "filterOnDIDMethod_spec", "autoCorrect_leaves_signed_unchanged", "autoCorrect_only_fills_gaps",
            "autoCorrect_attributes_to_requester", "fact_valid_operation_types", "fact_subject_and_util_control_flow",
            "presentation_with_foreign_credential_is_rejected", "revocation_store_fault_is_never_valid",
            "revocation_store_fault_is_never_valid_vp", "fact_revocation_store_read_errors",
            "fact_algorithm_fits_key_table", "fact_status_list_constants",
            "issued_credential_passes_its_validator", "issuer_refuses_malformed_authorization_credential", "api_vp_valid_only_if",
            "ambObj_iff", "amb_order_irrelevant", "topVariant_iff", "caseVariantMember_false_iff",
            "entryValidOf_iff", "accepted_credential_has_well_formed_status_entries", "fact_status_entry_validate_sequence",
            # deepening round 2: statusListIndex text -> slot (strconv.Atoi inside the model)
            "indexOfText_some_iff", "negative_index_text_is_refused", "accepted_status_index_text_denotes_the_slot",
            "status_decision_reads_the_denoted_bit", "set_bit_at_denoted_slot_is_never_valid", "fact_default_validator_sequence",
            # deepening round 3: revocation lookup (leia store read -> IsRevoked -> Verify) inside the model
            "isRevoked_no_iff", "isRevoked_error_iff", "getRevocations_found_iff", "getRevocation_never_panics",
            "reported_valid_only_if_store_answered_empty", "store_read_fault_is_never_valid", "any_stored_document_blocks_validity",
            "fact_revocation_lookup_flow", "registered_revocation_is_authentic", "stored_revocations_are_authentic",
            "registered_revocation_is_permanent", "revoked_only_by_the_credential_issuer", "findIn_never_errors", "fact_register_revocation_sequence", "authentic_revocation_registers", "own_revocation_takes_effect",
            # deepening round 3: S2S token handler's presentation checks (auth/api/iam) inside the model
            "presenterIsCredentialSubject_some_iff", "validated_signer_is_subject_of_every_credential", "s2s_validity_is_bounded",
            "s2s_envelope_is_by_one_subject", "s2s_refuses_foreign_credential", "fact_s2s_presentation_checks"]

SCAN_KINDS = ("time", "flags", "trust", "revoked")
PROOF_OPTS = ("shape", "typ", "vm", "purpose", "created", "expires", "domain", "challenge", "nonce")


def strict_vc(d):
    """the members the node reads into typed fields (what it acts upon), normalised for order-insensitive sets"""
    if d is None:
        return None
    pr = d.get("proof") or {}
    jw = d.get("jwt") or {}
    return {
        "fmt": d.get("fmt"), "id": d.get("id"), "types": sorted(set(d.get("types") or [])), "issuer": d.get("issuer"),
        "issued": d.get("issued"), "expires": d.get("expires"),
        # JSON-LD: subjects with the same id are one node, listing one twice is not a member of the document (set semantics)
        "subjects": None if d.get("subjects") is None else sorted(set(d.get("subjects"))),
        # JSON-LD: the status entries are a set (order and duplicates are not members of the document)
        "statuses": None if d.get("statuses") is None else sorted({json.dumps(e, sort_keys=True) for e in d.get("statuses")}),
        "proof": {k: pr.get(k) for k in PROOF_OPTS}, "nProofs": d.get("nProofs"),
        "jwt": {k: jw.get(k) for k in ("kid", "alg", "nbf", "exp", "iat")},
    }


def claims_of(d):
    """credentialSubject leaves as JSON-LD sees them: a value and a one-element array are the same, arrays are sets"""
    if not d:
        return None
    return sorted({(re.sub(r"/\d+(?=/|$)", "", p), v) for p, v in (d.get("claims") or [])})


def malformed_proof(d):
    """members that JSON-LD reads (x == [x]) but that no longer decode into the Go types: outside the contract's domain"""
    def bad(c):
        st = c.get("statuses")
        return (c.get("proof") or {}).get("shape") == "malformed" or st is None or any(not e.get("entryValid", True) for e in st) or c.get("subjects") is None
    return bad(d) if "vcs" not in d else ((d.get("proof") or {}).get("shape") == "malformed" or any(bad(c) for c in d.get("vcs") or []))


def strict_vp(d):
    if d is None:
        return None
    pr = d.get("proof") or {}
    jw = d.get("jwt") or {}
    return {
        "fmt": d.get("fmt"), "holder": d.get("holder"), "id": d.get("id"), "types": sorted(set(d.get("types") or [])),
        "proof": {k: pr.get(k) for k in PROOF_OPTS}, "jwt": {k: jw.get(k) for k in ("kid", "alg", "nbf", "exp", "iat")},
        # the order of embedded credentials is not a member of the document (JSON-LD: a set of graphs); compared as a multiset
        "vcs": sorted((strict_vc(c) for c in d.get("vcs") or []), key=lambda x: json.dumps(x, sort_keys=True)),
    }


def first_diff(a, b, prefix=""):
    """name of the first member in which two strict views differ"""
    if isinstance(a, dict) and isinstance(b, dict):
        for k in sorted(set(a) | set(b)):
            if a.get(k) != b.get(k):
                return first_diff(a.get(k), b.get(k), prefix + "/" + k)
    if isinstance(a, (list, tuple)) and isinstance(b, (list, tuple)):
        if len(a) != len(b):
            return prefix + "#len"
        for i, (x, y) in enumerate(zip(a, b)):
            if x != y:
                return first_diff(x, y, prefix + "/" + str(i))
    return prefix or "/"


def norm_path(p):
    p = re.sub(r"/\d+(?=/|$)", "/*", p or "")
    p = re.sub(r"zz\w+", "zz", p)
    return p


def go_blank(x):
    return isinstance(x, str) and all(ord(ch) in GO_SPACE for ch in x)


def go_lower(x):
    return "".join("i" if ch == "\u0130" else "k" if ch == "\u212a" else (ch.lower() if len(ch.lower()) == 1 else ch) for ch in x)


def go_member(d, k):
    """encoding/json: exact member name first, else case-insensitive"""
    if k in d:
        return d[k]
    for kk, v in d.items():
        if kk.lower() == k.lower():
            return v
    return None


def status_defects(text):
    """what the property's reader expects of the credentialStatus of an ACCEPTED credential, recomputed from the raw document text
    (deepening round 2): every entry has an id and a type; a StatusList2021Entry needs the status-list context, an id that is not the
    list's URL, a purpose, a list URL, and an index that is a plain non-negative decimal int64 ("-0" is Go's zero)"""
    doc = json.loads(text)
    st = doc.get("credentialStatus")
    if st is None:
        return []
    entries = [st] if isinstance(st, dict) else st
    if not isinstance(entries, list):
        return ["credentialStatus-not-an-object-or-list"]
    ctxs = doc.get("@context")
    ctxs = ctxs if isinstance(ctxs, list) else [ctxs]
    out = []
    for n, e in enumerate(entries):
        w = f"entry-{n}-of-{len(entries)}-"
        if not isinstance(e, dict):
            out.append(w + "not-an-object")
            continue
        if not isinstance(e.get("id"), str) or e["id"] == "":
            out.append(w + "without-id")
        if not isinstance(e.get("type"), str) or e["type"] == "":
            out.append(w + "without-type")
        if e.get("type") != "StatusList2021Entry":
            continue
        if "https://w3id.org/vc/status-list/2021/v1" not in ctxs:
            out.append(w + "status-list-context-missing")
        if e.get("id") == e.get("statusListCredential"):
            out.append(w + "id-is-the-list-url")
        if not isinstance(e.get("statusPurpose"), str) or e["statusPurpose"] == "":
            out.append(w + "without-purpose")
        if not isinstance(e.get("statusListCredential"), str) or e["statusListCredential"] == "":
            out.append(w + "without-list-url")
        ix = e.get("statusListIndex")
        m = re.fullmatch(r"([+-]?)([0-9]+)", ix) if isinstance(ix, str) else None
        if m is None:
            out.append(w + "index-not-a-decimal-number")
        else:
            v = int(m.group(2))
            if (m.group(1) == "-" and v != 0) or v > 2 ** 63 - 1:
                out.append(w + "index-negative-or-out-of-range")
    return out


def subject_defects(text, kind, valid_ops):
    """what the property's reader expects of an ACCEPTED Nuts credential, recomputed from the raw document text"""
    doc = json.loads(text)
    cs = doc.get("credentialSubject")
    cs = [cs] if isinstance(cs, dict) else cs
    if not isinstance(cs, list) or len(cs) != 1 or not isinstance(cs[0], dict):
        return ["not-exactly-one-subject"]
    sub = cs[0]
    why = []
    sid = go_member(sub, "id")
    if not isinstance(sid, str) or go_blank(sid) or not re.match(r"^did:[a-z0-9]+:.+", sid):
        why.append("subject-id-not-a-did")
    if kind == "auth":
        pu = go_member(sub, "purposeOfUse")
        if not isinstance(pu, str) or go_blank(pu):
            why.append("purposeOfUse-blank")
        rs = go_member(sub, "resources")
        for k, r in enumerate(rs if isinstance(rs, list) else []):
            if not isinstance(r, dict):
                why.append(f"resource-{k}-not-an-object")
                continue
            pa, opl = go_member(r, "path"), go_member(r, "operations")
            if not isinstance(pa, str) or go_blank(pa):
                why.append(f"resource-{k}-of-{len(rs)}-path-blank")
            if not isinstance(opl, list) or not opl:
                why.append(f"resource-{k}-of-{len(rs)}-no-operations")
            else:
                for m, o_ in enumerate(opl):
                    if not isinstance(o_, str) or go_lower(o_) not in valid_ops:
                        why.append(f"resource-{k}-of-{len(rs)}-operation-{m}-of-{len(opl)}-not-allowed")
    elif kind == "org":
        org = sub.get("organization") if "organization" in sub else go_member(sub, "organization")
        if not isinstance(org, dict):
            why.append("organization-missing")
        else:
            for f in ("name", "city"):
                if not isinstance(org.get(f), str) or go_blank(org.get(f)):
                    why.append(f"organization-{f}-blank")
    return why


def rfc3339_ms(x):
    from datetime import datetime
    if not isinstance(x, str):
        return None
    try:
        return int(round(datetime.fromisoformat(x.replace("Z", "+00:00")).timestamp() * 1000))
    except Exception:
        return None


def run_subject_legs(ctx, facts):
    """third harness (vcr/credential, in-package): subject validators, presentation dates, DID-method filter, auto-correction"""
    import base64
    binary3 = ctx.go_test_binary(PKG3, HARNESS3, "c01v")
    if binary3 is None:
        ctx.oblige("harness3-builds", False, ctx.harness_error[-1500:])
        return
    env = {}
    if ctx.replay:
        env["VERIF_REPLAY"] = os.path.abspath(ctx.replay)
    else:
        env["VERIF_CORPUS"] = os.path.join(os.path.dirname(os.path.dirname(os.path.abspath(__file__))), "harness", "corpus", "C01v")
    rc, log, out3 = ctx.run_harness(binary3, "TestVerifC01V", env, outdir=os.path.join(ctx.scratch, "out3"), timeout=600)
    ctx.oblige("harness3-runs", rc == 0, log[-1200:])
    if rc != 0:
        return
    ops_p, impl_p, model_p = (os.path.join(out3, x) for x in ("ops.jsonl", "impl.out", "model.out"))
    ok, err = ctx.model("C01", ops_p, model_p)
    ctx.oblige("model-driver-runs(subject legs)", ok, err[-500:])
    impl, model, bad = ctx.compare(impl_p, model_p)
    raw = ctx.read_lines(ops_p)
    ops = [json.loads(l) if l else {} for l in raw[:len(impl)]]
    valid_ops = None
    try:
        valid_ops = (facts or {}).get("validOperationTypes")
    except Exception:
        valid_ops = None
    if not isinstance(valid_ops, list):
        fj = os.path.join(os.path.dirname(os.path.dirname(os.path.abspath(__file__))), "facts", "C01.json")
        try:
            valid_ops = json.load(open(fj)).get("validOperationTypes")
        except Exception:
            valid_ops = None
    # the property's reader's list (the documented FHIR interactions), NOT read from the source: a widened source list is a finding
    documented_ops = ["read", "vread", "update", "patch", "delete", "history", "create", "search", "document"]
    ctx.oblige("oracle:operation-allow-list-is-the-documented-one(facts)", valid_ops is None or sorted(valid_ops) == sorted(documented_ops), str(valid_ops))
    seen = set()

    def vio(sig, what, i):
        if sig in seen:
            return
        seen.add(sig)
        ctx.violation(sig, what, re.sub(r"[^A-Za-z0-9_.-]+", "_", sig)[:110] + ".jsonl", raw[i] + "\n")

    n_bad = 0
    kinds = Counter()
    for i, op in enumerate(ops):
        k, line = op.get("op"), impl[i]
        kinds[k + ":" + line.split(" ")[0].split("=")[0]] += 1
        if line.startswith("panic"):
            n_bad += 1
            vio(f"C01:{k}:panic", f"{op.get('label')}: the implementation panics", i)
        if k == "validate" and op.get("doc"):
            types = op["doc"].get("types") or []
            first = next((t for t in types if t != "VerifiableCredential" and t in ("NutsOrganizationCredential", "NutsAuthorizationCredential")), None)
            kind = {"NutsOrganizationCredential": "org", "NutsAuthorizationCredential": "auth"}.get(first)
            if line == "ok" and kind:
                why = subject_defects(op["text"], kind, documented_ops)
                if why:
                    n_bad += 1
                    vio(f"C01:validator-accepts-malformed-subject:{kind}:" + re.sub(r"\d+", "N", why[0]),
                        f"{op.get('label')}: a {first} is reported valid although: {', '.join(why)}", i)
            if line == "ok":
                why = status_defects(op["text"])
                if why:
                    n_bad += 1
                    vio("C01:validator-accepts-malformed-status-entry:" + re.sub(r"\d+", "N", why[0]),
                        f"{op.get('label')}: a credential is reported valid although its credentialStatus has: {', '.join(why)}", i)
            if line != "ok" and op.get("label", "").endswith(":base"):
                n_bad += 1
                vio(f"C01:validator-rejects-wellformed:{kind}", f"{op.get('label')}: a well-formed {first} is rejected", i)
        elif k == "pres-dates" and op.get("doc") and line.startswith("iss="):
            m = re.match(r"iss=(\S+) exp=(\S+)$", line)
            want_i = want_e = "nil"
            if op["doc"].get("fmt") == "jwt_vp":
                try:
                    pl = json.loads(base64.urlsafe_b64decode(op["text"].split(".")[1] + "=="))
                except Exception:
                    pl = {}
                zero = -62135596800

                def claim(name):
                    v = pl.get(name)
                    if isinstance(v, str) and re.fullmatch(r"-?\d+(\.\d+)?", v):   # jwx accepts numeric strings
                        v = float(v)
                    return None if isinstance(v, bool) or not isinstance(v, (int, float)) or int(v) == zero else int(v) * 1000
                want_i = claim("nbf") if claim("nbf") is not None else claim("iat")
                want_e = claim("exp")
            else:
                pr = json.loads(op["text"]).get("proof")
                pr = pr[0] if isinstance(pr, list) and len(pr) == 1 else pr
                if isinstance(pr, dict) and any(f in pr and rfc3339_ms(pr[f]) is None for f in ("created", "expires")):
                    want_i = want_e = None     # a date that does not parse: the proof does not decode, no date is reported
                elif isinstance(pr, dict):
                    want_i, want_e = rfc3339_ms(pr.get("created")), rfc3339_ms(pr.get("expires"))
                    zero_ms = -62135596800000
                    want_i = None if want_i == zero_ms else want_i
                    want_e = None if want_e == zero_ms else want_e
                else:
                    want_i = want_e = None
            got = (m.group(1), m.group(2)) if m else (None, None)
            want = tuple("nil" if w is None or w == "nil" else str(w) for w in (want_i, want_e))
            if got != want:
                n_bad += 1
                vio("C01:presentation-dates-are-not-the-signed-ones:" + op["doc"].get("fmt", "") + ":" + ("iss" if got[0] != want[0] else "exp"),
                    f"{op.get('label')}: util.go reports {line}, the single proof / the token says iss={want[0]} exp={want[1]}", i)
        elif k == "filter-method" and isinstance(op.get("creds"), list) and line.startswith("keep="):
            kept = {int(x) for x in line[5:].split(",") if x}
            methods = op.get("methods") or []
            for n_, v in enumerate(op["creds"]):
                should = True
                if methods:
                    should = (v.get("issuerMethod") is None or v["issuerMethod"] in methods) and v.get("subjects") is not None and \
                        all(sid == "" or m_ is None or m_ in methods for sid, m_ in v["subjects"])
                if should != (n_ in kept):
                    n_bad += 1
                    vio("C01:did-method-filter:" + ("offers-credential-of-unlisted-method" if n_ in kept else "drops-matching-credential"),
                        f"{op.get('label')}: credential {n_} (issuer method {v.get('issuerMethod')}, subjects {v.get('subjects')}) with methods {methods}: kept={n_ in kept}", i)
                    break
        elif k == "autocorrect" and op.get("c") and line.startswith("proofs="):
            c = op["c"]
            if c.get("nProofs", 0) > 0:
                want = f"proofs={c['nProofs']} id={c['id'] if c['id'] is not None else 'nil'} issuer={c['issuer']} issued={c['issued']} n={c['nSubjects']} has={'true' if c['subject0HasId'] else 'false'} s0={c['subject0Id'] if c['subject0Id'] is not None else 'nil'}"
                if line != want:
                    n_bad += 1
                    vio("C01:autocorrect-alters-signed-credential", f"{op.get('label')}: a credential with a proof was altered: {line} (was {want})", i)
            else:
                if c.get("issuer") and f"issuer={c['issuer']} " not in line:
                    n_bad += 1
                    vio("C01:autocorrect-overwrites-issuer", f"{op.get('label')}: the present issuer {c['issuer']} was replaced: {line}", i)
                if c.get("subject0HasId") and c.get("subject0Id") is not None and not line.endswith(" s0=" + c["subject0Id"]):
                    n_bad += 1
                    vio("C01:autocorrect-overwrites-subject-id", f"{op.get('label')}: the present subject id was replaced: {line}", i)
    ctx.oblige("oracle:subject-validators/presentation-dates/method-filter/auto-correction(impl)", n_bad == 0 and (len(ops) > 0 or bool(ctx.replay)), f"{n_bad} wrong of {len(ops)}")
    if bad:
        i = bad[0]
        detail = f"first differing line {i} ({ops[i].get('op') if i < len(ops) else None} {ops[i].get('label') if i < len(ops) else None})\nimpl : {impl[i] if i < len(impl) else None}\nmodel: {model[i] if i < len(model) else None}"
        ctx.oblige("correspondence:model=impl(subject legs)", False, f"{len(bad)} of {len(impl)} lines differ; " + detail[:600])
        if not ctx.violations:
            sig = "C01:" + str(ops[i].get("op") if i < len(ops) else "?") + ":model-and-implementation-disagree"
            ctx.violation(sig, "the implementation's outcome differs from the model of the unchanged source on this input:\n" + detail, "subject-leg-correspondence.jsonl", raw[i] + "\n")
    else:
        ctx.oblige("correspondence:model=impl(subject legs)", True, f"{len(impl)} lines equal")
    ctx.cov["subject_leg_ops"] = len(ops)
    ctx.cov["subject_leg_distribution"] = dict(kinds.most_common())
    return len(ops)


def run(ctx):
    ctx.level = "proof (decision logic) + conditional tamper-evidence; PARTIAL by construction on canonicalisation and cryptography (contracts)"
    facts = ctx.facts()
    thms = ctx.build_and_audit(["NutsProofs.Props.C01", "NutsProofs.Props.C01Subject", "NutsProofs.Props.C01CaseVariant", "NutsProofs.Props.C01Status", "NutsProofs.Props.C01RevStore", "NutsProofs.Props.C01Iam"])
    for r in REQUIRED:
        if not any(t.endswith("Props." + r) for t in thms):
            ctx.oblige("thm-present:" + r, False, "theorem missing or its module does not build")
    ctx.trusted += [
        "modelled, not verified (contracts, monitored by the harness): json-gold URDNA2015 canonicalisation (canon / canonProof are parameters; the harness measures the real canonical bytes of every mutant), SHA-256, ECDSA/JWS verification (sigOK is a parameter; the harness measures for which keys the real check passes), go-did parsing of credentials/presentations/DID URLs (the model starts from the typed fields go-did produced), jwx JWT parsing and claim validation, encoding/json",
        "model scope: vcr/verifier Verify/doVerifyVP/VerifySignature/jsonldProof/jwtSignature, vcr/credential FindValidator + validators (type-specific credentialSubject shape is an input), PresentationSigner, ResolveSubjectDID, proof.ProofOptions.ValidAt, crypto.ParseJWT order, resolver.DIDKeyResolver, trust.Config.IsTrusted, revocation.StatusList2021.Verify (decision only), issuer.Issue/buildAndSignVC, holder buildPresentation",
    ]
    ctx.assumptions += [
        "EUF: a signature that verifies under a key was produced by the holder of that key (hypothesis hEUF of tamper_evident)",
        "canonicalisation contract: equal canonical bytes imply agreement on every context-defined member (hypothesis hCanon); SHA-256 collision freedom for digest(proof) ‖ digest(document) (hypothesis hTbs)",
        "the DID history, revocation store, status lists and trust configuration are inputs (Env); their own correctness is C09/C10/C11",
    ]

    binary = ctx.go_test_binary(PKG, HARNESS, "c01")
    if binary is None:
        ctx.oblige("harness-builds", False, ctx.harness_error[-1500:])
        return
    ctx.oblige("harness-builds", True)
    env = {}
    if ctx.replay:
        env["VERIF_REPLAY"] = os.path.abspath(ctx.replay)
    else:
        env["VERIF_CORPUS"] = os.path.join(os.path.dirname(os.path.dirname(os.path.abspath(__file__))), "harness", "corpus", "C01")
    rc, log, out = ctx.run_harness(binary, "TestVerifC01", env, timeout=1500)
    if rc != 0:
        ctx.oblige("harness-runs", False, log[-1500:])
        return
    ctx.oblige("harness-runs", True)
    # ---------------- second harness: the network-ingest path (StoreCredential -> Resolve / wallet) on a real in-process node
    if not ctx.replay:
        binary2 = ctx.go_test_binary(PKG2, HARNESS2, "c01s")
        if binary2 is None:
            ctx.oblige("harness2-builds", False, ctx.harness_error[-1500:])
        else:
            out2 = os.path.join(ctx.scratch, "out2")
            rc2, log2, out2 = ctx.run_harness(binary2, "TestVerifC01Store", {}, outdir=out2, timeout=600)
            ctx.oblige("harness2-runs", rc2 == 0, log2[-1200:])
            if rc2 == 0:
                ops2 = [json.loads(l) for l in ctx.read_lines(os.path.join(out2, "ops.jsonl")) if l]
                impl2 = [l for l in ctx.read_lines(os.path.join(out2, "impl.out"))]
                wrong = 0
                seen_hist = set()
                for k, op in enumerate(ops2):
                    got = impl2[k] if k < len(impl2) else None
                    if got != op.get("expect"):
                        wrong += 1
                        hname = (op.get("label", "").split(":") + ["", ""])[1]
                        if hname in seen_hist:
                            continue
                        seen_hist.add(hname)
                        hist = "\n".join(json.dumps(dict(o, got=impl2[j] if j < len(impl2) else None)) for j, o in enumerate(ops2[:k + 1]))
                        ctx.violation("C01:network-ingest:" + re.sub(r"[^a-z:-]", "", op.get("label", "").split(":")[0] + ":" + op.get("label", "").split(":")[-1]),
                                      f"{op.get('label')}: the node did `{got}`, the property demands `{op.get('expect')}` (history in the replay file; re-run: go test -tags verif -run TestVerifC01Store ./vcr/test)",
                                      "network-ingest-" + re.sub(r"[^a-z0-9-]", "", hname) + ".jsonl", hist)
                ctx.oblige("oracle:network-ingest(StoreCredential->Resolve/wallet)(impl)", wrong == 0 and len(ops2) > 0, f"{wrong} wrong of {len(ops2)} steps")
                ctx.cov["network_ingest_steps"] = len(ops2)
    n_subject_ops = run_subject_legs(ctx, facts) or 0
    ops_p, impl_p, model_p = (os.path.join(out, x) for x in ("ops.jsonl", "impl.out", "model.out"))
    ok, err = ctx.model("C01", ops_p, model_p)
    ctx.oblige("model-driver-runs", ok, err[-500:])
    impl, model, bad = ctx.compare(impl_p, model_p)
    ops_raw = ctx.read_lines(ops_p)
    ops = [json.loads(l) if l else {} for l in ops_raw[:len(impl)]]

    seen_sigs = set()
    real_violation = ctx.violation

    def violation_once(sig, what, name, text, **kw):
        if sig in seen_sigs:
            return False
        seen_sigs.add(sig)
        safe = re.sub(r"[^A-Za-z0-9_.-]+", "_", sig)[:120]
        return real_violation(sig, what, safe + ".jsonl", text, **kw)
    ctx.violation = violation_once

    def replay_text(i):
        """state-changing ops before op i + op i itself"""
        start = max([k for k in range(i) if ops[k].get("op") == "reset"] + [-1]) + 1
        pre = [ops_raw[k] for k in range(start, i) if ops[k].get("op") in ("world", "trust", "trustfile", "restart", "revoke")]
        b = bases.get(ops[i].get("base"))
        if b and b[0] != i:
            pre.append(ops_raw[b[0]])   # the unmodified document the mutant is compared with
        # the history of this very document on the long-lived verifier (a verdict may depend on what was verified before)
        txt = ops[i].get("text")
        if txt:
            same = [k for k in range(start, i) if ops[k].get("text") == txt and ops[k].get("op") in ("vc", "vp") and not (b and k == b[0])]
            pre += [ops_raw[k] for k in same[-40:]]
        return "\n".join(pre + [ops_raw[i]]) + "\n"

    # ---------------- direct oracles on the implementation's outputs
    bases = {}
    for i, op in enumerate(ops):
        if op.get("op") in ("vc", "vp") and not op.get("mut"):
            bases.setdefault(op["label"], (i, op))
    own_rejected = 0
    for label, (i, op) in bases.items():
        if not impl[i].startswith("ok"):
            own_rejected += 1
            ctx.violation("C01:own-output-rejected:" + label, f"document produced by the node's own issuer/wallet is rejected: {impl[i]}",
                          "own-output-rejected.jsonl", replay_text(i))
    ctx.oblige("oracle:own-output-verifies(impl)", own_rejected == 0, f"{own_rejected} rejected of {len(bases)}")

    # a presentation that carries a forged third-party credential (tampered / unsigned / signed by the wrong key) is rejected
    # wherever that credential stands in the list — in particular after a proof-less self-attested credential, whose
    # exemption from the signature check is per credential
    forged_accepted = n_mix = 0
    for i, op in enumerate(ops):
        if op.get("op") == "vp" and op.get("label", "").startswith("vpmix-"):
            n_mix += 1
            if op.get("mut") == "vp-mix-forged" and impl[i].startswith("ok"):
                forged_accepted += 1
                ctx.violation("C01:presentation-with-forged-credential-accepted:" + (op.get("doc") or {}).get("fmt", "") + (":after-self-attested" if re.search(r"self,(?:[a-z-]+,)*FORGED", op["label"]) else ""),
                              f"{op['label']}: VerifyVP reports a presentation valid that carries a credential whose signature does not verify under a key of its issuer",
                              "forged-in-vp.jsonl", replay_text(i))
            if not op.get("mut") and not impl[i].startswith("ok"):
                forged_accepted += 1
                ctx.violation("C01:genuine-mixed-presentation-rejected:" + (op.get("doc") or {}).get("fmt", ""),
                              f"{op['label']}: a presentation of genuine credentials and proof-less self-attested ones is rejected: {impl[i]}",
                              "mixed-vp-rejected.jsonl", replay_text(i))
    ctx.oblige("oracle:forged-credential-in-presentation-rejected-in-every-position(impl)", forged_accepted == 0 and (n_mix > 0 or bool(ctx.replay)),
               f"{forged_accepted} wrong verdicts of {n_mix} mixed presentations")

    # wave 8: the signer must be the subject of EVERY credential a presentation carries (not of one of them): presentations of the
    # holder's own credentials mixed with genuine credentials about somebody else, in every position / format / with and without holder
    foreign_accepted = n_subj = 0
    for i, op in enumerate(ops):
        if op.get("op") == "vp" and op.get("label", "").startswith("vpmixsubj-"):
            n_subj += 1
            if op.get("mut") == "vp-mix-foreign-subject" and impl[i].startswith("ok"):
                foreign_accepted += 1
                ctx.violation("C01:presentation-carries-credential-of-another-subject:" + (op.get("doc") or {}).get("fmt", ""),
                              f"{op['label']}: VerifyVP reports a presentation valid whose signer is not the subject of every credential it carries",
                              "foreign-subject-in-vp.jsonl", replay_text(i))
    ctx.oblige("oracle:signer-is-subject-of-EVERY-carried-credential(impl)", foreign_accepted == 0 and (n_subj > 0 or bool(ctx.replay)),
               f"{foreign_accepted} accepted of {n_subj} mixed-subject presentations")

    # deepening round: StatusList2021Entry.Validate — the implementation's own verdict (entryValid, measured) against the rule recomputed
    # from the entry's members; and an accepted credential never carries a malformed entry
    se_bad = n_se = 0

    def entries(d):
        for e_ in (d or {}).get("statuses") or []:
            yield e_
        for c_ in (d or {}).get("vcs") or []:
            for e_ in c_.get("statuses") or []:
                yield e_
    for i, op in enumerate(ops):
        if op.get("op") not in ("vc", "vp"):
            continue
        for e_ in entries(op.get("doc")):
            if e_.get("typ") != "StatusList2021Entry" or "urlOK" not in e_:
                continue
            n_se += 1
            want = bool(e_.get("unmarshals")) and e_.get("entryId") != e_.get("listCred") and e_.get("purpose") != "" and e_.get("index") is not None and bool(e_.get("urlOK"))
            if want != bool(e_.get("entryValid")):
                se_bad += 1
                ctx.violation("C01:status-entry-validate:" + ("accepts-malformed-entry" if e_.get("entryValid") else "refuses-well-formed-entry"),
                              f"{op.get('label')}: StatusList2021Entry.Validate says {'ok' if e_.get('entryValid') else 'invalid'} for {json.dumps(e_)}",
                              "status-entry-validate.jsonl", replay_text(i))
            elif not want and op.get("op") == "vc" and impl[i].startswith("ok"):
                se_bad += 1
                ctx.violation("C01:credential-with-malformed-status-entry-reported-valid", f"{op.get('label')}: reported valid with status entry {json.dumps(e_)}",
                              "malformed-status-entry.jsonl", replay_text(i))
    ctx.oblige("oracle:status-entry-validation(impl)", se_bad == 0, f"{se_bad} wrong of {n_se} entries")
    ctx.cov["status_entries_checked"] = n_se

    # deepening round: caseVariantMember as a function — independent recomputation from the document text (simple case folding over the
    # generator's alphabet: ASCII letters, U+017F long s, U+212A Kelvin sign)
    def fold_name(name):
        return "".join("S" if ch == "\u017f" else "K" if ch == "\u212a" else ch.upper() if ch.isascii() else ch for ch in name)

    def ambiguous(v):
        if isinstance(v, dict):
            fs = [fold_name(k_) for k_ in v]
            return len(set(fs)) != len(fs) or any(ambiguous(x) for x in v.values())
        if isinstance(v, list):
            return any(ambiguous(x) for x in v)
        return False
    cv_bad = n_cv = 0
    for i, op in enumerate(ops):
        if op.get("op") == "case-variant" and impl[i] in ("clean", "variant"):
            n_cv += 1
            doc = json.loads(op["text"])
            want = any(m != f and fold_name(m) == fold_name(f) for m in doc for f in op.get("fields") or []) or ambiguous(doc)
            if want != (impl[i] == "variant"):
                cv_bad += 1
                ctx.violation("C01:case-variant-guard:" + ("misses-a-case-variant-member" if want else "refuses-a-clean-document"),
                              f"caseVariantMember says `{impl[i]}` for a document (decoded into {op.get('into')}) that " + ("has" if want else "has no") + " case-variant member names",
                              "case-variant.jsonl", ops_raw[i] + "\n")
    ctx.cov["case_variant_guard_ops"] = dict(Counter(impl[i] for i, op in enumerate(ops) if op.get("op") == "case-variant"))
    ctx.oblige("oracle:case-variant-guard-finds-every-case-variant-member-at-any-depth(impl)", cv_bad == 0 and (n_cv > 0 or bool(ctx.replay)), f"{cv_bad} wrong of {n_cv}")

    # deepening round 3: the revocation lookup on the real leia store.  The property's clause: "not revoked" may only be answered when the
    # store's query succeeded and holds NO document for that credential id (a read fault or an undecodable stored revocation is not a "no");
    # a stored decodable set is "revoked"; documents of look-alike ids never count; GetRevocation never panics.
    rs_bad = n_rs = 0
    seen_rs = set()
    for i, op in enumerate(ops):
        if op.get("op") != "revstore":
            continue
        n_rs += 1
        m = re.match(r"get=(\S+) revoked=(\S+) one=(\S+)$", impl[i])
        docs, fault = op.get("docs") or [], bool(op.get("fault"))
        why = None
        if not m:
            why = "lookup-panics" if impl[i].startswith("panic") else "unreadable-outcome"
        else:
            get, rev, one = m.groups()
            if rev == "false" and (fault or docs):
                why = "not-revoked-although-" + ("the-store-could-not-be-read" if fault else ("a-stored-document-does-not-decode" if not all(docs) else "a-revocation-is-stored"))
            elif rev == "true" and (fault or not docs):
                why = "revoked-without-a-stored-revocation"
            elif rev == "error+true" or "foreign" in get or "foreign" in one:
                why = "answers-with-a-revocation-of-another-credential" if "foreign" in impl[i] else "error-and-revoked"
            elif one == "panic":
                why = "GetRevocation-panics"
            elif (one == "ok") != (rev == "true"):
                why = "GetRevocation-disagrees-with-IsRevoked"
            elif not fault and docs and all(docs) and get != f"found:{len(docs)}":
                why = "stored-revocations-not-all-returned"
        if why:
            rs_bad += 1
            if why not in seen_rs:
                seen_rs.add(why)
                ctx.violation("C01:revocation-lookup:" + why, f"{op.get('label')}: store with documents(decodable?)={docs} fault={fault} near-ids={op.get('near')}: {impl[i]}",
                              "revocation-lookup_" + why + ".jsonl", ops_raw[i] + "\n")
    ctx.cov["revocation_lookup_ops"] = dict(Counter(impl[i] for i, op in enumerate(ops) if op.get("op") == "revstore"))
    ctx.oblige("oracle:not-revoked-only-when-the-store-answered-with-no-document(impl)", rs_bad == 0 and (n_rs > 0 or bool(ctx.replay)), f"{rs_bad} wrong of {n_rs}")

    # deepening round 3: the S2S token handler's first loop (auth/api/iam).  Clause: a presentation is taken as "by subject d" only if its
    # signer is d and d is the subject of EVERY credential it carries, and — RFC021 — d is the same for all presentations of the envelope;
    # its signed validity (created .. expires) is present and at most 5 s.  Recomputed from go-did's view of the document, not from labels.
    s2_bad = n_s2 = 0
    seen_s2 = set()
    for i, op in enumerate(ops):
        if op.get("op") != "s2s-vp":
            continue
        n_s2 += 1
        d = op.get("doc") or {}
        m = re.match(r"validity=(\S+) signer=(\S+)$", impl[i])
        why = []
        if not m:
            why.append("handler-check-panics" if impl[i].startswith("panic") else "unreadable-outcome")
        else:
            validity, got = m.groups()
            is_jwt = (d.get("fmt") or "").startswith("jwt")
            kid = ((d.get("jwt") or {}).get("kid") if is_jwt else (d.get("proof") or {}).get("vm")) or ""
            signer = (op.get("urls") or {}).get(kid)
            if not got.startswith("err:"):
                if got == "nil" or got != signer:
                    why.append("accepted-subject-is-not-the-signer")
                if any(sj != got for c in d.get("vcs") or [] for sj in (c.get("subjects") or [None])):
                    why.append("accepted-although-signer-is-not-subject-of-every-credential")
                if op.get("expected") not in ("", None, got):
                    why.append("accepted-although-presentations-have-different-subjects")
            elif op.get("label", "").split(":")[0] in ("s2s-same-subject", "s2s-empty-first", "s2s-too-long", "s2s-too-long-second", "s2s-no-expiry"):
                why.append("refuses-presentation-by-the-one-subject")
            if is_jwt:
                j = d.get("jwt") or {}
                cr, ex = (j.get("nbf") if j.get("nbf") is not None else j.get("iat")), j.get("exp")
            else:
                pr = d.get("proof") or {}
                cr, ex = pr.get("created"), pr.get("expires")
            if validity == "ok" and (cr is None or ex is None or ex - cr > 5000):
                why.append("validity-accepted-although-" + ("a-date-is-missing" if cr is None or ex is None else "longer-than-5s"))
            if validity != "ok" and cr is not None and ex is not None and 0 <= ex - cr <= 5000:
                why.append("validity-refused-although-within-5s")
        if why:
            s2_bad += 1
            if why[0] not in seen_s2:
                seen_s2.add(why[0])
                ctx.violation("C01:s2s-presentation-check:" + why[0] + ":" + (d.get("fmt") or ""), f"{op.get('label')} (expected subject `{op.get('expected')}`): {impl[i]} although: {', '.join(why)}",
                              "s2s-presentation_" + why[0] + ".jsonl", ops_raw[i] + "\n")
    ctx.cov["s2s_presentation_ops"] = dict(Counter(re.sub(r"signer=did:\S+", "signer=<did>", impl[i]) for i, op in enumerate(ops) if op.get("op") == "s2s-vp"))
    ctx.oblige("oracle:s2s-envelope-is-by-one-subject-of-every-credential-and-short-lived(impl)", s2_bad == 0 and (n_s2 > 0 or bool(ctx.replay)), f"{s2_bad} wrong of {n_s2}")

    # deepening round 3: RegisterRevocation.  Clause (integrity of "not revoked"): a revocation takes effect only if it names a credential id
    # <issuer>#<fragment>, is issued by that issuer and its proof verifies (measured) under a key that is an assertion method of that issuer
    # at the revocation's date; recomputed from the view + the world's DID history, independent of the model.
    rr_bad = n_rr = 0
    rr_hist = {}

    def rr_key_authorised(did_, at_ms, kid, sig_keys):
        vs = [x for x in rr_hist.get(did_, []) if x["from"] <= at_ms]
        if not vs or vs[-1].get("deact"):
            return False
        base_ = vs[-1].get("base") or None
        return any((a[0] == kid or (base_ and a[0].startswith("#") and base_ + a[0] == kid)) and a[1] in (sig_keys or []) for a in vs[-1]["assertion"])
    for i, op in enumerate(ops):
        if op.get("op") == "world":
            rr_hist = op.get("hist") or {}
        if op.get("op") == "reset":
            rr_hist = {}
        if op.get("op") != "regrev":
            continue
        n_rr += 1
        v = op.get("rev") or {}
        accepted = impl[i].startswith("ok")
        took_effect = " revoked=true" in impl[i]
        issuer = v.get("issuer") or ""
        authentic = bool(v.get("fragment")) and issuer != "" and (v.get("subject") or "").split("#")[0] == issuer and \
            (v.get("vm") or "").split("#")[0] == issuer and v.get("hasProof") and v.get("proofDecodes") and \
            rr_key_authorised(issuer, v.get("date"), v.get("vm"), v.get("sigKeys"))
        why = None
        if impl[i].startswith("panic"):
            why = "RegisterRevocation-panics"
        elif (accepted or took_effect) and not authentic:
            why = "revocation-not-signed-by-the-credential-issuer-takes-effect"
        elif accepted != took_effect:
            why = "registered-revocation-has-no-effect" if accepted else "refused-revocation-takes-effect"
        elif op.get("label", "").endswith(":genuine") and not accepted:
            why = "own-revocation-refused"
        if why:
            rr_bad += 1
            ctx.violation("C01:register-revocation:" + why, f"{op.get('label')}: {impl[i]} for {json.dumps(v)[:400]}", "register-revocation_" + why + ".jsonl", replay_text(i))
    ctx.cov["register_revocation_ops"] = dict(Counter(impl[i] for i, op in enumerate(ops) if op.get("op") == "regrev"))
    ctx.oblige("oracle:only-the-credential-issuers-signed-revocation-takes-effect(impl)", rr_bad == 0 and (n_rr > 0 or bool(ctx.replay)), f"{rr_bad} wrong of {n_rr}")

    # revocation is permanent from the verifier's point of view: once a verification of a document reported "revoked", every later
    # verification of the same document on that node reports revoked (refreshes of a status list must not resurrect it)
    seen_revoked = {}
    resurrected = 0
    for i, op in enumerate(ops):
        k = op.get("op")
        if k == "reset":
            seen_revoked = {}
        elif k == "vc" and op.get("text"):
            if impl[i] == "err:revoked":
                seen_revoked.setdefault(op["text"], i)
            elif impl[i].startswith("ok") and op["text"] in seen_revoked:
                resurrected += 1
                ctx.violation("C01:revoked-then-reported-valid-again:" + re.sub(r"^.*(@[a-z0-9-]+)$", r"\1", op.get("label", "")),
                              f"{op.get('label')}: reported valid although op {seen_revoked[op['text']]} ({ops[seen_revoked[op['text']]].get('label')}) had reported the same document revoked",
                              "resurrected.jsonl", replay_text(i))
    ctx.oblige("oracle:once-revoked-always-revoked(impl)", resurrected == 0, f"{resurrected} resurrected")

    # ---------------- sibling entry points and edges
    edge_bad = n_edge = 0
    for i, op in enumerate(ops):
        k = op.get("op")
        if k in ("vc", "vp") and op.get("via") == "api":
            n_edge += 1
            ok_line = impl[i].startswith("ok")
            if op.get("apiStatus") == "200" and bool(op.get("apiValidity")) != ok_line or (op.get("apiStatus") != "200" and ok_line):
                edge_bad += 1
                ctx.violation("C01:api-validity-inconsistent:" + k, f"{op['label']}: API status {op.get('apiStatus')} validity {op.get('apiValidity')} vs verdict {impl[i]}",
                              "api-validity.jsonl", replay_text(i))
        elif k == "expect":
            n_edge += 1
            if impl[i] != op.get("expect"):
                edge_bad += 1
                ctx.violation("C01:" + str(op.get("kind")) + ":" + op.get("label", ""), f"{op.get('label')}: {impl[i]} but the property demands {op.get('expect')}",
                              "expect.jsonl", replay_text(i))
        elif k == "wallet-list":
            n_edge += 1
            listed = set(filter(None, impl[i][len("wallet:"):].split(",")))
            for d in op.get("creds") or []:
                inside = d["issued"] <= op["now"] + 5000 and (d.get("expires") is None or op["now"] - 5000 <= d["expires"])
                should = inside and d.get("id") not in (op.get("revoked") or [])
                if (d.get("id") in listed) != should:
                    edge_bad += 1
                    ctx.violation("C01:wallet-list:" + ("lists-expired-or-revoked" if not should else "omits-valid"),
                                  f"wallet.List {'lists' if not should else 'omits'} {d.get('id')} (inside window: {inside}, revoked: {d.get('id') in (op.get('revoked') or [])})",
                                  "wallet-list.jsonl", replay_text(i))
        elif k == "wallet-present":
            n_edge += 1
            if (impl[i] == "ok") != bool(op.get("expectOK")):
                edge_bad += 1
                ctx.violation("C01:wallet-build-presentation-validate:" + op.get("label", ""), f"{op.get('label')}: BuildPresentation(validateVC) -> {impl[i]}",
                              "wallet-present.jsonl", replay_text(i))
    ctx.oblige("oracle:api-handlers/wallet/tampered-revocations(impl)", edge_bad == 0 and (n_edge > 0 or bool(ctx.replay)), f"{edge_bad} wrong of {n_edge}")

    # a credential whose network revocation was registered is never reported valid, whatever credentialStatus it carries
    nr, registered = [], set()
    for i, op in enumerate(ops):
        if op.get("op") == "reset":
            registered = set()
        elif op.get("op") == "revoke" and op.get("registered"):
            registered.add(op["id"])
        elif op.get("op") == "vc" and (op.get("doc") or {}).get("id") in registered:
            nr.append(i)
    nr_ok = [i for i in nr if impl[i].startswith("ok")]
    for i in nr_ok:
        st = (ops[i].get("doc") or {}).get("statuses") or []
        ctx.violation("C01:network-revoked-credential-reported-valid:" + ("with-credentialStatus" if st else "no-credentialStatus"),
                      f"{ops[i]['label']} is reported valid although its revocation was registered on this node", "network-revoked.jsonl", replay_text(i))
    ctx.oblige("oracle:network-revoked-never-valid(impl)", not nr_ok and (len(nr) > 0 or bool(ctx.replay)), f"{len(nr_ok)} accepted of {len(nr)}")

    # strict mode: a document that brings its own (unlisted) context is never reported valid
    rc = [i for i, op in enumerate(ops) if op.get("mut") == "remote-context"]
    rc_ok = [i for i in rc if impl[i].startswith("ok")]
    for i in rc_ok:
        ctx.violation("C01:document-with-unlisted-remote-context-reported-valid-in-strict-mode", f"{ops[i]['label']} is reported valid by the node as configured at start-up (strict mode)",
                      "remote-context.jsonl", replay_text(i))
    ctx.oblige("oracle:strict-mode-refuses-unlisted-contexts(impl)", not rc_ok and (len(rc) > 0 or bool(ctx.replay)), f"{len(rc_ok)} accepted of {len(rc)}")

    # a JWT whose algorithm does not fit the curve of the signing key is never reported valid
    misfit = sum(1 for i, op in enumerate(ops) if op.get("mut") == "alg-key-mismatch")
    misfit_ok = [i for i, op in enumerate(ops) if op.get("mut") == "alg-key-mismatch" and impl[i].startswith("ok")]
    for i in misfit_ok:
        ctx.violation("C01:jwt-algorithm-does-not-fit-key-but-reported-valid:" + ops[i]["op"], f"{ops[i]['label']} is reported valid", "alg-key.jsonl", replay_text(i))
    ctx.oblige("oracle:jwt-algorithm-fits-key(impl)", not misfit_ok and (misfit > 0 or bool(ctx.replay)), f"{len(misfit_ok)} accepted of {misfit}")

    # the issuer refuses to sign (JSON-LD) what the context does not define — those members would not be covered by the signature
    signed_undefined = 0
    n_issue = 0
    for i, op in enumerate(ops):
        if op.get("op") == "issue":
            n_issue += 1
            if op.get("fmt") == "ldp_vc" and not op.get("allDefined") and impl[i] == "ok":
                signed_undefined += 1
                ctx.violation("C01:issuer-signed-undefined-member:" + op["label"], f"{op['label']}: Issue signed a JSON-LD credential with members its context does not define",
                              "issuer-signed-undefined.jsonl", replay_text(i))
    ctx.oblige("oracle:issuer-refuses-undefined-members(impl)", signed_undefined == 0, f"{signed_undefined} of {n_issue} Issue calls")

    # a credential revoked on the issuer's status list must be reported revoked whenever the verifier holds or can obtain a
    # valid list — also when, later, only a tampered list (or nothing) is served.  (Never having been able to fetch a list
    # is the documented soft fail: reported valid.)
    revoked_accepted = 0
    n_status = 0
    for i, op in enumerate(ops):
        if op.get("op") == "vc" and op.get("mut") == "status-revoked":
            n_status += 1
            soft = "down-cold" in op.get("label", "")
            if impl[i].startswith("ok") and not soft:
                revoked_accepted += 1
                mode = op["label"].split(":")[2] if op["label"].count(":") >= 2 else ""
                ctx.violation("C01:revoked-credential-reported-valid:" + (mode or "honest") + ("@later" if "@later" in op["label"] else ""),
                              f"{op['label']}: the credential is revoked on its issuer's status list, the verifier had a valid list, and Verify reports it valid",
                              "revoked-accepted.jsonl", replay_text(i))
    ctx.oblige("oracle:status-list-revoked-credential-is-rejected(impl)", revoked_accepted == 0 and n_status > 0 or bool(ctx.replay),
               f"{revoked_accepted} accepted of {n_status}")

    # ---------------- direct "valid only if" oracle, independent of the Lean model: every document the implementation
    # reports valid must satisfy the property's first sentence w.r.t. the DID history / trust / revocation state the
    # harness set up and the signature facts it measured with the real cryptography.
    state = {"hist": {}, "trust": set(), "revoked": set()}
    voi_bad = 0
    voi_checked = 0

    def key_authorised(did_, at_ms, kid, sig_keys):
        vs = [v for v in state["hist"].get(did_, []) if v["from"] <= at_ms]
        if not vs or vs[-1]["deact"]:
            return False
        base = vs[-1].get("base") or None   # "@base": relative ids ("#k") of the ASSERTION relationship are completed with it
        return any((a[0] == kid or (base and a[0].startswith("#") and base + a[0] == kid)) and a[1] in (sig_keys or []) for a in vs[-1]["assertion"])

    def vc_reasons(d, op, check_sig):
        at_ms = op["at"]
        why = []
        if op.get("via") == "sig":   # VerifySignature: the signature conjuncts only
            full = vc_reasons(d, dict(op, via=""), True)
            return [w for w in full if w in ("key-id-not-of-issuer", "not-signed-by-an-assertion-key-of-the-issuer-at-validation-time", "jwt-outside-window", "proof-outside-window")]
        if d["issued"] > at_ms + 5000 or (d.get("expires") is not None and at_ms - 5000 > d["expires"]):
            why.append("outside-validity-window")
        if d.get("id") in state["revoked"]:
            why.append("revoked")
        if not op["allowUntrusted"] and any(t != "VerifiableCredential" and (t, d["issuer"]) not in state["trust"] for t in d.get("types") or []):
            why.append("untrusted-issuer")
        if check_sig:
            is_jwt = (d.get("fmt") or "").startswith("jwt")
            kid = ((d.get("jwt") or {}).get("kid") if is_jwt else (d.get("proof") or {}).get("vm")) or ""
            if is_jwt and kid == "":
                kid = d["issuer"] + ("#0" if d["issuer"].startswith("did:jwk:") else "")
            issuer_did = (op.get("dids") or {}).get(d["issuer"])
            if issuer_did is None or (op.get("urls") or {}).get(kid) != issuer_did:
                why.append("key-id-not-of-issuer")
            elif not key_authorised(issuer_did, at_ms, kid, d.get("sigKeys")):
                why.append("not-signed-by-an-assertion-key-of-the-issuer-at-validation-time")
            if is_jwt:
                j = d.get("jwt") or {}
                if (j.get("exp") is not None and at_ms // 1000 >= j["exp"] // 1000 and j["exp"] // 1000 != 0) or \
                        (j.get("nbf") is not None and at_ms // 1000 < j["nbf"] // 1000):
                    why.append("jwt-outside-window")
            else:
                pr = d.get("proof") or {}
                if pr.get("created", 0) > at_ms + 5000 or (pr.get("expires") is not None and pr["expires"] + 5000 < at_ms):
                    why.append("proof-outside-window")
        return why

    for i, op in enumerate(ops):
        k = op.get("op")
        if k == "reset":
            state = {"hist": {}, "trust": set(), "revoked": set()}
        elif k == "world":
            state["hist"] = op["hist"]
        elif k == "trust":
            (state["trust"].add if op["add"] else state["trust"].discard)((op["type"], op["issuer"]))
        elif k == "trustfile":   # the property's view of trust: a set — after untrusting nothing of the pair is left, whatever the file held
            state["trust"] = {(t, i) for t, l in op["content"].items() for i in l}
        elif k == "revoke" and op.get("registered"):
            state["revoked"].add(op["id"])
        elif k in ("vc", "vp") and impl[i].startswith("ok") and (op.get("at") is not None or op.get("via") == "api") and op.get("doc"):
            d = op["doc"]
            voi_checked += 1
            if op.get("via") == "api":
                # what the REST API promises: current time unless validAt is given; signature always checked; trust required for
                # did:nuts issuers (vc) unless the caller opted out / for did:nuts presenters (vp); credentials verified unless opted out
                op = dict(op)
                if op.get("at") is None:
                    op["at"] = op["now"]
                if k == "vc":
                    op["checkSig"] = True
                    op["allowUntrusted"] = (not d["issuer"].startswith("did:nuts")) or op.get("option") is True
                else:
                    kid0 = ((d.get("jwt") or {}).get("kid") if (d.get("fmt") or "").startswith("jwt") else (d.get("proof") or {}).get("vm")) or ""
                    op["checkSig"] = op.get("option") is not False
                    op["allowUntrusted"] = not ((op.get("urls") or {}).get(kid0) or "").startswith("did:nuts:")
            if op.get("storeFails"):
                voi_bad += 1
                ctx.violation("C01:reported-valid-while-revocation-store-cannot-answer:" + k, f"{op['label']} is reported valid although the revocation store returned an error",
                              "store-down.jsonl", replay_text(i))
                continue
            if k == "vc":
                why = vc_reasons(d, op, op["checkSig"])
            else:
                why = []
                is_jwt = (d.get("fmt") or "").startswith("jwt")
                kid = ((d.get("jwt") or {}).get("kid") if is_jwt else (d.get("proof") or {}).get("vm")) or ""
                signer = (op.get("urls") or {}).get(kid)
                if not signer or not key_authorised(signer, op["at"], kid, d.get("sigKeys")):
                    why.append("presentation-not-signed-by-an-assertion-key-of-the-signer")
                if is_jwt:
                    j = d.get("jwt") or {}
                    if (j.get("exp") is not None and op["at"] // 1000 >= j["exp"] // 1000 and j["exp"] // 1000 != 0) or \
                            (j.get("nbf") is not None and op["at"] // 1000 < j["nbf"] // 1000):
                        why.append("presentation-jwt-outside-window")
                else:
                    pr = d.get("proof") or {}
                    if pr.get("created", 0) > op["at"] + 5000 or (pr.get("expires") is not None and pr["expires"] + 5000 < op["at"]):
                        why.append("presentation-proof-outside-window")
                for c in d.get("vcs") or []:
                    if any(sj != signer for sj in (c.get("subjects") or [None])):
                        why.append("signer-is-not-subject-of-every-credential")
                    if op["checkSig"]:   # verifyVCs
                        self_attested = d.get("holder") is not None and d.get("holder") == c.get("issuer") and not c.get("nProofs")
                        why += ["vc:" + w for w in vc_reasons(c, op, not self_attested)]
                    if d.get("holder") not in (None, signer):
                        why.append("holder-is-not-signer")
            if why:
                voi_bad += 1
                ctx.violation("C01:reported-valid-but:" + why[0] + ":" + k, f"{op['label']} is reported valid although: {', '.join(sorted(set(why)))}",
                              "valid-only-if.jsonl", replay_text(i))
    ctx.oblige("oracle:valid-only-if(impl, against harness state + measured signatures)", voi_bad == 0, f"{voi_bad} of {voi_checked} accepted documents")

    kinds = Counter()
    verdicts = Counter()
    residue = Counter()
    residue_examples = {}
    signed_change_accepted = acted_upon_accepted = 0
    distinct = set()
    contract_breaches = Counter()
    for i, op in enumerate(ops):
        if op.get("op") not in ("vc", "vp"):
            continue
        line = impl[i]
        verdicts[line.split(" ")[0]] += 1
        mut = op.get("mut") or ""
        kinds[re.split(r"[:#]", mut)[0] or "base"] += 1
        distinct.add((op.get("base"), mut, op.get("path"), op.get("at"), op.get("allowUntrusted"), op.get("checkSig")))
        if not mut or mut in SCAN_KINDS or op.get("base") not in bases:
            continue
        bi, bop = bases[op["base"]]
        if not impl[bi].startswith("ok"):
            continue
        d, b = op.get("doc"), bop.get("doc")
        if d is None:
            continue
        resigned = mut.startswith("resign")
        strict = strict_vp if op["op"] == "vp" else strict_vc
        sv_d, sv_b = strict(d), strict(b)
        is_jwt = (d.get("fmt") or "").startswith("jwt")
        if is_jwt:
            signed_same = d.get("raw") == b.get("raw") and (d.get("jwt") or {}).get("sig") is not None
        else:
            signed_same = d.get("cd") == b.get("cd") and d.get("cp") == b.get("cp")
        # contract monitor (canonicalisation): equal canonical bytes must mean equal signed members
        if not is_jwt and not resigned and d.get("cd") == b.get("cd") and d.get("cp") == b.get("cp") and not malformed_proof(d) and line.startswith("err"):
            sd, sb = dict(sv_d), dict(sv_b)
            if sd != sb and d.get("allDefined"):
                contract_breaches[first_diff(sb, sd)] += 1
        if not line.startswith("ok"):
            continue
        member = norm_path(op.get("path"))
        mk = re.split(r"[#]", mut)[0]
        if not resigned and not signed_same:
            signed_change_accepted += 1
            ctx.violation(f"C01:signed-bytes-changed-but-accepted:{op['op']}:{mk}:{member}",
                          f"mutant {op['label']} changes the canonical bytes / proof options / JWT signing input and is still reported valid",
                          "signed-change-accepted.jsonl", replay_text(i))
            continue
        if resigned:
            # a re-signed document is a different document; it is the model correspondence and valid_only_if that judge it
            residue[("re-signed-by-authorised-key", op["op"], op.get("path"))] += 1
            continue
        if sv_d != sv_b:
            what = first_diff(sv_b, sv_d)
            acted_upon_accepted += 1
            ctx.violation(f"C01:acted-upon-member-altered-but-accepted:{op['op']}:{norm_path(what)}",
                          f"mutant {op['label']} alters {what} (a member the node reads) and is still reported valid",
                          "acted-upon-member-altered.jsonl", replay_text(i))
            continue
        # claims (credentialSubject leaves) of the credential, or of the embedded credentials of a presentation
        if op["op"] == "vc":
            pairs = [(d, b)]
        else:
            by_id = lambda c: (str(c.get("id")), c.get("fmt") or "")
            pairs = list(zip(sorted(d.get("vcs") or [], key=by_id), sorted(b.get("vcs") or [], key=by_id)))
        changed = [(x, y) for x, y in pairs if claims_of(x) != claims_of(y)]
        if changed:
            if all(x.get("allDefined") for x, _ in changed):
                acted_upon_accepted += 1
                ctx.violation(f"C01:defined-claim-altered-but-accepted:{member}",
                              f"mutant {op['label']} alters a context-defined claim and is still reported valid",
                              "defined-claim-altered.jsonl", replay_text(i))
            else:
                key = ("claim-not-defined-by-context", op["op"], mk.split(":")[0] + "@" + member)
                residue[key] += 1
                residue_examples.setdefault(key, op["label"])
            continue
        cls = "reported-differs(not-read)" if d.get("report") != b.get("report") else "representation-only"
        if (d.get("ctx") or None) != (b.get("ctx") or None):
            cls = "context-list-changed(canonical-form-equal)"
        key = (cls, op["op"], mk.split(":")[0] + "@" + member)
        residue[key] += 1
        residue_examples.setdefault(key, op["label"])
    ctx.oblige("oracle:accepted-mutants-have-unchanged-signed-bytes(impl)", signed_change_accepted == 0, f"{signed_change_accepted} accepted")
    ctx.oblige("oracle:accepted-mutants-agree-on-every-member-the-node-reads(impl)", acted_upon_accepted == 0, f"{acted_upon_accepted} accepted")
    ctx.oblige("contract-monitor:equal-canonical-bytes-imply-equal-signed-members", not contract_breaches, json.dumps(dict(contract_breaches))[:400])
    if contract_breaches and not ctx.violations:
        k = next(iter(contract_breaches))
        ctx.violation("C01:canonicalisation-contract-breached:" + norm_path(k), f"two documents with equal canonical bytes differ in signed member {k}",
                      "canon-contract.txt", json.dumps(dict(contract_breaches)))

    # ---------------- correspondence model vs implementation
    if bad:
        i = bad[0]
        detail = f"first differing line {i} ({ops[i].get('label') if i < len(ops) else None})\nimpl : {impl[i] if i < len(impl) else None}\nmodel: {model[i] if i < len(model) else None}"
        ctx.oblige("correspondence:model=impl", False, f"{len(bad)} of {len(impl)} lines differ; " + detail[:600])
        if not ctx.violations:
            with open(os.path.join(ctx.replay_dir(), "correspondence.jsonl"), "w") as f:
                f.write(replay_text(i))
            ctx.unproved(["correspondence C01 (model.out != impl.out)"], detail + f"\nreplay ops: {ctx.replay_dir()}/correspondence.jsonl")
    else:
        ctx.oblige("correspondence:model=impl", True, f"{len(impl)} lines equal")

    n_ver = sum(1 for op in ops if op.get("op") in ("vc", "vp"))
    ctx.cov["evaluations"] = n_ver
    ctx.cov["distinct_nontrivial"] = len(distinct)
    ctx.cov["traces_validated_against_impl"] = len(impl) - len(bad)
    ctx.cov["rule"] = ("4 credential templates x {ldp_vc, jwt_vc} issued by the real issuer.Issue, 5 presentations {ldp_vp, jwt_vp} built by the real wallet; "
                       "every member at every depth: delete / rename / case-fold rename+add / change value (several per type) / retype / wrap-unwrap / array element del-dup-swap-add / "
                       "add undefined member / add absent optional members / duplicate top-level keys; JWT header and claims the same plus signature flip/empty, alg none/HS256; "
                       "embedded credentials injected / replaced (same and other subject, both formats, also under case-variant member names); re-signing by 5 other keys; "
                       "validation times around issuance, expiry (± skew ± 1 s) and every DID-history boundary (key added, removed, re-bound, deactivated); trust removed; revoked. "
                       "distinct_nontrivial = distinct (base, mutation, path, time, flags)")
    ctx.cov["input_distribution"] = {"mutation_kinds": dict(kinds.most_common()), "verdict_classes": dict(verdicts.most_common()),
                                     "bases": sorted(bases)}
    res = [{"class": k[0], "doc": k[1], "where": k[2], "count": v, "example": residue_examples.get(k, "")} for k, v in sorted(residue.items())]
    ctx.cov["residue_accepted_mutants"] = res
    ctx.cov["residue_summary"] = dict(Counter(k[0] for k in residue.elements()))
    ctx.cov["samples"] = [impl[i] + " <- " + ops[i].get("label", "") for i in range(min(len(impl), 400)) if ops[i].get("mut")][:6]
    ctx.notes.append("residue_accepted_mutants lists every mutation of a verified document that still verifies, by class: "
                     "claim-not-defined-by-context (the stated residue `undefined_member_unsigned`), representation-only, "
                     "reported-differs(not-read) (members go-did drops or that only the raw presentation carries), context-list-changed")
