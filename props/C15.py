"""C15 — private transaction payloads go only to authenticated listed participants.
Lean: NutsProofs.Props.C15 over the shared protocol model NutsModel.C07 + NutsModel.C15.Authn + regenerated facts.
Correspondence: the C07 simulator (real protocol values, real dag.State, real ECIES and PAL code) with nodes holding private
payloads; every envelope handed to Connection.Send is marshalled and its wire bytes scanned for canary payload bytes."""
import json, os, re
from collections import Counter

PKG = "network/transport/v2"
HARNESS = ["network/transport/v2/zz_verif_c07_test.go", "network/transport/v2/zz_verif_c07_gen_test.go",
           "network/transport/v2/zz_verif_c15_test.go", "network/transport/v2/gossip/zz_verif_export_c07.go"]

PKG2 = "network"
HARNESS2 = ["network/zz_verif_c15_test.go", "network/transport/grpc/zz_verif_export_c15.go"]
PKG3 = "network/transport/grpc"
HARNESS3 = ["network/transport/grpc/zz_verif_c15_test.go", "network/transport/grpc/zz_verif_c15_inbound_test.go",
            "network/transport/grpc/zz_verif_c15_outbound_test.go", "network/transport/grpc/zz_verif_c15_mixed_test.go"]
HARNESSES = [(PKG, HARNESS, "c15"), (PKG2, HARNESS2, "c15cfg"), (PKG3, HARNESS3, "c15tls")]

REQUIRED = ["payload_only_in_payload_msg", "private_payload_release_sound", "decrypt_iff_member", "payload_stored_only_if_hash_matches", "payload_with_transaction_only_if_hash_matches",
            "authn_sound", "tick_and_create_send_no_payload", "nonmember_cipher_gap",
            "fact_payload_query_checks", "fact_payload_finished_nil_guard", "fact_collect_guard", "fact_payload_store_checks", "fact_payload_writers", "fact_authenticate_steps",
            "fact_authenticator_selection", "release_only_to_listed_false", "release_only_to_listed_partial", "dummy_authenticator_only_without_tls", "configured_authn_sound",
            "fact_server_tls_config", "authenticated_certificate_is_verified",
            "connection_authenticated_only_via_authenticator", "fact_authenticate_call_sites",
            "created_private_has_full_pal", "fact_encrypt_and_authenticator_stateless",
            "fact_payload_presence_guards", "public_tx_admitted_only_with_payload",
            "offloaded_certificate_needs_exactly_one_value", "fact_offloading_header_checks", "known_transaction_writes_no_payload", "known_transaction_keeps_payload_store", "fact_state_add_present_branch_writes_nothing", "offloaded_identity_is_this_streams_header", "offloaded_streams_independent", "fact_offloading_authinfo_overwritten", "authenticated_with_proven_certificate", "decryptPAL_depends_only_on_keys_and_header", "header_prefix_does_not_determine_list", "fact_sent_envelopes_fresh", "fact_decryptPAL_stateless",
            "inbound_streams_share_connection_identity", "stream_on_authenticated_connection_proved_it", "inbound_stream_to_release_sound",
            "refused_inbound_stream_changes_nothing", "readMetadata_ok_needs_single_values", "fact_inbound_lookup_is_model",
            "fact_connection_get_and_predicates", "fact_inbound_stream_order", "fact_read_metadata_shape",
            "outbound_connection_identity_is_dialled_and_proved", "bootstrap_connection_never_authenticated", "outbound_stream_to_release_sound",
            "unopened_outbound_stream_registers_nothing", "failed_outbound_connection_is_reset", "cmAuthenticate_tls_ok",
            "fact_open_outbound_stream_flow", "fact_open_outbound_streams_loop_and_connect", "fact_connection_peer_updates",
            "connection_list_identity_safe", "connection_list_to_release_sound", "openOutboundStream_safe", "handleInbound_safe"]


def run(ctx):
    from props.C07 import scenario_slices, replay_text
    facts = ctx.facts()
    thms = ctx.build_and_audit(["NutsProofs.Props.C15"])
    for r in REQUIRED:
        if not any(t.endswith("Props." + r) for t in thms):
            ctx.oblige("thm-present:" + r, False, "theorem missing or its module does not build")
    ctx.trusted += [
        "contracts (parameters of the model, real implementations run in the harness): ECIES (decrypts only with the matching key), SHA-256 "
        "(payload hash supplied as data), x509.Certificate.VerifyHostname, net/url.Parse, the DID/service resolver, protobuf marshalling, bbolt",
        "model scope: transport/v2 handlers.go (all handlers), senders.go, protocol.go (decryptPAL, handlePrivateTxRetry), dag/pal.go "
        "(EncryptedPAL.Decrypt loop), grpc/authenticator.go (tlsAuthenticator.Authenticate)",
    ]
    ctx.assumptions += [
        "'this node is on the list' is enforced through 'this node can decrypt the PAL': equivalent for headers produced by PAL.Encrypt when every node "
        "holds only its own key agreement key (decrypt_iff_member); a header to which the author added a ciphertext for a non-member, or a node holding "
        "another participant's key, is outside that equivalence (nonmember_cipher_gap: stated, exercised by the harness, counted as gap not violation)",
        "no public transaction of the node has the same payload as a private one (PrivSeparate); the dummy authenticator is only reachable with TLS off (C20)",
    ]
    binary = ctx.go_test_binary(PKG, HARNESS, "c15")
    if binary is None:
        ctx.oblige("harness-builds", False, ctx.harness_error[-1500:])
        return
    ctx.oblige("harness-builds", True)
    env = {}
    if ctx.replay:
        env["VERIF_REPLAY"] = os.path.abspath(ctx.replay)
    rc, log, out = ctx.run_harness(binary, "TestVerifC15", env, timeout=1500)
    if rc != 0:
        ctx.oblige("harness-runs", False, log[-1500:])
        return
    ctx.oblige("harness-runs", True)
    ops_p, impl_p, model_p = (os.path.join(out, x) for x in ("ops.jsonl", "impl.out", "model.out"))
    ok, err = ctx.model("C15", ops_p, model_p)
    ctx.oblige("model-driver-runs", ok, err[-500:])
    impl, model, bad = ctx.compare(impl_p, model_p)
    ops = ctx.read_lines(ops_p)
    header, slices = scenario_slices(ops)

    verdicts, leaks, stores, palkinds = [], [], [], {}
    for l in ctx.read_lines(os.path.join(out, "oracle.jsonl")):
        if not l:
            continue
        j = json.loads(l)
        k = j.get("kind")
        if k == "leak":
            leaks.append(j["leak"])
        elif k == "store":
            stores.append(j["check"])
        elif k == "palkinds":
            palkinds = j["kinds"]
        elif k != "dc":
            verdicts.append(j)
    by_name = {v["scenario"]: v for v in verdicts}

    # ---- oracle 1: every envelope whose wire bytes contain a private payload
    n_bad, gaps, leak_kinds = 0, Counter(), Counter()
    seen_sig = Counter()
    known_sig, known_cases = {}, Counter()
    for lk in leaks:
        kind = palkinds.get(str(lk["tx"]), "?")
        listed = lambda d: d != "" and d in (lk["pal"] or [])
        leak_kinds[(lk["kind"], "peer-listed" if listed(lk["peer_did"]) else "peer-unlisted", "auth" if lk["peer_auth"] else "unauth",
                    "holder-listed" if listed(lk["src_did"]) else "holder-unlisted")] += 1
        # the reply answers a query for ANOTHER transaction (ref_tx) that legitimately goes to this peer, and carries this
        # transaction's payload because the two share a payload hash (the payload store is keyed by hash only)
        ref_pal = lk.get("ref_pal") or []
        via_other = (lk["kind"] == "pl" and lk.get("ref_tx", -1) not in (-1, lk["tx"]) and lk["peer_auth"]
                     and lk["peer_did"] != "" and lk["peer_did"] in ref_pal)
        if via_other and not (listed(lk["peer_did"]) and listed(lk["src_did"])):
            sig, what = ("C15:payload-of-other-transaction-released-via-shared-payload-hash",
                         f"payload of private tx {lk['tx']} (list {lk['pal']}) released in the reply for tx {lk['ref_tx']} (list {ref_pal}) which has the same payload hash")
            seen_sig[sig] += 1
            if seen_sig[sig] == 1:
                v = by_name.get(lk["scenario"])
                rp = replay_text(ops, header, v["first_op"], v["last_op"]) if v else json.dumps(lk)
                known_sig[sig] = not ctx.violation(sig, f"{what}: {json.dumps(lk)[:300]}", f"{sig.split(':')[1]}.jsonl", rp)
            if known_sig.get(sig):
                known_cases[sig] += 1
            else:
                n_bad += 1
            continue
        if lk["kind"] == "pl" and lk["peer_auth"] and listed(lk["peer_did"]):
            if listed(lk["src_did"]):
                continue
            # holder not on the list but able to decrypt: only possible with a header not produced by Encrypt, or a foreign key
            if kind == "nonmember-cipher" or "two-keys" in lk["scenario"]:
                gaps[kind + "/" + re.sub(r"-r\d+$", "", lk["scenario"])] += 1
                continue
            sig, what = "C15:payload-released-by-unlisted-node", "a node not on the participant list released the payload"
        elif lk["kind"] != "pl":
            sig, what = "C15:private-payload-in-" + lk["kind"], f"private payload bytes inside a {lk['kind']} message"
        elif not lk["peer_auth"]:
            sig, what = "C15:payload-to-unauthenticated-peer", "payload sent over an unauthenticated connection"
        else:
            sig, what = "C15:payload-to-unlisted-peer", "payload sent to an authenticated peer whose DID is not on the list"
        n_bad += 1
        seen_sig[sig] += 1
        if seen_sig[sig] > 1:
            continue
        v = by_name.get(lk["scenario"])
        rp = replay_text(ops, header, v["first_op"], v["last_op"]) if v else json.dumps(lk)
        ctx.violation(sig, f"{what}: {json.dumps(lk)[:300]}", f"{sig.split(':')[1]}.jsonl", rp)
    # the connection only QUEUES the pointer it is given: what is written to the stream later must be what the handler sent
    n_changed = 0
    for v in verdicts:
        if v.get("changed"):
            n_changed += 1
            n_bad += 1
            if n_changed == 1:
                ctx.violation("C15:queued-message-changed-after-send", f"scenario {v['scenario']}: a message queued by Send is modified afterwards (the sender goroutine marshals it "
                              f"later): {v['changed'][:3]}", "queued-message-changed-after-send.jsonl", replay_text(ops, header, v["first_op"], v["last_op"]))
    ctx.oblige("oracle:every-envelope-scanned-for-private-payload-bytes-at-send-and-when-written-later(impl)", n_bad == 0, f"{n_bad} disallowed of {len(leaks)} envelopes carrying private bytes")

    # ---- oracle 2: payload store changes iff transaction present and hash matches
    s_bad = 0
    sk = Counter()
    for c in stores:
        should = c["tx_known"] and c["matches"]
        okc = (c["after"] == (c["before"] or should)) and not c["other_changed"]
        sk[("known" + ("-via-list" if c.get("via") else "") if c["tx_known"] else "unknown", "match" if c["matches"] else "mismatch", "stored" if c["after"] and not c["before"] else "unchanged")] += 1
        if not okc:
            s_bad += 1
            if s_bad > 1:
                continue
            v = by_name.get(c["scenario"])
            if c.get("via") == "tl":
                ctx.violation("C15:unverified-payload-stored-for-known-private-transaction", "a TransactionList carrying a private transaction that is ALREADY on the DAG (payload not yet "
                              f"received) together with bytes that do not hash to its payload hash made node {c['node']} store those bytes as the transaction's payload: {json.dumps(c)}",
                              "payload-store-via-list.jsonl", replay_text(ops, header, v["first_op"], c["op"]) if v else json.dumps(c))
                continue
            ctx.violation("C15:payload-store-changed-wrongly", f"payload store after TransactionPayload: {json.dumps(c)}", "payload-store.jsonl",
                          replay_text(ops, header, v["first_op"], c["op"]) if v else json.dumps(c))
    ctx.oblige("oracle:payload-stored-iff-tx-present-and-hash-matches(impl)", s_bad == 0, f"{s_bad} of {len(stores)}")
    for v in verdicts:
        if v["shrunk"] or v["invalid_in"]:
            ctx.violation("C15:dag-damaged", f"scenario {v['scenario']}: {v['shrunk'][:3]} {v['invalid_in'][:3]}", "dag-damaged.jsonl",
                          replay_text(ops, header, v["first_op"], v["last_op"]))

    # ---- oracle 3: the authenticator marks a peer authenticated iff its certificate is valid for the host of the resolved NutsComm endpoint
    a_bad = 0
    for i, l in enumerate(ops):
        if '"op":"authn"' not in l[:400]:
            continue
        j = json.loads(l)
        expect_ok = bool(j["cert"] and j["resolve"] and j["parsed"] and j["covers"])
        got = impl[i] if i < len(impl) else ""
        got_ok = got.startswith("authn ok") and "auth=true" in got
        wrong_unauth = (not got_ok) and ("auth=true" in got)
        if got_ok != expect_ok or wrong_unauth:
            a_bad += 1
            if a_bad == 1:
                sig = "C15:authenticated-without-covering-certificate" if got_ok else "C15:authentication-refused-for-covering-certificate"
                ctx.violation(sig, f"tlsAuthenticator case {j.get('case')}: {got} but certificate/endpoint facts are {l[:300]}", "authn.jsonl", l)
    ctx.oblige("oracle:authenticated-iff-certificate-covers-resolved-endpoint-host(impl)", a_bad == 0, f"{a_bad} cases")

    # ---- oracle 4: the REAL Network.Configure, four combinations TLS x strict mode: with TLS configured a peer claiming a DID whose
    # NutsComm host its certificate does not cover must be refused (strict or not); without TLS strict mode must refuse to start
    c_bad = 0
    cfg_lines = 0
    if not ctx.replay or '"op":"configure"' in open(ctx.replay).read(4096) or '"op":"createtx"' in open(ctx.replay).read(4096):
        b2 = ctx.go_test_binary(PKG2, HARNESS2, "c15cfg")
        if b2 is None:
            ctx.oblige("harness-builds:network.Configure", False, ctx.harness_error[-1200:])
        else:
            out2 = os.path.join(ctx.scratch, "out-cfg")
            rc2, log2, out2 = ctx.run_harness(b2, "TestVerifC15Configure", {}, outdir=out2, timeout=600, cwd=os.path.join(os.environ.get("VERIF_REPO", "/repo"), "network"))
            ctx.oblige("harness-runs:network.Configure", rc2 == 0, log2[-1200:])
            if rc2 == 0:
                o2, i2, m2 = (os.path.join(out2, x) for x in ("ops.jsonl", "impl.out", "model.out"))
                okm, errm = ctx.model("C15", o2, m2)
                impl2, model2, bad2 = ctx.compare(i2, m2)
                ops2 = ctx.read_lines(o2)
                cfg_lines = len(impl2)
                for k, l in enumerate(impl2):
                    j = json.loads(ops2[k])
                    wrong = None
                    if j["op"] == "createtx":
                        # the REAL Network.CreateTransaction: participants requested => failure, or a PAL header with one entry per participant
                        m = re.search(r"ok pal=(\d+)", l)
                        if j["parts"] and m and int(m.group(1)) != len(j["parts"]):
                            c_bad += 1
                            if c_bad > 1:
                                continue
                            ctx.violation("C15:private-transaction-created-without-full-pal", f"CreateTransaction with participants {j['parts']} produced a transaction with {m.group(1)} PAL entries "
                                          f"(0 = PUBLIC: its payload is attached to every transaction list)", "createtx.jsonl", ops2[k])
                        continue
                    if j["tls"] and ("liar-refused=true" not in l or "liar-auth=false" not in l):
                        wrong = ("C15:unverified-node-did-accepted-with-tls", "TLS is configured but a peer whose certificate does not cover the NutsComm host of the DID it claims is marked authenticated")
                    elif (not j["tls"]) and j["strict"] and not l.startswith("configure err:tls-disabled-strict"):
                        wrong = ("C15:strict-mode-starts-without-tls", "strict mode accepted a configuration without TLS")
                    if wrong:
                        c_bad += 1
                        if c_bad == 1:
                            ctx.violation(wrong[0], f"{wrong[1]}: Network.Configure({ops2[k]}) -> {l}", "configure.jsonl", ops2[k])
                ctx.oblige("oracle:tls-configured-implies-node-did-verified(impl, real Network.Configure)", c_bad == 0, f"{c_bad} of {len(impl2)} configurations")
                if bad2 and c_bad == 0:
                    ctx.oblige("correspondence:model=impl(Network.Configure)", False, f"line {bad2[0]}: impl {impl2[bad2[0]] if bad2[0] < len(impl2) else None} model {model2[bad2[0]] if bad2[0] < len(model2) else None}")
                else:
                    ctx.oblige("correspondence:model=impl(Network.Configure)", not bad2, f"{len(impl2)} lines")

    # ---- oracle 5: the real server TLS configuration (newServerTLSConfig) over a real crypto/tls handshake: a client certificate that does
    # not chain to the trust store (self-signed, other CA, none) is never accepted, in TLS 1.2 and 1.3
    t_bad, tls_lines, n_inbound, inbound_streams, inbound_res = 0, 0, 0, 0, Counter()
    n_outbound, outbound_snaps, outbound_res = 0, 0, Counter()
    n_mixed, mixed_checks, mixed_res = 0, 0, Counter()
    if not ctx.replay or '"op":"tlsclient"' in open(ctx.replay).read(4096) or '"op":"cmauth"' in open(ctx.replay).read(4096) or '"op":"offload' in open(ctx.replay).read(4096) or '"op":"inbound"' in open(ctx.replay).read(4096) or '"op":"outbound"' in open(ctx.replay).read(4096) or '"op":"mixed"' in open(ctx.replay).read(4096):
        b3 = ctx.go_test_binary(PKG3, HARNESS3, "c15tls")
        if b3 is None:
            ctx.oblige("harness-builds:grpc.newServerTLSConfig", False, ctx.harness_error[-1200:])
        else:
            rc3, log3, out3 = ctx.run_harness(b3, "TestVerifC15ServerTLS", ({"VERIF_REPLAY": os.path.abspath(ctx.replay)} if ctx.replay else {}), outdir=os.path.join(ctx.scratch, "out-tls"), timeout=300)
            ctx.oblige("harness-runs:grpc.newServerTLSConfig", rc3 == 0, log3[-1200:])
            if rc3 == 0:
                o3, i3, m3 = (os.path.join(out3, x) for x in ("ops.jsonl", "impl.out", "model.out"))
                ctx.model("C15", o3, m3)
                impl3, model3, bad3 = ctx.compare(i3, m3)
                ops3 = ctx.read_lines(o3)
                tls_lines = len(impl3)
                for k, l in enumerate(impl3):
                    j = json.loads(ops3[k])
                    if j["op"] == "offloadseq":
                        # several streams on ONE connection share one *peer.Peer: every stream must be handled with the certificate of ITS OWN header
                        owner = {"victim": "victim.example.org", "proxy": "attacker.example", "third": "third.example"}
                        want = [owner.get(st[0], "refused") if len(st) == 1 else "refused" for st in j["streams"]]
                        got = l[len("offloadseq ["):-1].split()
                        if got != want:
                            t_bad += 1
                            if any("offloaded-stream" in v[1] for v in ctx.violations):
                                continue
                            k_bad = next((x for x in range(min(len(got), len(want))) if got[x] != want[x]), 0)
                            ctx.violation("C15:offloaded-stream-authenticated-with-another-streams-certificate",
                                          f"tlsOffloadingAuthenticator.intercept on streams sharing one connection (*peer.Peer; initial AuthInfo '{j['pre']}') with header values {j['streams']}: "
                                          f"stream {k_bad} carries the certificate of {want[k_bad]} but its handler authenticates with {got[k_bad]} (all: {got}) — a peer claiming that node's DID "
                                          "is marked authenticated and gets its private payloads", "offloadseq.jsonl", ops3[k])
                        continue
                    if j["op"] == "inbound":
                        # histories of inbound streams on the REAL handleInboundStream: a stream may only sit on a connection whose identity
                        # (connection.Peer(): what the v2 handlers decide on) its OWN headers + certificate established
                        n_inbound += 1
                        didtab, eps = dict(map(tuple, j["didtab"])), dict(map(tuple, j["endpoints"]))
                        opened = {e["sid"]: e for e in j["events"] if e["e"] == "open"}
                        for en, part in enumerate(l[len("inbound "):].split(" ; ")):
                            res, _, snap = part.partition("|")
                            inbound_res[res.rstrip("0123456789")] += 1
                            for c in filter(None, snap.split(",")):
                                cid, cdid, cauth, _dns, sids = c.split("~")
                                for sid in filter(None, sids.split("+")):
                                    e = opened[int(sid)]
                                    dids, pids = e.get("dids", []), e.get("pids", [])
                                    claimed = didtab.get(dids[0].strip(), None) if len(dids) == 1 and dids[0].strip() else ""
                                    proven = bool(claimed) and (j["kind"] == "dummy" or (e.get("hascert", False) and eps.get(claimed) in e.get("cert", [])))
                                    ok_id = len(pids) == 1 and pids[0].strip() == cid
                                    ok_auth = (cauth != "true" and cdid == "") or (proven and claimed == cdid)
                                    inbound_streams += 1
                                    if ok_id and ok_auth:
                                        continue
                                    t_bad += 1
                                    if any("stream-on-connection" in v[1] for v in ctx.violations):
                                        continue
                                    ctx.violation("C15:stream-on-connection-with-identity-it-did-not-prove",
                                                  f"handleInboundStream ({j['kind']} authenticator): after event {en} stream {sid} (peerID header {pids}, nodeDID header {dids}, certificate "
                                                  f"{e.get('cert') if e.get('hascert') else None}) sits on connection id={cid} did={cdid} authenticated={cauth}: the v2 handlers serve it with that "
                                                  f"identity (private payloads of {cdid or 'nobody'}) although its own set-up did not establish it", "inbound.jsonl", ops3[k])
                        continue
                    if j["op"] == "mixed":
                        # ONE connection list with inbound streams and dialled connections interleaved (real getOrRegister both ways, openOutboundStream,
                        # handleInboundStream, disconnect/remove): after every event, every connection: authenticated => DID + covering certificate;
                        # every stream on a connection with a DID named that DID in ITS OWN set-up and ITS OWN certificate covers it
                        n_mixed += 1
                        didtab, eps = dict(map(tuple, j["didtab"])), dict(map(tuple, j["endpoints"]))
                        opened = {e["sid"]: e for e in j["events"] if e["e"] in ("inopen", "outstream")}
                        for en, part in enumerate(l[len("mixed "):].split(" ; ")):
                            res, _, snap = part.partition("|")
                            mixed_res[j["events"][en]["e"] + ":" + res.rstrip("0123456789")] += 1
                            for c in filter(None, snap.split(",")):
                                cid, cdid, cauth, dns, sids = c.split("~")
                                why = None
                                if cauth == "true" and not (cdid and (j["kind"] == "dummy" or eps.get(cdid) in dns.split("+"))):
                                    why = f"connection id={cid} is authenticated as {cdid!r} with certificate {dns!r}"
                                for sid in filter(None, sids.split("+")):
                                    e = opened[int(sid)]
                                    dids = e.get("dids", [])
                                    named = didtab.get(dids[0].strip()) if len(dids) == 1 and dids[0].strip() else ""
                                    own = j["kind"] == "dummy" or (e.get("hascert", False) and eps.get(cdid) in e.get("cert", []))
                                    mixed_checks += 1
                                    if cdid and not (named == cdid and own):
                                        why = (f"{e['e']} stream {sid} (nodeDID header {dids}, certificate {e.get('cert') if e.get('hascert') else None}) sits on connection "
                                               f"id={cid} did={cdid} authenticated={cauth} without having proved that DID itself")
                                if why:
                                    t_bad += 1
                                    if any("shared-connection-list" in v[1] for v in ctx.violations):
                                        continue
                                    ctx.violation("C15:shared-connection-list-identity-not-proved-by-every-stream",
                                                  f"connection list ({j['kind']} authenticator) after event {en} ({j['events'][en]['e']} -> {res}): {why}", "mixed.jsonl", ops3[k])
                        continue
                    if j["op"] == "outbound":
                        # an outbound connection on the REAL openOutboundStreams: connection.Peer() (what the v2 handlers decide on) keeps the DID this
                        # node DIALLED and is authenticated only when the certificate on it covers the NutsComm host of that DID; every registered
                        # stream's own header named that DID and its own certificate covers it; a bootstrap connection is never authenticated;
                        # after disconnect nothing of the identity is left
                        n_outbound += 1
                        didtab, eps = dict(map(tuple, j["didtab"])), dict(map(tuple, j["endpoints"]))
                        exp = j["expected"]
                        mo = re.match(r"outbound (\S+) \[(.*)\] end=(\S*) after=(\S*) listed=(\d+)$", l)
                        why = None
                        if not mo:
                            why = f"unreadable outcome {l[:200]}"
                        else:
                            outbound_res[mo.group(1)] += 1
                            snaps = [x for x in mo.group(2).split(" ") if x] + [mo.group(3)]
                            for sn, c in enumerate(snaps):
                                cid, cdid, cauth, dns, sids = c.split("~")
                                outbound_snaps += 1
                                covers = j["kind"] == "dummy" or (exp in eps and eps[exp] in dns.split("+"))
                                if cdid != exp:
                                    why = f"snapshot {sn}: the connection's DID is {cdid!r}, the node dialled {exp!r}"
                                elif cauth == "true" and not (exp and covers):
                                    why = f"snapshot {sn}: connection authenticated as {cdid!r} with certificate {dns!r} (NutsComm host of it: {eps.get(exp)})"
                                for sid in filter(None, sids.split("+")):
                                    e = j["streams"][int(sid)]
                                    dids = e.get("dids", [])
                                    named = didtab.get(dids[0].strip()) if len(dids) == 1 and dids[0].strip() else ""
                                    own = j["kind"] == "dummy" or (e.get("hascert", False) and exp in eps and eps[exp] in e.get("cert", []))
                                    if exp and not (cauth == "true" and named == exp and own):
                                        why = (f"snapshot {sn}: stream {sid} (nodeDID header {dids}, certificate {e.get('cert') if e.get('hascert') else None}) is registered on the "
                                               f"connection dialled for {exp} (authenticated={cauth}) without having proved that DID itself")
                                    if not exp and cauth == "true":
                                        why = f"snapshot {sn}: bootstrap connection (no expected DID) is authenticated"
                            aid, adid, aauth, _dns, asids = mo.group(4).split("~")
                            if (aid, adid, aauth, asids) != ("", "", "false", "") or mo.group(5) != "0":
                                why = f"after disconnect the connection still carries id={aid!r} did={adid!r} authenticated={aauth} streams={asids!r} listed={mo.group(5)}"
                        if why:
                            t_bad += 1
                            if any("outbound-connection" in v[1] for v in ctx.violations):
                                continue
                            ctx.violation("C15:outbound-connection-identity-not-the-dialled-and-proved-one",
                                          f"openOutboundStreams ({j['kind']} authenticator, dialled {exp or 'a bootstrap contact'}): {why}; outcome: {l[:400]}", "outbound.jsonl", ops3[k])
                        continue
                    if j["op"] == "offload":
                        # TLS offloading interceptor: a certificate is taken over only from EXACTLY ONE header value that holds one certificate
                        okv = len(j["values"]) == 1 and j["values"][0] in ("victim", "proxy")
                        if l.startswith("offload cert=") and not okv:
                            t_bad += 1
                            if any("offloaded-certificate" in v[1] for v in ctx.violations):
                                continue
                            ctx.violation("C15:offloaded-certificate-taken-from-ambiguous-header", f"tlsOffloadingAuthenticator accepted header values {j['values']} -> {l}", "offload.jsonl", ops3[k])
                        continue
                    if j["op"] == "cmauth":
                        # connection manager wrapper: authenticated only if a DID was claimed and the LEAF certificate covers its NutsComm host
                        if "auth=true" in l and not (j["claimed"] != "" and j["cert"] and j["leaf_covers"]):
                            t_bad += 1
                            if any("connection-authenticated-without" in v[1] for v in ctx.violations):
                                continue
                            ctx.violation("C15:connection-authenticated-without-covering-leaf-certificate", f"grpcConnectionManager.authenticate/extractCertificate: {ops3[k]} -> {l}", "cmauth.jsonl", ops3[k])
                        continue
                    if "accepted=true" in l and not (j["presented"] and j["chains"]):
                        t_bad += 1
                        if t_bad == 1:
                            ctx.violation("C15:untrusted-client-certificate-accepted", f"the TLS server accepted a client whose certificate does not chain to the trust store: {ops3[k]}", "tlsclient.jsonl", ops3[k])
                ctx.oblige("oracle:client-certificate-must-chain-to-truststore(impl, real TLS handshake)", t_bad == 0, f"{t_bad} of {len(impl3)} handshakes")
                ctx.oblige("correspondence:model=impl(server TLS)", (not bad3) or t_bad > 0, f"{len(impl3)} lines, differing {bad3[:3]}")

    # ---- correspondence
    if bad:
        i = bad[0]
        detail = f"first differing line {i}\nop   : {ops[i][:600] if i < len(ops) else None}\nimpl : {impl[i][:1200] if i < len(impl) else None}\nmodel: {model[i][:1200] if i < len(model) else None}"
        ctx.oblige("correspondence:model=impl", False, f"{len(bad)} of {len(impl)} lines differ; " + detail[:900])
        if n_bad == 0 and s_bad == 0 and a_bad == 0:
            sl = [s for s in slices if s[0] <= i <= s[1]]
            if sl:
                with open(os.path.join(ctx.replay_dir(), "correspondence.jsonl"), "w") as f:
                    f.write(replay_text(ops, header, sl[0][0], sl[0][1]))
            ctx.unproved(["correspondence C15 (model.out != impl.out)"], detail + f"\nreplay ops: {ctx.replay_dir()}/correspondence.jsonl")
    else:
        ctx.oblige("correspondence:model=impl", True, f"{len(impl)} lines equal")

    steps = [l for l in ops if l and not any(k in l[:200] for k in ('"op":"tx"', '"op":"payload"', '"op":"cipher"', '"op":"universe"'))]
    opk = Counter()
    for l in steps:
        j = json.loads(l)
        opk[j["op"] + (":" + j["msg"]["t"] if j["op"] == "inject" else "")] += 1
    rets = Counter(re.match(r"ret=(\S+)", l).group(1) for l in impl if l.startswith("ret="))
    ctx.cov["evaluations"] = len(steps) + cfg_lines + tls_lines
    ctx.cov["distinct_nontrivial"] = len({(lk["scenario"], lk["tx"], lk["dst"]) for lk in leaks}) + len({(c["scenario"], c["node"], c["tx"], c["data"]) for c in stores})
    ctx.cov["traces_validated_against_impl"] = len(impl) - len(bad)
    ctx.cov["rule"] = ("holder node in 8 key situations (listed A / listed B / unlisted C able to decrypt an irregular header / no node DID / key missing / DID "
                       "unresolvable / two keys / no key agreement key) x 5 peers (authenticated listed, authenticated unlisted, UNauthenticated claiming a listed DID, "
                       "authenticated with empty DID, authenticated listed but behind) x 8 PAL headers (honest 1-2 participants, extra non-member ciphertext, "
                       "garbage plaintext, nobody's key, duplicate DIDs, own ciphertext last): payload queries for every private/public/unknown/empty ref, then "
                       "list/range queries, state, gossip, transaction set, diagnostics addressed at the private transactions, the follow-up protocol run, then "
                       "payload messages (matching, mismatching, other tx's payload, empty, unknown tx, empty ref) to 4 kinds of receivers; 55 authenticator cases "
                       "(5 certificates x 11 endpoints). distinct_nontrivial = distinct (scenario, tx, peer) releases + distinct store probes")
    ctx.cov["input_distribution"] = {"scenarios": len(verdicts), "step_kinds": dict(opk), "handler_outcomes": dict(rets),
                                     "envelopes_carrying_private_bytes": {" ".join(k): v for k, v in leak_kinds.items()},
                                     "gap_releases(holder can decrypt but is not listed)": dict(gaps),
                                     "known_finding_cases": dict(known_cases),
                                     "store_probes": {" ".join(k): v for k, v in sk.items()},
                                     "authn_outcomes": dict(Counter(l.split()[1] for l in impl if l.startswith("authn "))),
                                     "network_configure_cases(tls x strict x nodeDID)": cfg_lines,
                                     "inbound_stream_histories": n_inbound, "inbound_event_outcomes": dict(inbound_res),
                                     "inbound_stream_on_connection_checks": inbound_streams,
                                     "outbound_connections": n_outbound, "outbound_outcomes": dict(outbound_res), "outbound_snapshots_checked": outbound_snaps,
                                     "mixed_list_histories": n_mixed, "mixed_event_outcomes": dict(mixed_res), "mixed_stream_on_connection_checks": mixed_checks}
    ctx.cov["samples"] = [steps[60][:300] if len(steps) > 60 else "", next((l for l in impl if "pl(" in l), "")[:300]]
    if gaps:
        ctx.notes.append(f"gap exercised (not a violation): holder able to decrypt without being listed released the payload to listed peers: {dict(gaps)}")
