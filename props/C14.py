"""C14 — admitted transactions/payloads reach every persistent subscriber at least once; completion is final.
Lean: NutsProofs.Props.C14 over NutsModel.C14.Notifier + regenerated facts.
Correspondence: in-package harness (network/dag) — real state + real persistent notifiers on bbolt, scripted
receivers, the real retry goroutines stepped deterministically, stop injection, reopen + Run; ledger / shelves /
GetFailedEvents / retry goroutines compared with the model after every op.
Direct oracle on the implementation's own output: no loss, no call after recorded completion, only admitted
delivered, delivered at least once / visible as failed at the end of every history."""
import json, os, re, time
from collections import Counter

PKG = "network/dag"
HARNESS = ["network/dag/zz_verif_c14_test.go", "network/dag/zz_verif_c14opt_test.go"]
HARNESSES = [(PKG, HARNESS, "c14"), ("network/transport/v2", ["network/transport/v2/zz_verif_c14_test.go"], "c14h"),
             ("network", ["network/zz_verif_c14_test.go"], "c14s"),
             ("vcr", ["vcr/zz_verif_c14_test.go"], "c14v"),
             ("network/api/v1", ["network/api/v1/zz_verif_c14_test.go"], "c14a")]
ROOT = os.path.dirname(os.path.dirname(os.path.abspath(__file__)))

REQUIRED = ["no_loss", "admitted_by_commit", "only_admitted_delivered", "save_event_reaches_every_subscriber", "add_with_shelf_fault_admits_nothing", "duplicate_add_changes_nothing", "fact_save_event_all_or_nothing", "payload_event_per_transaction", "identical_payload_witness", "payload_no_loss_partial", "payload_available_no_loss_fails", "not_admitted_unchanged", "no_call_after_done",
            "no_call_after_done_split", "completed_job_gone", "call_after_done_without_presence_check", "call_after_done_when_write_back_recreates", "shared_key_witness",
            "delay_monotone", "delay_doubles", "resume_delay_continues", "resume_delay_monotone", "spawn_base_is_recorded_failures_plus_one", "typed_of_filter", "realSubs_are_the_registrations",
            "resume_skips_event_finished_meanwhile", "restart_redelivers", "loop_survives_storage_fault", "storage_fault_ended_loop_before_repair", "notify_reschedules_unless_fatal", "storage_fault_is_rescheduled", "rescheduled_loop_exists", "delivered_at_least_once", "eventual_delivery", "eventual_delivery_from_start", "failed_visible",
            "completed_or_visible", "parked_witness",
            "fact_retry_constants", "fact_retry_arithmetic", "fact_retry_backoff", "fact_notifyNow_retries", "fact_notify_drops_only_event_fatal",
            "fact_run_replays_every_job", "fact_start_runs_every_notifier", "fact_receiver_error_classification", "fact_registration_receivers", "fact_cleanup_only_named_subscriber_and_prefix", "fact_subscribers_persist_on_the_dag_store", "fact_save_only_new_events", "fact_failed_events_threshold", "fact_save_in_write_tx_notify_after_commit",
            "fact_writePayload_skips_stored_payload", "fact_write_back_skips_removed_event", "fact_payload_handler_sequence", "fact_registrations",
            # deepening round 2026-09-28 (NutsProofs.Props.C14Ops): construction side, non-persistent path, machine arithmetic
            "options_persistent_iff", "options_filters_accumulate", "options_last_delay_wins", "options_default_delay",
            "registry_names_unique", "first_registration_stays", "register_duplicate_refused", "save_proceeds_iff", "save_nonpersistent_iff",
            "calls_bounded_by_budget", "duplicate_payload_write_is_silent", "duplicate_payload_calls_again_without_guard", "fact_writePayload_notifies_only_what_it_saved",
            "rest_lists_every_spent_job", "undelivered_visible_at_rest_api", "listEvents_ok", "failedRows_sound",
            "cleanup_calls_nobody_and_records_what_it_removes", "cleanup_touches_only_named_failed_matching",
            "fact_notifier_options", "fact_shelf_name", "fact_save_check_order", "fact_registry", "fact_list_events", "retry_attempts_machine_source",
            "np_calls_bounded", "np_gives_up_after_budget", "retry_attempts_machine", "retry_attempts_refines", "retry_delay_never_overflows",
            # deepening round 2 (NutsProofs.Props.C14Recv): the real receivers' error classification and its composition with notifyNow
            "vcr_outcome_trichotomy", "vcr_handleError_decision", "vcr_transient_is_retried", "vcr_fatal_iff", "vcr_never_incomplete",
            "vcr_context_not_allowed_is_done", "vdr_fatal_iff_not_db", "private_wrap_fatal_iff_not_db", "private_no_error_never_fatal",
            "private_present_is_done", "nats_never_fatal", "fatal_answer_ends_delivery_visibly", "plain_error_keeps_job",
            "vdr_non_db_error_visible_after_one_call", "vdr_db_error_is_retried",
            # deepening round 3 (NutsProofs.Props.C14Vis): a listed failed event stays listed until its completion is recorded (ALL histories), Run leaves parked jobs alone
            "failed_stays_visible_or_completed", "restart_keeps_failed_visible", "restart_leaves_parked_job_alone", "parked_failed_job_stays_listed",
            "restart_never_calls_parked_job", "fact_run_only_reads_calls_and_reschedules", "fact_threshold_below_fatal_mark",
            "calls_bounded_across_restarts", "runCost_le", "rest_row_stays_until_completed",
            # wave 9 (NutsProofs.Props.C14Handler): handleTransactionPayload as a model function; Finished only after WritePayload
            "private_job_removed_only_after_payload_stored", "finished_before_write_loses_the_job", "fact_finished_only_after_write_payload"]


def sel(filters, tx, ty):
    for f in filters:
        if f.get("type") and f["type"] != ty:
            return False
        if f.get("pal") and not tx["pal"]:
            return False
        if f.get("ptype") and f["ptype"] != tx["ptype"]:
            return False
    return True


def typed(filters):
    return any(f.get("type") for f in filters)


def parse_line(line):
    """status|L:..|S:..|F:..|T:.. -> (status, calls, jobs, failed, tasks)"""
    parts = line.split("|")
    if len(parts) != 5:
        return parts[0], [], {}, set(), []
    calls = []
    for x in filter(None, parts[1][2:].split(",")):
        k, ty, ret, out = x.split(":")
        s, r = k.split(".")
        calls.append((int(s), int(r), ty, int(ret), out))   # out may carry the marker "!content"
    jobs = {}
    for x in filter(None, parts[2][2:].split(",")):
        f = x.split(":")
        s, r = f[0].split(".")
        if r == "?":
            continue
        jobs[(int(s), int(r))] = (f[1], int(f[2]), ":".join(f[3:]))
    failed = set()
    for x in filter(None, parts[3][2:].split(",")):
        if "." in x:
            s, r = x.split(".")
            failed.add((int(s), int(r)))
        elif x.startswith("d="):
            failed.add(("diag", int(x[2:])))
    tasks = [x for x in parts[4][2:].split(",") if x]
    return parts[0], calls, jobs, failed, tasks


class History:
    def __init__(self, cfg, reset_op, start):
        self.cfg, self.reset, self.start = cfg, reset_op, start
        self.ops, self.lines = [], []


MAX_RETRIES = 20    # set from the regenerated facts in run()


def oracle(h, threshold):
    """evaluate the property directly on the implementation's output of one history.
    returns list of (signature, text, line index within history)"""
    subs, txs = h.cfg["subs"], h.cfg["txs"]
    nsubs = h.reset["nsubs"]
    out = []
    admitted = {}       # (r, ty) -> index
    dag = set()
    payloads = set()
    evented = set()     # refs whose payload event was created (Add with payload, or a WritePayload)
    completed = {}      # (s, r) -> index of completion
    called = set()      # (s, r) with a non-crash call
    finfail_keys = set()
    loopfault_keys = set()
    types_delivered = {}
    fin_during = set()
    prev_jobs = {}
    last_restart_stopped = False
    seen = set()
    ncalls = Counter()  # (s, r) -> receiver calls that reached the receiver
    any_restart = False
    n_restarts = 0

    def report(sig, text, i):
        if sig not in seen:
            seen.add(sig)
            out.append((sig, text, i))

    for i, (op, line) in enumerate(zip(h.ops, h.lines)):
        status, calls, jobs, failed, tasks = parse_line(line)
        kind = op["op"]
        if "TIMEOUT" in status or status.startswith("bad-op") or status.startswith("err:other"):
            what = "TIMEOUT-" + status.split("TIMEOUT-")[1] if "TIMEOUT-" in status else status.split("(")[0]
            report("C14:harness:" + what, "the implementation did not do what the harness waits for (TIMEOUT-spawn: no retry loop was started after a "
                   f"failed notification; TIMEOUT-fire: a fired loop neither ended nor came back): {line[:200]}", i)
        status = status.split("+TIMEOUT")[0]
        # --- admissions of this line
        if kind == "add" and status in ("ok", "stop"):
            r = op["ref"]
            dag.add(r)
            admitted.setdefault((r, "tx"), i)
            if op.get("payload"):
                admitted.setdefault((r, "payload"), i)
                payloads.add(txs[r]["pnum"])
                evented.add(r)
        if kind == "wp" and (status.startswith("ok") or status == "stop"):
            # the payload of transaction r became available: r gets a payload event - once per TRANSACTION (another
            # transaction with byte-identical payload does not count)
            r = op["ref"]
            if r not in evented:
                admitted.setdefault((r, "payload"), i)
            evented.add(r)
            payloads.add(txs[r]["pnum"])
        # --- calls
        new_events = [(r2, ty2) for (r2, ty2), i2 in admitted.items() if i2 == i]
        if kind in ("add", "wp") and status.startswith("ok"):
            for (r2, ty2) in new_events:
                for s2 in range(nsubs):
                    fl = subs[s2]["filters"]
                    if typed(fl) and sel(fl, txs[r2], ty2) and not any(c[0] == s2 and c[1] == r2 for c in calls):
                        report("C14:committed-event-not-notified", f"{kind} committed the {ty2} event of ref {r2} but {subs[s2]['name']} was not notified after the commit", i)
        for (s, r, ty, ret, o) in calls:
            if o.endswith("!content"):
                o = o[:-len("!content")]
                report("C14:delivered-event-without-its-content", f"subscriber {subs[s]['name']} got the {ty} event of ref {r} without its transaction/payload (retries={ret})", i)
            if r not in dag:
                report("C14:delivered-but-not-admitted", f"subscriber {subs[s]['name']} called for ref {r} which is not on the DAG", i)
            if s < len(subs) and typed(subs[s]["filters"]):
                if not sel(subs[s]["filters"], txs[r], ty):
                    report("C14:delivered-event-not-selected", f"subscriber {subs[s]['name']} called for {ty} event of ref {r} that its filter rejects", i)
                if (s, r) in completed:
                    how = "write-back-recreates-job-finished-during-the-call" if (s, r) in fin_during else (
                        "second-WritePayload-recreates-finished-job" if kind == "wp" or any(
                            o2["op"] == "wp" and o2["ref"] == r for o2 in h.ops[completed[(s, r)] + 1:i + 1]) else "job-recreated-by-" + kind)
                    report("C14:call-after-completion:" + how,
                           f"subscriber {subs[s]['name']} called again for {ty} event of ref {r} (line {h.start + i}) after its completion was recorded (line {h.start + completed[(s, r)]})", i)
            # State.Add / WritePayload notify an event ONCE, right after the commit that saved it: the job is fresh (retries 0).
            # A call from add/wp that sees recorded failures is a SECOND notification of the same event (duplicate payload
            # message): after a fatal error / a spent budget the subscriber must not be called again, and a job that is still
            # retrying must not get a second, parallel retry loop with a fresh budget.
            if s < len(subs) and typed(subs[s]["filters"]) and kind in ("add", "wp") and ret > 0 and o != "readFault":
                when = "after-fatal-error" if ret > MAX_RETRIES else "after-retry-budget-spent" if ret == MAX_RETRIES else "while-still-retrying"
                report("C14:notified-again:" + when,
                       f"{kind} of ref {r} notified subscriber {subs[s]['name']} again for its {ty} event although the job had been attempted before "
                       f"(recorded retries={ret}, budget {MAX_RETRIES}): called {when.replace('-', ' ')}", i)
            if o != "readFault":
                ncalls[(s, r)] += 1
            if o == "doneFinishFail":
                finfail_keys.add((s, r))
            # a storage fault of the notifier itself INSIDE a running retry loop: the loop must go on (one attempt spent)
            if o in ("readFault", "notDoneWriteFail", "failWriteFail") and kind == "fire":
                loopfault_keys.add((s, r))
            if o == "notDoneFin":   # Finished() ran (and deleted the job) while the receiver was running: completion is on record
                completed.setdefault((s, r), i)
                fin_during.add((s, r))
            if o not in ("crash", "readFault"):
                called.add((s, r))
                types_delivered.setdefault((s, r), set()).add(ty)
        # --- completion records: done calls whose job is gone, Finished from outside that removed a job
        for (s, r, ty, ret, o) in calls:
            o = o.replace("!content", "")
            if o == "done" and (s, r) not in jobs:
                completed.setdefault((s, r), i)
        if kind == "fin" and status == "ok" and (op["s"], op["ref"]) in prev_jobs and (op["s"], op["ref"]) not in jobs:
            completed.setdefault((op["s"], op["ref"]), i)
        if kind == "wp" and status == "ok" and (1, op["ref"]) not in jobs and ((1, op["ref"]) in prev_jobs):
            completed.setdefault((1, op["ref"]), i)
        # --- a job that was visible as failed (recorded failures at/over the threshold) stays visible until a completion of exactly
        #     that (subscriber, transaction) is on record - across restarts too (failed_stays_visible_or_completed, restart_leaves_parked_job_alone)
        for k, pj in prev_jobs.items():
            if pj[1] >= threshold and k not in completed:
                j = jobs.get(k)
                if j is None or j[1] < threshold:
                    report("C14:failed-event-vanished", f"job {subs[k[0]]['name'] if k[0] < len(subs) else k[0]}/{k[1]} was visible as failed (retries={pj[1]}, error class {pj[2]}) and is "
                           f"{'gone from the shelf' if j is None else 'back under the threshold (retries=%d)' % j[1]} after line {h.start + i} ({kind}) although no completion was recorded "
                           "(receiver never answered done, nobody called Finished)", i)
        # --- no loss
        for (r, ty), _ in admitted.items():
            for s in range(nsubs):
                fl = subs[s]["filters"]
                if typed(fl) and sel(fl, txs[r], ty):
                    j = jobs.get((s, r))
                    if not ((j and j[0] == ty) or (s, r) in completed):
                        report("C14:admitted-event-lost", f"admitted {ty} event of ref {r}: subscriber {subs[s]['name']} has neither a job nor a completion record (line {h.start + i}: {kind})", i)
        # --- failed events listing is exactly the jobs at/over the threshold (whenever the harness asked)
        diag = [x[1] for x in failed if x[0] == "diag"]
        failed = {x for x in failed if x[0] != "diag"}
        if diag and diag[0] != len(failed):
            report("C14:diagnostics-failed-events-count", f"the state's diagnostics show failed_events={diag[0]} while GetFailedEvents lists {len(failed)} events {sorted(failed)}", i)
        if kind in ("end", "restart", "reset") and status != "stop":
            want = {k for k, j in jobs.items() if j[1] >= threshold}
            if failed != want:
                report("C14:failed-events-listing", f"GetFailedEvents lists {sorted(failed)} but jobs at/over the threshold are {sorted(want)}", i)
        if kind == "restart":
            last_restart_stopped = status == "stop"
            any_restart = True
        # --- retry budget: without a restart in between (Run replays every job once more) a subscriber is called at most
        #     maxRetries times for one event
        if kind == "end" and not any_restart:
            for (s, r), n in sorted(ncalls.items()):
                if s < len(subs) and typed(subs[s]["filters"]) and n > MAX_RETRIES:
                    report("C14:calls-exceed-retry-budget", f"subscriber {subs[s]['name']} was called {n} times for ref {r} in one run of the node (budget {MAX_RETRIES})", i)
        # --- with restarts: at most one budget per run of the node (calls_bounded_across_restarts: Run replays a job once and
        #     starts at most one loop of maxRetries - Retries - 1 attempts for it)
        if kind == "restart":
            n_restarts += 1
        if kind == "end" and any_restart:
            for (s, r), n in sorted(ncalls.items()):
                if s < len(subs) and typed(subs[s]["filters"]) and n > MAX_RETRIES * (1 + n_restarts):
                    report("C14:calls-exceed-retry-budget", f"subscriber {subs[s]['name']} was called {n} times for ref {r} over {n_restarts} start(s) of the node "
                           f"(budget {MAX_RETRIES} per run of the node: {MAX_RETRIES * (1 + n_restarts)})", i)
        # --- end of history: delivered at least once; what is still on the shelf is visible as failed
        if kind == "end" and not last_restart_stopped and not tasks:
            for (r, ty), _ in admitted.items():
                for s in range(nsubs):
                    fl = subs[s]["filters"]
                    if typed(fl) and sel(fl, txs[r], ty) and (s, r) not in called and (s, r) not in completed:
                        report("C14:never-delivered", f"admitted {ty} event of ref {r} was never delivered to {subs[s]['name']}", i)
            # a persistent subscriber WITHOUT a type filter (the harness's hostile registration; none exists in the source):
            # transaction and payload event share the job key, Save keeps one job - the other event is never delivered
            for s in range(nsubs):
                fl = subs[s]["filters"]
                if typed(fl):
                    continue
                for r in dag:
                    both = (r, "tx") in admitted and (r, "payload") in admitted and sel(fl, txs[r], "tx") and sel(fl, txs[r], "payload")
                    if both and (s, r) not in jobs and (s, r) not in fin_during and len(types_delivered.get((s, r), set())) == 1 \
                            and not any(o2["op"] == "fin" and o2.get("s") == s and o2.get("ref") == r for o2 in h.ops):
                        got = next(iter(types_delivered[(s, r)]))
                        report("C14:subscriber-selecting-both-event-types-keeps-one-job",
                               f"subscriber {subs[s]['name']} (no type filter) selects the transaction and the payload event of ref {r} but only the {got} event was delivered; its single job is finished", i)
            for (s, r), j in jobs.items():
                if j[1] < threshold and j[2] != "ctx" and (s, r) not in finfail_keys and s < len(subs) and typed(subs[s]["filters"]):
                    if (s, r) in loopfault_keys:
                        report("C14:transient-storage-fault-ends-retry-loop-until-restart",
                               f"job {subs[s]['name']}/{r}: a transient storage fault of the notifier inside its running retry loop ended the loop; the job rests with retries={j[1]} (< {threshold}), not retried and not visible as failed until the next restart", i)
                    else:
                        report("C14:undelivered-job-not-visible-as-failed", f"job {subs[s]['name']}/{r} rests with retries={j[1]} (< {threshold}) and no retry pending", i)
        prev_jobs = jobs
    return out


def split_histories(ops, impl):
    cfg, hs, cur = None, [], None
    for i, raw in enumerate(ops):
        if not raw:
            continue
        op = json.loads(raw)
        if op["op"] == "config":
            cfg = op
            continue
        if op["op"] == "reset":
            cur = History(cfg, op, i)
            hs.append(cur)
        if cur is not None:
            cur.ops.append(op)
            cur.lines.append(impl[i] if i < len(impl) else "")
    return cfg, hs


def run(ctx):
    tm, t0 = {}, time.time()
    ctx.cov["phase_seconds"] = tm

    def lap(name):
        nonlocal t0
        tm[name] = round(time.time() - t0, 1)
        t0 = time.time()
    facts = ctx.facts()
    lap("facts")
    thms = ctx.build_and_audit(["NutsProofs.Props.C14", "NutsProofs.Props.C14Ops", "NutsProofs.Props.C14Api", "NutsProofs.Props.C14Recv", "NutsProofs.Props.C14Vis", "NutsProofs.Props.C14Handler"])
    lap("lean-build+audit")
    for r in REQUIRED:
        if not any(t.endswith("Props." + r) for t in thms):
            ctx.oblige("thm-present:" + r, False, "theorem missing or its module does not build")
    ctx.trusted += [
        "modelled, not verified: bbolt/go-stoabs (atomic write transactions, a committed transaction survives a stop, key-ordered iteration), "
        "retry-go's loop (exercised: the real goroutines are stepped by the harness), JSON (un)marshalling of dag.Event, SHA-256",
        "model scope: network/dag notifier.go (Save/Notify/notifyNow/retry/Run/Finished/GetFailedEvents), state.go (Add/WritePayload/saveEvent/notify), "
        "the GetTransaction -> WritePayload -> Finished sequence of transport/v2 handleTransactionPayload (pinned by a fact, replayed by the harness)",
    ]
    ctx.assumptions += [
        "every persistent registration filters on the event type (regenerated fact fact_registrations; a registration without a type filter loses one of the two events: shared_key_witness)",
        "a stop is modelled at the granularity of one bbolt transaction / one receiver call (inside a receiver, before commit, between commit and AfterCommit, at a failed Finished write)",
        "eventual_delivery assumes that from some point on no further stop/storage fault occurs and the receiver does not return the json-ld context-not-allowed error (Run parks such jobs: parked_witness)",
        "real sleeping is not observed: the back-off is tied by facts (retry.Do options) and theorem delay_monotone only",
    ]
    threshold = (facts or {}).get("retriesFailedThreshold", 10)
    global MAX_RETRIES
    MAX_RETRIES = (facts or {}).get("maxRetries", 20)

    binary = ctx.go_test_binary(PKG, HARNESS, "c14")
    if binary is None:
        ctx.oblige("harness-builds", False, ctx.harness_error[-1500:])
        return
    ctx.oblige("harness-builds", True)
    lap("harness-build")
    env = {}
    if ctx.replay and '"o14' in open(ctx.replay, errors="replace").read(4000):
        options_oracle(ctx, binary, facts)     # a replay of the construction-side leg
        return
    if ctx.replay:
        env["VERIF_REPLAY"] = os.path.abspath(ctx.replay)
    else:
        env["VERIF_CORPUS"] = os.path.join(ROOT, "harness", "corpus", "C14")
        env["VERIF_HISTS"] = 2400 if ctx.thorough else 110
        env["VERIF_BASES"] = 90 if ctx.thorough else 10
        env["VERIF_MAXVAR"] = 500 if ctx.thorough else 46
    rc, log, out = ctx.run_harness(binary, "TestVerifC14", env, timeout=3000)
    if rc != 0:
        ctx.oblige("harness-runs", False, "\n".join(l for l in log.split("\n") if "level=audit" not in l)[-1500:])
        return
    ctx.oblige("harness-runs", True)
    ops_p, impl_p, model_p = (os.path.join(out, x) for x in ("ops.jsonl", "impl.out", "model.out"))
    lap("main-harness")
    ok, err = ctx.model("C14", ops_p, model_p)
    ctx.oblige("model-driver-runs", ok, err[-500:])
    impl, model, bad = ctx.compare(impl_p, model_p)
    ops = ctx.read_lines(ops_p)
    cfg, hs = split_histories(ops, impl)
    lap("model")

    # the harness registers exactly the persistent registrations the extractor found in the source
    if cfg and facts and not ctx.replay:
        want = {r["name"]: r for r in facts.get("registrations", []) if r["persistent"]}
        have = {s["name"]: s for s in cfg["subs"] if s["name"] != "untyped"}

        def norm(f):
            return "{ " + ", ".join(x for x in [
                "type := some ." + f["type"] if f.get("type") else "",
                "needPAL := true" if f.get("pal") else "",
                'ptype := some "%s"' % f["ptype"] if f.get("ptype") else ""] if x) + " }"
        same = set(want) == set(have) and all([norm(f) for f in have[n]["filters"]] == want[n]["lean"] for n in want)
        ctx.oblige("harness-registrations=source-registrations", same, f"source {sorted(want)} harness {sorted(have)}")

    # ---- direct property oracle on the implementation's own outputs
    n_viol = 0
    t_shrink = time.time()
    reported = set()
    for h in hs:
        for sig, text, i in oracle(h, threshold):
            known_open = any(k.get("status", "open") == "open" and re.fullmatch(k["signature"], sig) for k in ctx.known)
            if not known_open:
                n_viol += 1
            if sig in reported:     # one replay per kind of failure; the rest is counted
                continue
            reported.add(sig)
            if known_open:          # listed open finding: print the KNOWN-FINDING line, no shrinking, does not fail the run
                ctx.violation(sig, text, "known.jsonl", "")
                continue
            replay = [json.dumps(h.cfg), *[json.dumps(o) for o in h.ops[:i + 1]]]
            if not ctx.replay and time.time() - t_shrink < (240 if ctx.thorough else 40):
                replay = shrink(ctx, binary, h, i, sig, threshold) or replay
            name = re.sub(r"[^A-Za-z0-9]+", "-", sig.split(":", 1)[1])[:60] + ".jsonl"
            ctx.violation(sig, text + f" [history {h.reset.get('hist')} kind {h.reset.get('kind')}]", name, "\n".join(replay) + "\n")
    ctx.oblige("oracle:no-loss/no-call-after-done/only-admitted/at-least-once/failed-visible(impl)", n_viol == 0, f"{n_viol} violations")

    # ---- handler level: the real protocol-v2 handleTransactionPayload on a real state (ties the dag-level re-enactment
    #      of its three steps to the handler; replays the second-payload witness, also across a restart)
    lap("oracle+shrink")
    if not ctx.replay:
        handler_oracle(ctx)
        private_retry_oracle(ctx)
        lap("leg-v2-handler")
        resume_oracle(ctx, binary)
        duplicate_add_oracle(ctx, binary)
        lap("leg-resume+dupadd")
        start_oracle(ctx)
        lap("leg-network-start")
        classification_oracle(ctx)
        receivers_oracle(ctx)
        lap("leg-vcr")
        options_oracle(ctx, binary, facts)
        lap("leg-options")
        api_oracle(ctx, facts)
        lap("leg-rest-listing")

    # ---- real sleeping of the retry loop: never shorter than retryDelay * 2^(1+k) (capped), i.e. growing
    n_timing = 0
    for raw in ops[:40]:
        if raw and '"timing"' in raw:
            op = json.loads(raw)
            gaps, d, k0 = op.get("gapsNs", []), op["dNs"], op.get("k", 0)
            n_timing += 1
            cap = (facts or {}).get("retryMaxDelayNs", 86400 * 10**9)
            short = [k for k, g in enumerate(gaps) if g < min(cap, d * 2 ** (k0 + 1 + k))]
            ctx.oblige(f"oracle:real-backoff-sleeps(d={d}ns,recorded-failures={k0})", len(gaps) >= (6 if k0 == 0 else 3) and not short,
                       f"gaps {gaps} shorter than back-off at attempts {short}" if short else f"{len(gaps)} gaps observed (ns): {gaps}")
            if short:
                ctx.violation("C14:retry-sleep-shorter-than-backoff", f"retry loop with delay {d}ns resumed with {k0} recorded failures slept {gaps} ns; attempts {short} came earlier than retryDelay*2^({k0}+1+n)",
                              "retry-sleep-shorter-than-backoff.jsonl", json.dumps(cfg) + "\n" + raw + "\n")
    ctx.cov["real_timing_loops"] = n_timing

    # ---- correspondence model vs implementation
    if bad:
        i = bad[0]
        detail = f"first differing line {i}\nop   : {ops[i][:600] if i < len(ops) else None}\nimpl : {impl[i][:900] if i < len(impl) else None}\nmodel: {model[i][:900] if i < len(model) else None}"
        ctx.oblige("correspondence:model=impl", False, f"{len(bad)} of {len(impl)} lines differ; " + detail[:700])
        if n_viol == 0:
            h = next((h for h in reversed(hs) if h.start <= i), None)
            if h is not None:
                with open(os.path.join(ctx.replay_dir(), "correspondence.jsonl"), "w") as f:
                    f.write("\n".join([json.dumps(h.cfg), *[json.dumps(o) for o in h.ops[:i - h.start + 1]]]) + "\n")
            ctx.unproved(["correspondence C14 (model.out != impl.out)"], detail + f"\nreplay ops: {ctx.replay_dir()}/correspondence.jsonl")
    else:
        ctx.oblige("correspondence:model=impl", True, f"{len(impl)} lines equal")

    # ---- coverage, measured
    opc, outc, kinds, stops = Counter(), Counter(), Counter(), Counter()
    distinct = set()
    for h in hs:
        kinds[h.reset.get("kind", "?")] += 1
        sig = []
        stopped = delivered = False
        for op, line in zip(h.ops, h.lines):
            st = line.split("|", 1)[0]
            opc[op["op"]] += 1
            if st == "stop":
                stops[op["op"] + (":drop" if op.get("drop") else ":receiver")] += 1
                stopped = True
            if op["op"] == "crash":
                stops["crash-op"] += 1
                stopped = True
            for c in parse_line(line)[1]:
                outc[c[4]] += 1
                delivered = True
            sig.append((op["op"], op.get("s"), op.get("ref"), st))
        if stopped and delivered:
            distinct.add(hash((json.dumps(h.reset.get("beh"), sort_keys=True), tuple(sig))))
    ctx.cov["evaluations"] = len(impl) + sum(ctx.cov.get(k, {}).get("ops", 0) for k in ("options_leg", "api_leg", "receivers_leg", "private_retry_leg"))
    ctx.cov["distinct_nontrivial"] = len(distinct)
    ctx.cov["traces_validated_against_impl"] = len(impl) - len(bad)
    ctx.cov["rule"] = ("histories over a pool of 10 real signed transactions (public/private, did/vc/revocation/other payload types, two roots, two "
                       "transactions with the same payload) against the 5 persistent registrations of the source (+ an untyped hostile one in 15% of random "
                       "histories): Add (with/without payload, verifier reject, payload mismatch, second root, failed commit, AfterCommit dropped), "
                       "handleTransactionPayload steps (GetTransaction/WritePayload/Finished; failed commit, dropped AfterCommit, failed Finished), firing "
                       "of the real retry goroutines one attempt at a time and to exhaustion, Finished from outside, stops, reopen + Run in random "
                       "notifier order; receiver behaviour per (subscriber, ref, attempt) from the PRNG: done / notDone / error / context error / fatal / "
                       "Finished-write failure / panic. enum-* histories enumerate every stop position (between ops, failed commit, dropped AfterCommit, "
                       "inside each receiver call, at each Finished write) of short fault-free base histories. distinct_nontrivial = distinct histories "
                       "with at least one stop and one delivery")
    ctx.cov["input_distribution"] = {"histories": len(hs), "history_kinds": dict(kinds), "ops": dict(opc), "receiver_outcomes": dict(outc), "stops": dict(stops)}
    ctx.cov["samples"] = [ops[2][:300] if len(ops) > 2 else "", impl[2][:300] if len(impl) > 2 else ""]


def handler_oracle(ctx):
    pkg, files, name = HARNESSES[1]
    hb = ctx.go_test_binary(pkg, files, name)
    if hb is None:
        ctx.oblige("handler-harness-builds", False, ctx.harness_error[-1200:])
        return
    d = os.path.join(ctx.scratch, "outh")
    rc, log, out = ctx.run_harness(hb, "TestVerifC14Handler", {}, outdir=d, timeout=300)
    if rc != 0:
        ctx.oblige("handler-harness-runs", False, "\n".join(l for l in log.split("\n") if "level=audit" not in l)[-1200:])
        return
    rows = {}
    for l in ctx.read_lines(os.path.join(out, "handler.out")):
        m = re.match(r"(\S+) err=(.*) calls=\[(.*)\] privateJobs=(\d+) vcsJobs=(\d+)$", l)
        if m:
            rows[m.group(1)] = dict(err=m.group(2), calls=[c for c in m.group(3).split(" ") if c], private=int(m.group(4)), vcs=int(m.group(5)))
    need = ["add-private", "payload-unknown-tx", "payload-mismatch", "payload-1", "payload-2", "restart", "payload-3"]
    if any(k not in rows for k in need):
        ctx.oblige("handler-harness-runs", False, f"missing rows: {[k for k in need if k not in rows]}")
        return
    ok_not_admitted = rows["payload-unknown-tx"]["err"] != "nil" and not rows["payload-unknown-tx"]["calls"] and \
        rows["payload-mismatch"]["err"] != "nil" and not rows["payload-mismatch"]["calls"] and rows["add-private"]["private"] == 1
    ctx.oblige("oracle:handler:payload-for-unknown-tx-or-wrong-hash-not-delivered", ok_not_admitted, str(rows["payload-unknown-tx"]))
    first = rows["payload-1"]
    ok_first = first["calls"] == ["payload:0"] and first["private"] == 0 and first["vcs"] == 0
    ctx.oblige("oracle:handler:payload-delivered-once-and-private-job-finished", ok_first, str(first))
    again = [k for k in ("payload-2", "restart", "payload-3") if rows[k]["calls"] != first["calls"]] if ok_first else []
    ctx.oblige("oracle:handler:no-call-after-completion", not again, f"subscriber called again at {again}: {[rows[k]['calls'] for k in again]}")
    if again:
        wit = os.path.join(ROOT, "harness", "corpus", "C14", "second-writepayload-after-done.jsonl")
        ctx.violation("C14:call-after-completion:second-WritePayload-recreates-finished-job",
                      f"real handleTransactionPayload: vcr_vcs called again after completion at {again} (calls {rows[again[0]]['calls']})",
                      "handler-second-payload.jsonl", open(wit).read() if os.path.exists(wit) else "see harness/inpkg/network/transport/v2/zz_verif_c14_test.go")
    ctx.cov["handler_level_steps"] = len(rows)
    # WritePayload fails while the payload message of an admitted private transaction is handled (wave 9): the private job is the only
    # thing that makes the node ask for the payload again - it may be removed only once the payload is stored (fact_payload_handler_sequence:
    # Finished AFTER WritePayload; model: payload_job_removed_only_after_payload_stored)
    wp = {}
    for l in ctx.read_lines(os.path.join(out, "handler.out")):
        m = re.match(r"wpfail-(\S+) err=(\S+) vcsCalls=(\d+) privateJobs=(\d+) payloadStored=(\S+)$", l)
        if m:
            wp[m.group(1)] = dict(err=m.group(2), vcs=int(m.group(3)), private=int(m.group(4)), stored=m.group(5) == "true")
    need_wp = ["add-private", "payload-write-fails", "restart", "payload-written"]
    if any(k not in wp for k in need_wp):
        ctx.oblige("handler-harness-runs:wpfail", False, f"missing rows: {[k for k in need_wp if k not in wp]}")
    else:
        setup_ok = wp["add-private"]["private"] == 1 and wp["payload-write-fails"]["err"] == "error" and not wp["payload-write-fails"]["stored"]
        ctx.oblige("oracle:handler:wpfail-scenario-reaches-the-failing-write", setup_ok, str(wp))
        lost = [k for k in ("payload-write-fails", "restart") if not wp[k]["stored"] and wp[k]["private"] == 0]
        ok_end = wp["payload-written"]["stored"] and wp["payload-written"]["private"] == 0 and wp["payload-written"]["vcs"] == 1 and wp["payload-written"]["err"] == "nil"
        ctx.oblige("oracle:handler:private-job-removed-only-after-payload-stored", not lost and (ok_end or not setup_ok), str(wp))
        if setup_ok and lost:
            ctx.violation("C14:private-payload-job-removed-before-payload-stored",
                          f"real handleTransactionPayload, WritePayload failed (rolled back) for an admitted private transaction: at {lost} the payload is NOT stored "
                          f"but the 'private' job is gone - completion recorded although the subscriber never completed; the payload is never queried again and "
                          f"its payload event never reaches vcr/vdr/nats. rows: {wp}",
                          "handler-writepayload-fails.txt",
                          "scenario (harness/inpkg/network/transport/v2/zz_verif_c14_test.go, TestVerifC14Handler, block 'wpfail'):\n"
                          "Add(root,payload); Add(privateTx,nil); register persistent notifier on ANOTHER store selecting payload events (its Save fails => WritePayload tx rolls back);\n"
                          "handleTransactionPayload(privateTx,payload) -> error; expect privateJobs=1; close; reopen; Run; expect privateJobs=1; handleTransactionPayload again -> stored, job gone\n"
                          + "\n".join(f"{k}: {wp[k]}" for k in need_wp))
        elif setup_ok and not ok_end:
            ctx.violation("C14:private-payload-job-removed-before-payload-stored", f"after the payload was finally written the private job / delivery is not as expected: {wp['payload-written']}",
                          "handler-writepayload-fails.txt", str(wp))
    # two distinct transactions with byte-identical payloads, through the real handler
    ident = dict(re.findall(r"^identical-(\S+) err=\S+ calls=(\d+)", "\n".join(ctx.read_lines(os.path.join(out, "handler.out"))), re.M))
    want_i = {"add-twin-with-payload": "1", "add-private": "1", "payload-1": "2", "payload-2": "2"}
    ctx.oblige("oracle:handler:identical-payload-each-transaction-gets-its-payload-event", ident == want_i, f"calls {ident}, expected {want_i}")
    if ident != want_i:
        wit = os.path.join(ROOT, "harness", "corpus", "C14", "identical-payload-second-transaction.jsonl")
        sig = "C14:admitted-event-lost" if ident.get("payload-1") == "1" else "C14:call-after-completion:second-WritePayload-recreates-finished-job"
        ctx.violation(sig, f"real handleTransactionPayload, two transactions with identical payload: subscriber calls {ident}, expected {want_i}",
                      "handler-identical-payload.jsonl", open(wit).read() if os.path.exists(wit) else "see harness/inpkg/network/transport/v2/zz_verif_c14_test.go")
    # open finding: the private transaction was admitted when its (identical) payload bytes were already stored: the real
    # handlePrivateTxRetry reports done on "payload present" without WritePayload - its job is gone and no payload
    # subscriber has been called for it; its payload would only be delivered if an unsolicited payload message arrived
    pj = dict(re.findall(r"^identical-(\S+) err=\S+ calls=\d+ privateJobs=(\d+)", "\n".join(ctx.read_lines(os.path.join(out, "handler.out"))), re.M))
    if ident.get("add-private") == ident.get("add-twin-with-payload") and pj.get("add-private") == "0":
        wit = os.path.join(ROOT, "harness", "corpus", "C14", "private-tx-payload-already-stored.jsonl")
        ctx.violation("C14:private-tx-with-already-stored-payload-gets-no-payload-event",
                      "real v2 protocol: private transaction admitted while a transaction with byte-identical payload is already stored: handlePrivateTxRetry "
                      f"finished its job (privateJobs={pj.get('add-private')}) and the payload subscriber was not called for it (calls {ident.get('add-private')})",
                      "private-tx-payload-already-stored.jsonl", open(wit).read() if os.path.exists(wit) else "see harness/inpkg/network/transport/v2/zz_verif_c14_test.go")
    # the real "private" receiver (handlePrivateTxRetry, registered by the real Configure): retry / fatal / done
    want = {"db": "retried", "err": "fatal", "nokeys": "done", "present": "done"}
    got = dict(re.findall(r"^private-(\w+) class=(\w+)", "\n".join(ctx.read_lines(os.path.join(out, "handler.out"))), re.M))
    dlq = dict(re.findall(r"^private-(\w+) class=\w+ dlq=(-?\d+)", "\n".join(ctx.read_lines(os.path.join(out, "handler.out"))), re.M))
    wrong = {k: got.get(k) for k in want if got.get(k) != want[k]}
    if dlq.get("err") != "1":
        wrong["err:not-shown-by-diagnostics(payload_fetch_dlq)"] = dlq.get("err")
    ctx.oblige("oracle:handler:private-receiver-classification(db-error=retried,other=fatal+visible,not-for-us/present=done)", not wrong, str(wrong))
    if wrong:
        ctx.violation("C14:receiver-misclassifies:private", f"real handlePrivateTxRetry: expected {want}, observed {got} (dlq {dlq})",
                      "receiver-classification-private.txt", f"scenario of harness/inpkg/network/transport/v2/zz_verif_c14_test.go: expected {want}, observed {got}, dlq {dlq}\n")


def private_expect(op):
    """the property-side expectation for handlePrivateTxRetry: the first failing step decides; its error is retried only when
    the chain holds a database error, otherwise it is returned under EventFatal (wrapped once more by fmt.Errorf %w);
    payload present / PAL not for us: done"""
    def wrap(c):
        err = ["msg"] + (c if "db" in c else ["fatal"] + c)
        return False, err
    if op.get("perr") is not None:
        done, err = wrap(op["perr"])
    elif op.get("present"):
        done, err = True, None
    elif op.get("derr") is not None:
        done, err = wrap(op["derr"])
    elif op.get("palNil"):
        done, err = True, None
    else:
        return None
    return "recv|done=%s|err=%s|class=%s" % (str(done).lower(), ">".join(err) if err else "-", recv_class(done, err))


def private_retry_oracle(ctx):
    """GENERATED direct calls of the REAL v2 handlePrivateTxRetry (payload present or not, resolver errors as generated Unwrap
    chains, a closed store under IsPayloadPresent) against NutsModel.C14.Receivers.privateRetry and the expectation recomputed here"""
    pkg, files, name = HARNESSES[1]
    hb = ctx.go_test_binary(pkg, files, name)
    if hb is None:
        return  # reported by handler_oracle
    d = os.path.join(ctx.scratch, "outhp")
    rc, log, out = ctx.run_harness(hb, "TestVerifC14PrivateRetry", {}, outdir=d, timeout=300)
    if rc != 0:
        ctx.oblige("private-retry-harness-runs", False, "\n".join(l for l in log.split("\n") if "level=audit" not in l)[-1200:])
        return
    ops_p, impl_p, model_p = (os.path.join(out, x) for x in ("ops.jsonl", "impl.out", "model.out"))
    okm, err = ctx.model("C14", ops_p, model_p)
    impl, model, bad = ctx.compare(impl_p, model_p)
    ops = [json.loads(x) for x in ctx.read_lines(ops_p) if x.strip()]
    wrong = [(i, private_expect(op), line) for i, (op, line) in enumerate(zip(ops, impl)) if line != private_expect(op)]
    classes = {}
    for line in impl:
        k = line.rsplit("|class=", 1)[-1]
        classes[k] = classes.get(k, 0) + 1
    n_perr = sum(1 for o in ops if o.get("perr") is not None)
    ctx.oblige("private-retry-harness-runs", len(ops) > 0 and len(ops) == len(impl) and all(classes.get(k, 0) > 0 for k in ("done", "fail", "fatal")) and n_perr > 0,
               f"{len(ops)} calls ({n_perr} on a closed store), classes {classes}")
    ctx.oblige("oracle:private:handlePrivateTxRetry-on-generated-errors(db-error=retried,other=EventFatal-under-%w,present/not-for-us=done)",
               not wrong, "; ".join(f"op {json.dumps(ops[i])[:160]}: want {w} got {g}" for i, w, g in wrong[:3]))
    if wrong:
        i, w, g = wrong[0]
        ctx.violation("C14:receiver-misclassifies:private", f"real v2 handlePrivateTxRetry, call {json.dumps(ops[i])[:200]}: expected {w}, observed {g}",
                      "receiver-classification-private.jsonl", json.dumps(ops[i]) + "\n")
    ctx.oblige("correspondence:private-retry-model=impl", okm and not bad, f"{len(bad)} of {len(impl)} lines differ" if bad else f"{len(impl)} lines equal")
    if bad and not wrong:
        ctx.unproved(["correspondence C14 handlePrivateTxRetry (Receivers model != impl)"], f"op {json.dumps(ops[bad[0]])[:300]}\nimpl {impl[bad[0]][:300]}\nmodel {model[bad[0]][:300]}")
    ctx.cov["private_retry_leg"] = {"ops": len(ops), "closed_store_calls": n_perr, "classes": classes}


def resume_oracle(ctx, binary):
    """Finished() lands while Run is resuming several jobs of one notifier: Run must re-read the shelf for every job; an
    event whose completion (Finished, or done of its own call) was recorded is not delivered"""
    d = os.path.join(ctx.scratch, "outr")
    rc, log, out = ctx.run_harness(binary, "TestVerifC14Resume", {"VERIF_ROUNDS": 60 if ctx.thorough else 12}, outdir=d, timeout=300)
    if rc != 0:
        ctx.oblige("resume-harness-runs", False, "\n".join(l for l in log.split("\n") if "level=audit" not in l)[-1200:])
        return
    bad, rounds, n_fin_pending = [], 0, 0
    for l in ctx.read_lines(os.path.join(out, "resume.out")):
        m = re.match(r"round=(\d+) jobs=(\d+) run=(\S+) log=(.*)$", l)
        if not m:
            continue
        rounds += 1
        completed, called = set(), set()
        for ev in filter(None, m.group(4).split(",")):
            kind, i = ev.split(":")
            if kind == "call":
                if i in completed:
                    bad.append((m.group(1), i, l))
                called.add(i)
            elif kind == "fin":
                if i not in called:
                    n_fin_pending += 1
                completed.add(i)
            elif kind == "done":
                completed.add(i)
        if m.group(3) != "nil":
            bad.append((m.group(1), "run-error", l))
    ctx.oblige("resume-harness-runs", rounds > 0 and n_fin_pending > 0, f"{rounds} rounds, {n_fin_pending} Finished() calls for jobs the resume loop had not reached yet")
    ctx.oblige("oracle:resume:no-delivery-of-an-event-finished-while-Run-was-resuming", not bad,
               "; ".join(f"round {r}: job {i}" for r, i, _ in bad[:4]))
    if bad:
        r, i, line = bad[0]
        ctx.violation("C14:call-after-completion:Run-delivers-a-stale-snapshot",
                      f"real notifier.Run (round {r}): job {i} was delivered after its completion had been recorded (Finished() during the delivery of an earlier job)",
                      "run-delivers-stale-snapshot.txt", "scenario of TestVerifC14Resume in harness/inpkg/network/dag/zz_verif_c14_test.go (VERIF_SEED=%s), failing round:\n%s\n" % (ctx.seed, line))
    ctx.cov["resume_leg"] = {"rounds": rounds, "finished_before_reached": n_fin_pending}


def duplicate_add_oracle(ctx, binary):
    """two threads admit the same transaction; Add#1 is frozen between its read phase and its write transaction while Add#2
    commits and the subscriber completes the event: Add#1 must admit nothing (each event delivered exactly once)"""
    d = os.path.join(ctx.scratch, "outd")
    rc, log, out = ctx.run_harness(binary, "TestVerifC14DuplicateAdd", {"VERIF_ROUNDS": 40 if ctx.thorough else 8}, outdir=d, timeout=300)
    if rc != 0:
        ctx.oblige("duplicate-add-harness-runs", False, "\n".join(l for l in log.split("\n") if "level=audit" not in l)[-1200:])
        return
    bad, rounds = [], 0
    for l in ctx.read_lines(os.path.join(out, "dup.out")):
        m = re.match(r"round=(\d+) payload=(\w+) restart=(\w+) err1=(\w+) err2=(\w+) afterAdd2=\[nats=(\d+) txsub=(\d+)\] final=\[nats=(\d+) txsub=(\d+)\] jobs=(\d+)$", l)
        if not m:
            continue
        rounds += 1
        want_nats = 1 if m.group(2) == "true" else 0
        ok = m.group(4) == "true" and m.group(5) == "true" and int(m.group(6)) == want_nats and int(m.group(7)) == 1 \
            and int(m.group(8)) == want_nats and int(m.group(9)) == 1 and int(m.group(10)) == 0
        if not ok:
            bad.append((m.group(1), l))
    ctx.oblige("duplicate-add-harness-runs", rounds > 0, f"{rounds} rounds")
    ctx.oblige("oracle:duplicate-add:second-admission-of-a-present-transaction-admits-nothing", not bad, "; ".join(l for _, l in bad[:2]))
    if bad:
        r, line = bad[0]
        ctx.violation("C14:call-after-completion:duplicate-Add-admits-again",
                      f"real State.Add (round {r}): a duplicate Add that had passed its read phase before the transaction was committed ran admission again: subscribers were called again / jobs re-created after completion",
                      "duplicate-add-admits-again.txt", "scenario of TestVerifC14DuplicateAdd in harness/inpkg/network/dag/zz_verif_c14_test.go (VERIF_SEED=%s), failing round:\n%s\n" % (ctx.seed, line))
    ctx.cov["duplicate_add_leg"] = {"rounds": rounds}


def start_oracle(ctx):
    """the REAL Network.Start on a real state: after a (re)start every unfinished job of every persistent subscriber
    has been attempted (ties the model's restart = Run for every notifier to the resume loop of Network.Start)"""
    pkg, files, name = HARNESSES[2]
    sb = ctx.go_test_binary(pkg, files, name)
    if sb is None:
        ctx.oblige("start-harness-builds", False, ctx.harness_error[-1200:])
        return
    d = os.path.join(ctx.scratch, "outs")
    rc, log, out = ctx.run_harness(sb, "TestVerifC14Start", {"VERIF_ROUNDS": 40 if ctx.thorough else 8}, outdir=d, timeout=600)
    if rc != 0:
        ctx.oblige("start-harness-runs", False, "\n".join(l for l in log.split("\n") if "level=audit" not in l)[-1200:])
        return
    rows, bad, n_jobs, kinds = 0, [], 0, Counter()
    wiring, cleanup_bad, n_cleanup = [], [], 0
    for l in ctx.read_lines(os.path.join(out, "start.out")):
        m = re.match(r"round=(\d+) start=(.*?) unfinished=\[(.*?)\] attempted=\[(.*?)\] left=\[(.*?)\] missed=\[(.*?)\] selected=\[(.*?)\] mustremain=\[(.*?)\](?: cleanup=(\S+)/(\S+)/(\S+) removed=\[(.*?)\])?$", l)
        if not m:
            continue
        rows += 1
        unfinished = dict(x.rsplit(":", 1) for x in m.group(3).split(",") if x)
        attempted = dict(x.rsplit(":", 1) for x in m.group(4).split(",") if x)
        n_jobs += len(unfinished)
        for k, r in unfinished.items():
            kinds["never-attempted" if int(r) == 0 else ("below-threshold" if int(r) < 10 else "at/over-threshold")] += 1
        missed = sorted(k for k in unfinished if k not in attempted)
        if m.group(2) != "nil" or missed:
            bad.append((m.group(1), m.group(2), missed, l))
        selected = set(x for x in m.group(7).split(",") if x)
        mustremain = set(x for x in m.group(8).split(",") if x)
        removed = dict(x.rsplit(":", 1) for x in (m.group(12) or "").split(",") if x)
        # Network.Subscribe must hand persistency and the filter through: jobs exactly for selected events, nothing unfinished lost
        lost = sorted(k for k in mustremain if k not in unfinished and k not in removed)
        unselected = sorted(k for k in list(unfinished) + list(attempted) if k not in selected)
        if lost or unselected:
            wiring.append((m.group(1), lost, unselected, l))
        if m.group(9):
            n_cleanup += 1
            target, prefix = m.group(9), m.group(10).replace("_", " ")
            # only events of the named subscriber, at/over the threshold, whose error ("keeps failing") starts with the prefix
            wrong = sorted(k for k, r in removed.items() if not (k.startswith(target + ".") and int(r) >= 10 and "keeps failing".startswith(prefix)))
            if wrong or m.group(11) != "true":
                cleanup_bad.append((m.group(1), target, prefix, wrong, l))
    ctx.oblige("start-harness-runs", rows > 0 and n_jobs > 0, f"{rows} rounds, {n_jobs} unfinished jobs")
    ctx.oblige("oracle:start:every-unfinished-job-attempted-by-Network.Start", not bad,
               "; ".join(f"round {r}: start={e} not attempted {ms}" for r, e, ms, _ in bad[:3]))
    if bad:
        r, e, ms, line = bad[0]
        ctx.violation("C14:restart-does-not-resume-pending-jobs",
                      f"real Network.Start (round {r}, start={e}): unfinished jobs {ms} of persistent subscribers were not attempted after the restart",
                      "restart-does-not-resume-pending-jobs.txt",
                      "scenario of harness/inpkg/network/zz_verif_c14_test.go (VERIF_SEED=%s), failing round:\n%s\n" % (ctx.seed, line))
    ctx.oblige("oracle:start:Network.Subscribe-keeps-persistency-and-filter", not wiring,
               "; ".join(f"round {r}: lost {lo} unselected {un}" for r, lo, un, _ in wiring[:3]))
    if wiring:
        r, lo, un, line = wiring[0]
        ctx.violation("C14:subscription-wiring-loses-or-misroutes-events",
                      f"real Network.Subscribe/WithPersistency/WithSelectionFilter (round {r}): unfinished events without a job {lo}; jobs/deliveries for events the filter rejects {un}",
                      "subscription-wiring.txt", "scenario of harness/inpkg/network/zz_verif_c14_test.go (VERIF_SEED=%s), failing round:\n%s\n" % (ctx.seed, line))
    ctx.oblige("oracle:start:CleanupSubscriberEvents-removes-only-the-named-subscribers-matching-failed-events", not cleanup_bad,
               "; ".join(f"round {r}: cleanup({t},{p!r}) wrongly removed {w}" for r, t, p, w, _ in cleanup_bad[:3]))
    if cleanup_bad:
        r, t, p, w, line = cleanup_bad[0]
        ctx.violation("C14:cleanup-removes-events-it-should-keep",
                      f"real Network.CleanupSubscriberEvents({t!r}, {p!r}) (round {r}) removed {w}: undelivered events vanished instead of staying visible as failed",
                      "cleanup-removes-too-much.txt", "scenario of harness/inpkg/network/zz_verif_c14_test.go (VERIF_SEED=%s), failing round:\n%s\n" % (ctx.seed, line))
    # ---- the clean-up calls against the model (NutsModel.C14.Api.cleanup) + recomputed here: exactly the failed events of the
    #      named subscriber whose error starts with the prefix are gone, everything else is still there
    ops_p, impl_p, model_p = (os.path.join(out, x) for x in ("ops.jsonl", "impl.out", "model.out"))
    if os.path.exists(ops_p):
        okm, err = ctx.model("C14", ops_p, model_p)
        impl, model, badl = ctx.compare(impl_p, model_p)
        cops = [json.loads(x) for x in ctx.read_lines(ops_p) if x.strip()]
        thr = 10
        wrong = []
        for i, (op, line) in enumerate(zip(cops, impl)):
            keep = [j for j in op["jobs"] if not (op["names"][j["s"]] == op["target"] and j["retries"] >= thr
                                                  and op["errText"].get(j["err"], "").startswith(op["prefix"]))]
            want = "clean|true|" + ",".join("%d.%d:%d:%s" % (j["s"], j["r"], j["retries"], j["err"]) for j in keep)
            if line != want:
                wrong.append((i, want, line))
        ctx.oblige("oracle:cleanup:exactly-the-named-subscribers-matching-failed-events-are-removed", not wrong,
                   "; ".join(f"call {i}: want {w[:120]} got {g[:120]}" for i, w, g in wrong[:2]))
        if wrong:
            i, w, g = wrong[0]
            ctx.violation("C14:cleanup-removes-events-it-should-keep" if len(g) < len(w) else "C14:cleanup-leaves-events-it-should-remove",
                          f"real Network.CleanupSubscriberEvents({cops[i]['target']!r}, {cops[i]['prefix']!r}): jobs left {g[:300]}; expected {w[:300]}",
                          "cleanup-result.jsonl", json.dumps(cops[i]) + "\n")
        ctx.oblige("correspondence:cleanup-model=impl", okm and not badl, f"{len(badl)} of {len(impl)} lines differ" if badl else f"{len(impl)} lines equal")
        if badl and not wrong:
            ctx.unproved(["correspondence C14 CleanupSubscriberEvents (Api model != impl)"], f"op {json.dumps(cops[badl[0]])[:600]}\nimpl {impl[badl[0]][:300]}\nmodel {model[badl[0]][:300]}")
        ctx.cov["api_leg_cleanup"] = {"ops": len(cops)}
    ctx.cov["start_leg"] = {"rounds": rows, "unfinished_jobs": n_jobs, "job_states": dict(kinds), "cleanup_calls": n_cleanup}


def classification_oracle(ctx):
    """the REAL vcr ambassador.handleError inside a real persistent notifier: transient errors are retried, the
    context-not-allowed error is done, everything else is fatal = one call, marked failed and listed"""
    pkg, files, name = HARNESSES[3]
    vb = ctx.go_test_binary(pkg, files, name)
    if vb is None:
        ctx.oblige("classification-harness-builds", False, ctx.harness_error[-1200:])
        return
    d = os.path.join(ctx.scratch, "outv")
    rc, log, out = ctx.run_harness(vb, "TestVerifC14Classification", {}, outdir=d, timeout=300)
    if rc != 0:
        ctx.oblige("classification-harness-runs", False, "\n".join(l for l in log.split("\n") if "level=audit" not in l)[-1200:])
        return
    want = {"context.Canceled": "retried", "wrapped-context.Canceled": "retried", "context.DeadlineExceeded": "retried",
            "context-not-allowed": "done", "remote-context-load-failed": "retried", "invalid-credential": "fatal", "jsonld-other-code": "fatal"}
    got = {}
    for l in ctx.read_lines(os.path.join(out, "classification.out")):
        m = re.match(r"(\S+) done=(\w+) err=(\w+) fatal=(\w+) calledAgain=(\w+) onShelf=(\w+) listedFailed=(\w+) failedRetries=(-?\d+)$", l)
        if not m:
            continue
        n, done, err, fatal, again, shelf, listed, fr = m.groups()
        if done == "true" and shelf == "false" and again == "false":
            got[n] = "done"
        elif fatal == "true" and again == "false" and shelf == "true" and listed == "true" and int(fr) > 20:
            got[n] = "fatal"
        elif err == "true" and fatal == "false" and again == "true" and shelf == "true":
            got[n] = "retried"
        else:
            got[n] = "inconsistent(" + l + ")"
    wrong = {k: got.get(k) for k in want if got.get(k) != want[k]}
    ctx.oblige("oracle:vcr:handleError-classification(transient=retried,context-not-allowed=done,other=fatal+listed)", not wrong, str(wrong))
    if wrong:
        ctx.violation("C14:receiver-misclassifies:vcr", f"real vcr ambassador.handleError in a real notifier: expected {[(k, want[k]) for k in wrong]}, observed {wrong}",
                      "receiver-classification-vcr.txt", f"scenario of harness/inpkg/vcr/zz_verif_c14_test.go: expected {want}\nobserved {got}\n")
    ctx.cov["classification_cases"] = len(got)


def recv_class(done, err):
    """notifyNow's reading of a receiver answer (errors.As EventFatal first, then finished)"""
    if err is not None:
        return "fatal" if "fatal" in err else ("failCtx" if err[-1] == "ctx" else "fail")
    return "done" if done else "notDone"


def vcr_expect(c):
    """the property-side expectation for vcr handleError, from the error's Unwrap chain (outermost first): context
    time-outs/cancellations are retried with the error unchanged, context-not-allowed completes, a failed remote-context
    load (the FIRST JSON-LD error of the chain) is retried, everything else is returned under EventFatal"""
    if "canceled" in c or "deadline" in c:
        done, err = False, c
    elif "ctx" in c:
        done, err = True, None
    elif next((x for x in c if x.startswith("ld:")), None) == "ld:remote":
        done, err = False, c
    else:
        done, err = False, ["fatal"] + c
    return "recv|done=%s|err=%s|class=%s" % (str(done).lower(), ">".join(err) if err else "-", recv_class(done, err))


def receivers_oracle(ctx):
    """GENERATED error chains through the REAL vcr ambassador.handleError inside a real persistent notifier: the returned
    (finished, error chain) and how the notifier then recorded the job, against NutsModel.C14.Receivers (vcrHandle, classify)
    and against the expectation recomputed here"""
    pkg, files, name = HARNESSES[3]
    vb = ctx.go_test_binary(pkg, files, name)
    if vb is None:
        ctx.oblige("receivers-harness-builds", False, ctx.harness_error[-1200:])
        return
    d = os.path.join(ctx.scratch, "outvr")
    rc, log, out = ctx.run_harness(vb, "TestVerifC14Receivers", {}, outdir=d, timeout=600)
    if rc != 0:
        ctx.oblige("receivers-harness-runs", False, "\n".join(l for l in log.split("\n") if "level=audit" not in l)[-1200:])
        return
    ops_p, impl_p, model_p = (os.path.join(out, x) for x in ("ops.jsonl", "impl.out", "model.out"))
    okm, err = ctx.model("C14", ops_p, model_p)
    impl, model, bad = ctx.compare(impl_p, model_p)
    ops = [json.loads(x) for x in ctx.read_lines(ops_p) if x.strip()]
    wrong = [(i, vcr_expect(op["cb"]), line) for i, (op, line) in enumerate(zip(ops, impl)) if line != vcr_expect(op["cb"])]
    classes = {}
    for line in impl:
        k = line.rsplit("|class=", 1)[-1]
        classes[k] = classes.get(k, 0) + 1
    ctx.oblige("receivers-harness-runs", len(ops) > 0 and len(ops) == len(impl) and all(classes.get(k, 0) > 0 for k in ("done", "fail", "fatal")),
               f"{len(ops)} error chains, recorded as {classes}")
    ctx.oblige("oracle:vcr:handleError-on-generated-error-chains(transient=same-error-retried,context-not-allowed=done,remote-context=retried,other=EventFatal+failed)",
               not wrong, "; ".join(f"chain {ops[i]['cb']}: want {w} got {g}" for i, w, g in wrong[:3]))
    if wrong:
        i, w, g = wrong[0]
        ctx.violation("C14:receiver-misclassifies:vcr", f"real vcr ambassador.handleError in a real notifier, error chain {'>'.join(ops[i]['cb'])}: expected {w}, observed {g}",
                      "receiver-classification-vcr.jsonl", json.dumps(ops[i]) + "\n")
    ctx.oblige("correspondence:receivers-model=impl", okm and not bad, f"{len(bad)} of {len(impl)} lines differ" if bad else f"{len(impl)} lines equal")
    if bad and not wrong:
        ctx.unproved(["correspondence C14 receivers (Receivers model != impl)"], f"op {json.dumps(ops[bad[0]])[:300]}\nimpl {impl[bad[0]][:300]}\nmodel {model[bad[0]][:300]}")
    ctx.cov["receivers_leg"] = {"ops": len(ops), "distinct": len({tuple(o["cb"]) for o in ops}), "recorded_as": classes}


def options_oracle(ctx, binary, facts):
    """construction side (NutsModel.C14.Options): real state.Notifier / NewNotifier + options, the first statements of Save,
    real notifier.retry on hostile Retries values, the NON-persistent Notify path - each line against the model, plus
    model-free oracles recomputed here from the op"""
    d = os.path.join(ctx.scratch, "outo")
    env = {"VERIF_REPLAY": os.path.abspath(ctx.replay)} if ctx.replay else {}
    rc, log, out = ctx.run_harness(binary, "TestVerifC14Options", env, outdir=d, timeout=900)
    if rc != 0:
        ctx.oblige("options-harness-runs", False, "\n".join(l for l in log.split("\n") if "level=audit" not in l)[-1200:])
        return
    ops_p, impl_p, model_p = (os.path.join(out, x) for x in ("ops.jsonl", "impl.out", "model.out"))
    ok, err = ctx.model("C14", ops_p, model_p)
    ctx.oblige("options-model-driver-runs", ok, err[-500:])
    impl, model, bad = ctx.compare(impl_p, model_p)
    ops = [json.loads(l) for l in ctx.read_lines(ops_p) if l.strip()]
    max_retries = (facts or {}).get("maxRetries", 20)
    default_delay = (facts or {}).get("defaultRetryDelayNs", 10**9)
    kinds, viol = Counter(), []

    def expect_attempts(k):
        return max_retries - (k + 1) if 0 <= k and k + 1 < max_retries else 0

    for i, (op, line) in enumerate(zip(ops, impl)):
        f = line.split("|")
        if "TIMEOUT" in line or "panic" in line or line.startswith("err"):
            viol.append((i, "harness:" + f[-1][:40], line))
            continue
        if op["op"] == "o14new":
            accepted, want_status = {}, []
            for r in op["regs"]:
                if r["name"] in accepted:
                    want_status.append("dup")
                else:
                    want_status.append("ok")
                    accepted[r["name"]] = r["opts"]          # the FIRST registration of a name stays
            if f[1] != ",".join(want_status) or f[3] != "listed=true":
                viol.append((i, "registry:duplicate-name-handling", line))
            rows = [r.split(":") for r in f[2].split(";")] if f[2] else []
            if [r[0] for r in rows] != list(accepted):
                viol.append((i, "registry:registered-notifiers", line))
                continue
            for r in rows:
                name, pers, dbid, delay, nf, shelf, counters, ctxid, kind = r
                o = accepted[name] or []
                dbs = [x["v"] for x in o if x["k"] == "pers"]
                delays = [x.get("v", 0) for x in o if x["k"] == "delay"]
                fs = [x["f"] for x in o if x["k"] == "filter"]
                ctxs = [x["v"] for x in o if x["k"] == "ctx"]
                if (pers == "true") != bool(dbs) or int(dbid) != (dbs[-1] if dbs else 0):
                    viol.append((i, "options:persistency", line))
                if int(delay) != (delays[-1] if delays else default_delay):
                    viol.append((i, "options:retry-delay", line))
                if int(nf) != len(fs) or int(ctxid) != (ctxs[-1] if ctxs else 0) or counters != "true":
                    viol.append((i, "options:filters-context-counters", line))
                if shelf != "_" + name + "_jobs":
                    viol.append((i, "shelf-name", line))
                ev = op["ev"]
                want = "nonPersistent" if not dbs else "differentDB" if dbs[-1] != op["txdb"] else \
                    "proceed" if sel(fs, ev, ev["type"]) else "filtered"
                kinds[want] += 1
                if kind != want:
                    viol.append((i, "save:" + want + "-expected", line))
        elif op["op"] == "o14retry":
            kinds["retry:" + ("loop" if expect_attempts(op["retries"]) else "none")] += 1
            if line != "retry|attempts=%d" % expect_attempts(op["retries"]):
                viol.append((i, "retry-attempts-arithmetic", line))
        elif op["op"] == "o14np":
            beh = lambda k: op["beh"][k] if k < len(op.get("beh", [])) else op["rest"]
            calls = 0
            if op.get("accept"):
                calls = 1
                if beh(0) in ("notDone", "fail"):
                    for k in range(1, 1 + expect_attempts(op["retries"])):
                        calls += 1
                        if beh(k) not in ("notDone", "fail"):
                            break
            kinds["np:calls=" + ("0" if calls == 0 else "1" if calls == 1 else "budget" if calls == max_retries else "some")] += 1
            want = "np|calls=%d|seen=%s|failed=0:<nil>|run=<nil>:0|fin=<nil>" % (calls, op["retries"] if calls else "-")
            if line != want:
                viol.append((i, "non-persistent-notifier", line))
    ctx.oblige("options-harness-runs", len(impl) == len(ops) and len(ops) > 0, f"{len(ops)} ops")
    ctx.oblige("oracle:options/registry/save-kind/retry-arithmetic/non-persistent(impl)", not viol,
               "; ".join(f"op {i}: {w}: {l[:160]}" for i, w, l in viol[:3]))
    if viol:
        i, w, l = viol[0]
        ctx.violation("C14:notifier-construction:" + w,
                      f"real NewNotifier/state.Notifier/Save/retry/Notify (construction-side leg, op {i}): {w}; implementation said: {l[:300]}",
                      "notifier-construction-" + re.sub(r"[^A-Za-z0-9]+", "-", w)[:40] + ".jsonl", json.dumps(ops[i]) + "\n")
    if bad:
        i = bad[0]
        detail = f"first differing line {i}\nop   : {json.dumps(ops[i])[:500] if i < len(ops) else None}\nimpl : {impl[i][:500] if i < len(impl) else None}\nmodel: {model[i][:500] if i < len(model) else None}"
        ctx.oblige("correspondence:options-model=impl", False, f"{len(bad)} of {len(impl)} lines differ; " + detail[:600])
        if not viol:
            with open(os.path.join(ctx.replay_dir(), "correspondence-options.jsonl"), "w") as fh:
                fh.write(json.dumps(ops[i]) + "\n" if i < len(ops) else "")
            ctx.unproved(["correspondence C14 construction side (Options model != impl)"], detail + f"\nreplay: {ctx.replay_dir()}/correspondence-options.jsonl")
    else:
        ctx.oblige("correspondence:options-model=impl", True, f"{len(impl)} lines equal")
    ctx.cov["options_leg"] = {"ops": len(ops), "distribution": dict(kinds)}


def api_oracle(ctx, facts):
    """the REAL api/v1 ListEvents over real notifiers on bbolt: every job at/over the failed threshold is in the answer under its
    subscriber's name (with type, retries, error, hash), nothing else is; against NutsModel.C14.Api.listEvents and recomputed here"""
    pkg, files, name = HARNESSES[4]
    ab = ctx.go_test_binary(pkg, files, name)
    if ab is None:
        ctx.oblige("rest-harness-builds", False, ctx.harness_error[-1200:])
        return
    d = os.path.join(ctx.scratch, "outa")
    rc, log, out = ctx.run_harness(ab, "TestVerifC14ListEvents", {}, outdir=d, timeout=600)
    if rc != 0:
        ctx.oblige("rest-harness-runs", False, "\n".join(l for l in log.split("\n") if "level=audit" not in l)[-1200:])
        return
    ops_p, impl_p, model_p = (os.path.join(out, x) for x in ("ops.jsonl", "impl.out", "model.out"))
    okm, err = ctx.model("C14", ops_p, model_p)
    impl, model, bad = ctx.compare(impl_p, model_p)
    ops = [json.loads(x) for x in ctx.read_lines(ops_p) if x.strip()]
    thr = (facts or {}).get("retriesFailedThreshold", 10)
    wrong, n_listed, n_hidden = [], 0, 0
    for i, (op, line) in enumerate(zip(ops, impl)):
        rows = []
        for s in op["order"]:
            js = sorted((j for j in op["jobs"] if j["s"] == s and j["retries"] >= thr), key=lambda j: j["r"])
            n_listed += len(js)
            rows.append(op["names"][s] + "=[" + ",".join("%d:%s:%d:%s" % (j["r"], j["type"], j["retries"], j["err"]) for j in js) + "]")
        n_hidden += sum(1 for j in op["jobs"] if j["retries"] < thr)
        if line != "list|" + ";".join(rows):
            wrong.append((i, "list|" + ";".join(rows), line))
    ctx.oblige("rest-harness-runs", len(ops) > 0 and n_listed > 0 and n_hidden > 0, f"{len(ops)} listings, {n_listed} failed events, {n_hidden} jobs below the threshold")
    ctx.oblige("oracle:rest:ListEvents-shows-exactly-the-failed-events-of-every-subscriber", not wrong,
               "; ".join(f"listing {i}: want {w[:150]} got {g[:150]}" for i, w, g in wrong[:2]))
    if wrong:
        i, w, g = wrong[0]
        ctx.violation("C14:rest-listing:failed-events-not-shown-as-they-are",
                      f"real api/v1 ListEvents (listing {i}): answered {g[:300]}; the shelves hold {w[:300]}", "rest-listing.jsonl", json.dumps(ops[i]) + "\n")
    ctx.oblige("correspondence:rest-listing-model=impl", okm and not bad, f"{len(bad)} of {len(impl)} lines differ" if bad else f"{len(impl)} lines equal")
    if bad and not wrong:
        ctx.unproved(["correspondence C14 ListEvents (Api model != impl)"], f"op {json.dumps(ops[bad[0]])[:600]}\nimpl {impl[bad[0]][:300]}\nmodel {model[bad[0]][:300]}")
    ctx.cov["api_leg"] = {"ops": len(ops), "failed_events_listed": n_listed, "jobs_below_threshold": n_hidden}


def shrink(ctx, binary, h, upto, sig, threshold):
    """one-pass delta debugging of a failing history: drop ops while the same signature still fires on the real code"""
    ops = h.ops[:upto + 1]
    t0 = time.time()
    budget = 60 if ctx.thorough else 25
    n = [0]

    def fires(cand):
        n[0] += 1
        d = os.path.join(ctx.scratch, f"shrink{n[0]}")
        os.makedirs(d, exist_ok=True)
        p = os.path.join(d, "in.jsonl")
        with open(p, "w") as f:
            f.write("\n".join([json.dumps(h.cfg), *[json.dumps(o) for o in cand]]) + "\n")
        rc, log, out = ctx.run_harness(binary, "TestVerifC14", {"VERIF_REPLAY": p}, outdir=d, timeout=120)
        if rc != 0:
            return None
        o2 = ctx.read_lines(os.path.join(d, "ops.jsonl"))
        i2 = ctx.read_lines(os.path.join(d, "impl.out"))
        _, hs2 = split_histories(o2, i2)
        for hh in hs2:
            for s2, _, i in oracle(hh, threshold):
                if s2 == sig:
                    return hh.ops[:i + 1]
        return None

    cur = fires(ops)
    if cur is None:
        return None
    i = len(cur) - 2
    while i >= 1 and time.time() - t0 < budget:
        cand = cur[:i] + cur[i + 1:]
        got = fires(cand)
        if got is not None:
            cur = got
            i = min(i, len(cur) - 1)
        i -= 1
    # drop behaviour rows that are not needed
    if time.time() - t0 < budget and cur and cur[0]["op"] == "reset":
        used = {(o.get("s"), o.get("ref")) for o in cur}
        slim = dict(cur[0])
        slim["beh"] = [b for b in cur[0].get("beh", []) if b["o"] or b["rest"] != "done"]
        got = fires([slim] + cur[1:])
        if got is not None:
            cur = got
    return [json.dumps(h.cfg), *[json.dumps(o) for o in cur]]
