"""C03 — private keys never leave the key store and are used only by key id.   LEVEL: PARTIAL.
Lean: NutsProofs.Props.C03 over NutsModel.C03.{Kid,KeyStore,Jws} + regenerated facts (KidPattern tree, path construction,
wrapper inventory, SignJWS call order, repo-wide inventory of functions touching private-key typed values).
Correspondence (three in-package harnesses on the real code): key-name validation + real fs backend, Vault path shape,
key store state machine + header handling. Exploration (labelled): canary scan of every reachable output channel."""
import json, os, posixpath, re, shutil
from collections import Counter

HARNESSES = [
    ("crypto/storage/fs", ["crypto/storage/fs/zz_verif_c03_test.go", "crypto/storage/fs/zz_verif_c03pem_test.go"], "c03fs"),
    ("crypto/storage/vault", ["crypto/storage/vault/zz_verif_c03_test.go"], "c03vault"),
    ("crypto", ["crypto/zz_verif_c03_test.go", "crypto/zz_verif_c03cfg_test.go"], "c03ks"),
    ("crypto/storage/external", ["crypto/storage/external/zz_verif_c03_test.go"], "c03ext"),
    ("crypto/api/v1", ["crypto/api/v1/zz_verif_c03_test.go", "crypto/api/v1/zz_verif_c03b_test.go"], "c03api"),
    ("crypto/cmd", ["crypto/cmd/zz_verif_c03_test.go"], "c03exp"),
]
PKG, HARNESS = HARNESSES[2][0], HARNESSES[2][1]   # crypto (ks)
PARTS = {"c03fs": "fs", "c03vault": "vault", "c03ks": "ks", "c03api": "api", "c03ext": "ext", "c03exp": "exp"}

REQUIRED = [
    "kid_confined", "kid_confined_vault", "valid_kid_bytes", "kid_pattern_language", "uuid_names_confined",
    "backend_names_valid_or_drawn", "key_material_does_not_flow", "fact_uuid_bytes_allowed",
    "error_text_independent_of_key_material", "fact_no_key_variable_formatted",
    "signjwt_no_private_jwk", "fact_signjwt_guard", "sign_audit_ignores_jwk_header", "pattern_alone_does_not_confine_vault",
    "wrapper_validates_all_kid_methods", "unknown_kid_never_signs", "sign_only_by_reference",
    "backend_touched_only_at_valid_or_new_names", "keyref_binding", "signature_verifies_with_published_key_only",
    "signjws_no_private_jwk", "store_signjws_headers", "store_key_as_jwk_header_refused", "signjws_rule_is_signer_typed",
    "api_surface_by_kid", "private_key_typed_results_pinned",
    "fact_kid_pattern", "fact_dot_names_refused", "fact_fs_entry_types_plain", "fact_vault_path_name_plain",
    "fact_fs_path_construction", "fact_vault_path_construction", "fact_vault_methods_use_key_path", "fact_vault_path_name", "fact_every_backend_wrapped",
    "fact_new_key_name_is_uuid_and_validate_shape", "fact_key_lookups", "fact_store_key_types_are_signers",
    "fact_signjws_sequence", "fact_inventory_nontrivial",
    # deepening round: REST wrapper composed with the key store (NutsProofs.Props.C03Api)
    "fact_api_validate_checks", "fact_api_status_table", "fact_api_handler_steps", "api_signjws_200_only_by_key_id",
    "api_signjwt_200_only_by_key_id", "api_unknown_kid_is_400", "api_invalid_request_independent_of_store", "api_decrypt_200_only_by_key_id",
    "fact_dpop_sign_overwrites_jwk", "dpop_jwk_is_signing_key",
    "api_sign_response_independent_of_key_material", "fact_fs_list_callback",
    # deepening round 2: backend wiring (NutsProofs.Props.C03Cfg)
    "fact_configure_switch_shape", "fact_every_setup_wraps_ctor_result", "fact_storage_types", "fact_backend_constructor_guards",
    "configured_backend_validates", "configured_backend_refuses_invalid_names", "configured_fs_backend_confined",
    "configure_strict_needs_explicit_storage", "configure_default_is_fs", "configure_unknown_storage", "configure_backend_kind",
    "configure_failure_keeps_backend", "azure_new_ok", "vault_new_ok",
    # deepening round 3: key export command crypto/cmd fs2vault (NutsProofs.Props.C03Exp)
    "fact_export_loop_shape", "fact_export_error_wording", "fact_fs2vault_target_wrapped", "fact_export_uses_the_nodes_validation", "wrappedSave_gated", "wrappedPut_gated",
    "export_lists_only_listed_names", "export_target_entries_valid_and_faithful", "export_output_independent_of_key_material",
    "fs2vault_new_entries_confined", "export_target_keeps_names", "export_success_means_all_listed_present", "wrappedSave_dup", "wrappedPut_dup",
    "fact_memory_signer_kid_guards", "memory_signer_signs_only_for_own_key_id", "memory_signer_jwt_refuses_foreign_kid", "fact_pem_switch_tables", "pem_signer_only_from_private_block", "pem_public_decoder_refuses_private_blocks", "pem_other_block_is_nil_without_error",
    "fact_external_name_to_path", "external_target_confined", "external_valid_name_not_dot_segment", "fs_list_roundtrip", "fs_listed_name_shape", "fs_list_separator_not_checked",
]

STORE_KEY_JWKS = {"ecPriv", "ec384Priv", "rsaPriv", "edPriv"}   # JWK kinds of the key types a key store can hold


def unhex(s):
    return bytes.fromhex(s)


def go_clean(p: bytes) -> bytes:
    """path/filepath.Clean (unix), reference used by the direct oracle"""
    if p == b"":
        return b"."
    rooted = p.startswith(b"/")
    out = []
    for c in p.split(b"/"):
        if c in (b"", b"."):
            continue
        if c == b"..":
            if out and out[-1] != b"..":
                out.pop()
            elif not rooted:
                out.append(c)
            continue
        out.append(c)
    s = b"/".join(out)
    if rooted:
        return b"/" + s
    return s or b"."


def run(ctx):
    ctx.level = "partial"
    ctx.facts()
    thms = ctx.build_and_audit(["NutsProofs.Props.C03", "NutsProofs.Props.C03Api", "NutsProofs.Props.C03Cfg", "NutsProofs.Props.C03Exp"])
    for r in REQUIRED:
        if not any(t.endswith("Props." + r) for t in thms):
            ctx.oblige("thm-present:" + r, False, "theorem missing or its module does not build")
    ctx.notes.append("LEVEL partial: proved = namespace confinement of key names (fs + vault path shapes), kid<->key binding over all "
                     "histories, jwk-header refusal for every header map, inventory statements over the EXTRACTED call-site facts. "
                     "NOT proved: 'key bytes appear in no output' for code outside the models — covered only by the inventory and the "
                     "canary scan, which is EXPLORATION (sampling of reachable sinks), not proof.")
    ctx.trusted += [
        "modelled, not verified: Go regexp (KidPattern semantics; tied by exhaustive 1-2(-3) byte + generated-name correspondence), "
        "path/filepath Clean/Join/Base (hand model, tied by correspondence on arbitrary byte strings), gorm Save/First on key_reference, "
        "lestrrat-go/jwx Headers.Set typing / jwk.Key.Raw assignability / jws.Sign writing alg, ECIES and JWE decrypt only with the matching key",
        "model scope: crypto/storage/spi {interface.go KidPattern, wrapper.go}, crypto/storage/fs/fs.go path construction + O_EXCL create, "
        "crypto/storage/vault/vault.go privateKeyPath, crypto/crypto.go New/Link/Delete/Migrate/Resolve/Exists/List, crypto/jwx.go getPrivateKey + "
        "SignJWS/SignJWT header handling, crypto/decryptor.go, crypto/dpop.go, crypto/memory.go; dpop.jwkIsPrivateKey / didjwk.rawPrivateKeyOf as decision tables; "
        "deepening round: crypto/api/v1/api.go (validate() x4, SignJwt/SignJws/DecryptJwe handlers, ResolveStatusCode) interpreted from regenerated check lists, crypto/dpop/dpop.go Sign (jwk header derivation over "
        "repeated signing of one token), fs.ListPrivateKeys name parsing, crypto/storage/external/client.go name -> request target (net/url.PathEscape hand model; the generated client's second escape and "
        "encoding/json decoding of request bodies are contracts tied by correspondence)",
        "api_surface_by_kid is a statement about facts produced by a go/ast (name based, import-table resolved) inventory: the extractor is trusted; "
        "values passed through interface{} into third-party code are not followed",
    ]
    ctx.assumptions += [
        "uuid.New() draws a key name that is neither a backend entry nor the key_name of a reference row (FreshHist)",
        "signature scheme: a signature made with key pair k verifies under pub(k) and under no other public key (checked on every signature the harness obtains)",
        "'published for K' = the public key the store returned from New for K, until K is deleted / re-linked (Link has no in-tree caller; Migrate binds legacy key names)",
        "remote backends (Vault, Azure, external API) receive the validated name literally; what a remote server does with percent-escapes is outside the model",
    ]

    corpus = os.path.join(os.path.dirname(os.path.dirname(os.path.abspath(__file__))), "harness", "corpus", "C03")
    outs = {}
    for pkg, files, name in HARNESSES:
        part = PARTS[name]
        binary = ctx.go_test_binary(pkg, files, name)
        if binary is None:
            ctx.oblige(f"harness-builds:{part}", False, ctx.harness_error[-1500:])
            continue
        ctx.oblige(f"harness-builds:{part}", True)
        env = {}
        if ctx.replay:
            env["VERIF_REPLAY"] = os.path.abspath(ctx.replay)
        else:
            env["VERIF_CORPUS"] = corpus
        rc, log, out = ctx.run_harness(binary, "TestVerifC03(Cfg)?" if part == "ks" else "TestVerifC03", env, timeout=3000)
        if rc != 0:
            ctx.oblige(f"harness-runs:{part}", False, log[-1500:])
            continue
        ctx.oblige(f"harness-runs:{part}", True)
        if part == "api":   # exploration only: no ops / model
            cp = os.path.join(out, "api_canary.json")
            can = json.load(open(cp)) if os.path.exists(cp) else {}
            hits = can.get("hits") or []
            ctx.cov["api_tour_canary_scan_EXPLORATION"] = {k: can.get(k) for k in
                                                          ("keys", "canaries", "requests", "statuses", "bytes_scanned", "sinks", "tokens_issued",
                                                           "scanner_positive_control", "sign_jws_200_with_private_jwk_object",
                                                           "tokens_not_bound_to_requested_kid")}
            ctx.cov["api_tour_canary_scan_EXPLORATION"]["hits"] = len(hits)
            ctx.oblige("exploration:api-tour-ran", bool(can.get("scanner_positive_control")) and can.get("requests", 0) > 0, str(can.get("requests")))
            for h in hits[:3]:
                ctx.violation(f"C03:api-canary:{h['Sink']}:{h['Kind'].split(':')[0]}",
                              f"private key material ({h['Kind']}) of key {h['Key']} found in '{h['Sink']}' during the crypto API tour: {h['Context'][:120]}",
                              "api-canary-hit.txt", json.dumps(h))
            if can.get("sign_jws_200_with_private_jwk_object"):
                ctx.violation("C03:api:sign_jws-accepted-private-jwk-header", "POST sign_jws answered 200 for a headers.jwk object carrying d",
                              "api-private-jwk.txt", json.dumps(can.get("statuses")))
            if can.get("tokens_not_bound_to_requested_kid"):
                ctx.violation("C03:api:token-not-signed-by-the-requested-kid", "crypto API returned a token that does not verify with exactly the requested kid's key: "
                              + "; ".join(can.get("tokens_not_bound_examples") or []), "api-token-binding.txt", json.dumps(can.get("tokens_not_bound_examples")))
            ctx.oblige("oracle:api-tokens-bound-to-requested-kid(impl)", not can.get("tokens_not_bound_to_requested_kid"), str(can.get("tokens_not_bound_to_requested_kid")))
            ctx.oblige("exploration:api-tour-no-hit", not hits and not can.get("sign_jws_200_with_private_jwk_object"), f"{len(hits)} hits")
            if not os.path.exists(os.path.join(out, "api_ops.jsonl")):
                ctx.oblige("harness-runs:api-model-leg", False, "api_ops.jsonl missing")
                continue
        ops_p, impl_p, model_p = (os.path.join(out, f"{part}_{x}") for x in ("ops.jsonl", "impl.out", "model.out"))
        ok, err = ctx.model("C03", ops_p, model_p)
        ctx.oblige(f"model-driver-runs:{part}", ok, err[-500:])
        impl, model, bad = ctx.compare(impl_p, model_p)
        ops = ctx.read_lines(ops_p)
        outs[part] = (ops, impl, model, bad, out)
        if part == "ks":   # the wiring leg is a second test function of the same binary
            cops, cimpl, cmodel = (os.path.join(out, f"cfg_{x}") for x in ("ops.jsonl", "impl.out", "model.out"))
            if not os.path.exists(cops):
                ctx.oblige("harness-runs:cfg", False, "cfg_ops.jsonl missing")
            else:
                ok, err = ctx.model("C03", cops, cmodel)
                ctx.oblige("model-driver-runs:cfg", ok, err[-500:])
                impl, model, bad = ctx.compare(cimpl, cmodel)
                outs["cfg"] = (ctx.read_lines(cops), impl, model, bad, out)

    total = 0
    distinct = set()
    dist = {}
    found_violation = False
    reported = set()
    raw_violation = ctx.violation

    def violation_once(sig, what, name, text, **kw):
        """one replay per signature (the first witness); later witnesses of the same kind are only counted"""
        if sig in reported:
            return False
        reported.add(sig)
        return raw_violation(sig, what, name, text, **kw)
    ctx.violation = violation_once

    def save_replay(name, lines):
        return name, "\n".join(lines) + "\n"

    # ------------------------------------------------------------------ fs: validation + real backend
    if "fs" in outs:
        ops, impl, model, bad, out = outs["fs"]
        total += len(impl)
        kinds = Counter()
        names_acc = names_rej = 0
        esc = 0
        for i, line in enumerate(impl):
            op = json.loads(ops[i]) if i < len(ops) and ops[i] else {}
            k = op.get("op")
            kinds[k] += 1
            if k == "kids":
                bits = line.split(" ", 1)[1] if " " in line else ""
                for n, b in zip(op["names"], bits):
                    distinct.add(("kid", n))
                    if b == "1":
                        names_acc += 1
                    else:
                        names_rej += 1
            elif k == "kidmap":
                distinct.add(("kidmap", op["prefix"]))
            elif k == "pemclass":
                distinct.add(("pem", op.get("der"), op.get("block")))
                # direct oracle on the codec's own answers: a (non-nil) signer comes only out of a private-key block and has a
                # key-store signer type; the public decoder never hands out a private key type nor accepts a private block
                mp = re.fullmatch(r"pemclass priv=(\S+) pub=(\S+)", line)
                PRIV_BLOCKS = ("PRIVATE KEY", "EC PRIVATE KEY", "RSA PRIVATE KEY")
                whyp = None
                if not mp:
                    whyp = "garbage"
                else:
                    pv, pb = mp.group(1), mp.group(2)
                    if pv.startswith("key:") and (op.get("block") not in PRIV_BLOCKS or pv[4:] not in ("*rsa.PrivateKey", "*ecdsa.PrivateKey", "ed25519.PrivateKey")):
                        whyp = "signer-from-a-non-private-block-or-of-a-non-signer-type"
                    elif pb.startswith("key:") and ("Private" in pb or op.get("block") in PRIV_BLOCKS):
                        whyp = "public-decoder-returned-a-private-key"
                    elif op.get("block") in PRIV_BLOCKS and op.get("privParsed", "").startswith("ok:") and op["privParsed"][3:] in ("*rsa.PrivateKey", "*ecdsa.PrivateKey", "ed25519.PrivateKey") \
                            and op.get("der") != "nopem" and pv != "key:" + op["privParsed"][3:]:
                        whyp = "stored-key-not-decoded-back"
                if whyp:
                    found_violation |= ctx.violation("C03:fs:pem-" + whyp, f"DER {op.get('der')} in block {op.get('block')!r}: {line[:160]}", "fs-pem.jsonl", ops[i])
            elif k == "listnames":
                distinct.add(("ls", tuple(op.get("files") or [])))
                # direct oracle: every key file <name>_private.pem of the tree is listed under <name>; every listed name is a
                # proper prefix of a file's base name that ends in the entry type
                ml = re.fullmatch(r"listnames \[([0-9a-fn:,]*)\]", line)
                if not ml:
                    found_violation |= ctx.violation("C03:fs:list-garbage", line[:200], "fs-list.jsonl", ops[i])
                else:
                    listed = [unhex(x[2:]) for x in ml.group(1).split(",") if x.startswith("n:")]
                    bases = [unhex(x).split(b"/")[-1] for x in op.get("files") or []]
                    sfx = b"private.pem"
                    missing = [b_ for b_ in bases if b_.endswith(b"_" + sfx) and len(b_) > len(sfx) + 1 and b_[:-len(sfx) - 1] not in listed]
                    invented = [n for n in listed if not any(b_.endswith(sfx) and b_[:len(b_) - len(sfx) - 1] == n and n for b_ in bases)]
                    if missing or invented or len(listed) != len([b_ for b_ in bases if b_.endswith(sfx) and len(b_) > len(sfx) + 1]):
                        esc += 1
                        found_violation |= ctx.violation("C03:fs:list-%s" % ("misses-a-stored-key" if missing else "invents-a-key-name"),
                                                         f"ListPrivateKeys over files {bases[:8]} returned {listed[:8]} (missing {missing[:3]}, not derived from a file {invented[:3]})",
                                                         "fs-list.jsonl", ops[i])
            elif k == "entrypath":
                distinct.add(("ep", op["dir"], op["kid"]))
            elif k == "save":
                distinct.add(("save", op["kid"]))
                # direct oracle: an accepted name creates exactly one file and its parent is the key directory
                if "LEFT-KEY-MATERIAL-OUTSIDE-KEY-DIR" in line or "SECOND-SAVE-OVERWROTE" in line:
                    esc += 1
                    found_violation |= ctx.violation("C03:fs:failed-save-left-private-key-file-outside-key-dir" if "LEFT-KEY" in line else "C03:fs:second-save-overwrote-key",
                                                     f"SavePrivateKey for name {op['kid']} (hex) under a fault (name taken / key directory gone) returned an error but left a PEM private key "
                                                     f"outside the key store directory (TMPDIR is watched): {line[:240]}", "fs-key-outside-store.jsonl", ops[i])
                elif line.startswith("save ok"):
                    m = re.fullmatch(r"save ok file=keys/([0-9a-f]+)", line)
                    if not m:
                        esc += 1
                        found_violation |= ctx.violation("C03:fs:accepted-key-name-addresses-storage-outside-key-dir",
                                                         f"wrapper accepted key name {op['kid']} (hex) and the fs backend answered: {line[:200]}",
                                                         "fs-escape.jsonl", ops[i])
                elif "BUT-FILES-CHANGED" in line:
                    esc += 1
                    found_violation |= ctx.violation("C03:fs:refused-key-name-changed-files", line[:200], "fs-refused-changed.jsonl", ops[i])
            if "panic:" in line:
                found_violation |= ctx.violation("C03:fs:panic", line[:200], "fs-panic.jsonl", ops[i])
        ctx.oblige("oracle:fs-accepted-names-stay-in-key-dir(impl)", esc == 0, f"{esc} escapes")
        dist["fs"] = {"ops": dict(kinds), "generated_names_accepted": names_acc, "generated_names_refused": names_rej,
                      "exhaustive_prefix_maps": kinds.get("kidmap", 0), "strings_in_exhaustive_maps": kinds.get("kidmap", 0) * 256}

    # ------------------------------------------------------------------ vault path shape
    if "vault" in outs:
        ops, impl, model, bad, out = outs["vault"]
        total += len(impl)
        esc = acc = 0
        for i, line in enumerate(impl):
            op = json.loads(ops[i]) if i < len(ops) and ops[i] else {}
            distinct.add(("vault", op.get("prefix"), op.get("kid")))
            if op.get("op") == "vaultuse":
                # direct oracle: every path the REAL vault backend sent to the client for this name is <clean prefix>/nuts-private-keys/<name>;
                # a refused name reaches the client with no path at all
                mu = re.fullmatch(r"vaultuse res=(\S+) paths=\[([0-9a-f,]*)\] left=(\d+)", line)
                if not mu:
                    found_violation |= ctx.violation("C03:vault:panic-or-garbage", line[:200], "vault-garbage.jsonl", ops[i])
                    continue
                pfx, kid = unhex(op["prefix"]), unhex(op["kid"])
                base = go_clean(pfx)
                want = (b"/" if base == b"/" else (b"" if base == b"." else base + b"/")) + b"nuts-private-keys/" + kid
                seen = [unhex(x) for x in mu.group(2).split(",") if x]
                refused = mu.group(1).startswith("invalid-key-id")
                if (refused and seen) or (not refused and (any(p_ != want for p_ in seen) or b"/" in kid or kid in (b".", b".."))):
                    esc += 1
                    found_violation |= ctx.violation("C03:vault:backend-method-addresses-path-outside-namespace",
                                                     f"key name {kid!r} (refused={refused}), prefix {pfx!r}: Vault client saw {seen[:4]}, expected only {want!r}",
                                                     "vault-method-escape.jsonl", ops[i])
                if not refused and mu.group(1) != "ok,ok/true,ok/true,ok":
                    found_violation |= ctx.violation("C03:vault:accepted-name-not-stored-and-found-under-its-own-path", line[:200], "vault-roundtrip.jsonl", ops[i])
                acc += 0 if refused else 1
                continue
            m = re.fullmatch(r"vaultpath acc=([01]) ([0-9a-f]*)", line)
            if not m:
                found_violation |= ctx.violation("C03:vault:panic-or-garbage", line[:200], "vault-garbage.jsonl", ops[i])
                continue
            if m.group(1) == "1":
                acc += 1
                pfx, kid, path = unhex(op["prefix"]), unhex(op["kid"]), unhex(m.group(2))
                base = go_clean(pfx)
                want = (b"" if base == b"." else base.rstrip(b"/") + b"/") + b"nuts-private-keys/" + kid
                if base == b"/":
                    want = b"/nuts-private-keys/" + kid
                if path != want or b"/" in kid or kid in (b".", b".."):
                    esc += 1
                    sig = "C03:vault:accepted-key-name-addresses-path-outside-namespace"
                    found_violation |= ctx.violation(sig, f"wrapper accepts key name {kid!r}; vault path for prefix {pfx!r} is {path!r}, expected {want!r}",
                                                     "vault-escape.jsonl", ops[i])
        ctx.oblige("oracle:vault-accepted-names-stay-in-namespace(impl)", esc == 0, f"{esc} escapes")
        dist["vault"] = {"ops": len(impl), "accepted": acc}

    # ------------------------------------------------------------------ key store + headers + canary
    if "ks" in outs:
        ops, impl, model, bad, out = outs["ks"]
        total += len(impl)
        kinds = Counter()
        published = {}
        bound = set()       # kids that MAY have a reference row according to the implementation's own answers (over-approximation)
        surely_bound = set()  # kids that certainly have one: New / Link succeeded and no Delete since
        seq_names = set()   # key names drawn in this sequence (Migrate may bind them as kids)
        seq_start = 0
        unknown_used = 0
        bind_bad = multi = hdr_bad = 0
        signs_ok = 0
        hdr_feat = Counter()
        audit_events = Counter()
        err_texts = Counter()
        for i, line in enumerate(impl):
            op = json.loads(ops[i]) if i < len(ops) and ops[i] else {}
            k = op.get("op")
            kinds[k] += 1
            ma = re.search(r" audit=\[(.*)\]$", line)
            if ma:
                line = line[:ma.start()]
                for ev in filter(None, ma.group(1).split(";")):
                    audit_events[ev.split(":", 1)[0]] += 1
            if ma and "UNEXPECTED-FIELDS" in ma.group(1):
                found_violation |= ctx.violation("C03:audit:%s-record-carries-extra-fields" % k,
                                                 f"audit record of {k} has fields beyond actor/operation/event/module: {ma.group(1)[:200]}",
                                                 "audit-extra-fields.jsonl", ops[i] if k in ("signjws", "signjwt") else "\n".join(ops[seq_start:i + 1]))
            if k == "new" and line.startswith("new ok") and op.get("kid") in surely_bound:
                found_violation |= ctx.violation("C03:ks:new-silently-repointed-an-existing-kid",
                                                 f"New for kid {op.get('kid')!r}, which already had a key reference, succeeded: the kid now signs with another key than the one published before ({line[:100]})",
                                                 "ks-new-repoints-kid.jsonl", "\n".join(ops[seq_start:i + 1]))
            me = re.search(r' err="(.*)"', line)
            if me:
                err_texts[re.sub(r"[0-9a-f]{8}-[0-9a-f-]{27}", "UUID", me.group(1))[:60]] += 1
                line = line[:me.start()] + line[me.end():]
            distinct.add(("ks", ops[i] if k in ("signjws", "signjwt", "jwkclass") else (k, op.get("kid"), op.get("keyName"), op.get("how"), i - seq_start)))
            if "panic:" in line:
                found_violation |= ctx.violation("C03:ks:panic", line[:200], "ks-panic.jsonl", "\n".join(ops[seq_start:i + 1]))
            if k == "reset":
                published, bound, surely_bound, seq_names, seq_start = {}, set(), set(), set(), i
            elif k == "new":
                seq_names.add(op.get("keyName"))
                m = re.match(r"new ok kid=(.*) name=\S+ ver=\S+ key=K(\d+)", line)
                if m:
                    published[op.get("kid")] = int(m.group(2))
                    bound.add(op.get("kid"))
                    surely_bound.add(op.get("kid"))
            elif k in ("link", "delete"):
                if line.endswith(" ok") or k == "delete":
                    published.pop(op.get("kid"), None)
                if k == "link" and line.endswith(" ok"):
                    bound.add(op.get("kid"))
                    surely_bound.add(op.get("kid"))
                if k == "delete":
                    bound.discard(op.get("kid"))
                    surely_bound.discard(op.get("kid"))
            elif k == "plant":
                if line.startswith("plant ok"):
                    seq_names.add(op.get("keyName"))
            elif k == "migrate":
                for n in seq_names:      # Migrate (re)binds kids that equal a key name: whatever New published for such a kid is void
                    published.pop(n, None)
                bound |= seq_names  # binds only kids equal to key names (uuids of orphan keys); never a kid New published
            if k in ("sign", "resolve", "decrypt", "decryptjwe") and re.match(r"\S+( \S+)? ok", line) and op.get("kid") not in bound:
                unknown_used += 1
                found_violation |= ctx.violation("C03:ks:%s-succeeded-for-a-kid-without-key-reference" % k,
                                                 f"{k} for kid {op.get('kid')!r} succeeded although no New/Link/Migrate bound that kid in this history: {line[:120]}",
                                                 "ks-unknown-kid.jsonl", "\n".join(ops[seq_start:i + 1]))
            if "RETURNED-NON-PUBLIC-KEY" in line:
                found_violation |= ctx.violation("C03:ks:%s-returned-a-private-key-as-public-key" % k,
                                                 f"{k} handed out a non-public key value to its caller (callers publish it in DID documents): {line[:200]}",
                                                 "ks-private-as-public.jsonl", "\n".join(ops[seq_start:i + 1]))
            if "JWK-HEADER-" in line:
                found_violation |= ctx.violation("C03:ks:%s-token-jwk-header-%s" % (op.get("how", k), "has-secret" if "SECRET" in line else "not-signing-key"),
                                                 f"token signed for kid {op.get('kid')!r}: {line[:220]}",
                                                 "ks-token-jwk-header.jsonl", "\n".join(ops[seq_start:i + 1]))
            if k in ("signjws", "signjwt") and op.get("found") is False and re.search(r" ok kid=", line):
                found_violation |= ctx.violation("C03:%s:%s-signed-for-a-kid-it-does-not-hold" % (k, op.get("via")),
                                                 f"{op.get('via')} signer produced a token for kid {op.get('kid')!r} which it does not hold: {line[:160]}",
                                                 "sign-for-foreign-kid.jsonl", ops[i])
            if k == "dpopseq":
                # every proof of the sequence: verifies with exactly one key, its jwk header is THAT key's public JWK, no secret member,
                # and the kid it was requested for may have a reference row
                for kid_, part in zip(op.get("kids") or [], re.sub(r" audit=\[.*\]$", "", impl[i])[len("dpopseq "):].split(" | ")):
                    mp = re.match(r"ok verifies=\[(.*?)\] jwk=(\S+) secret=([01])", part)
                    if not mp:
                        continue
                    signs_ok += 1
                    why = None
                    if mp.group(3) == "1":
                        why = "jwk-header-has-secret-member"
                    elif not re.fullmatch(r"K\d+", mp.group(1)):
                        why = "does-not-verify-with-exactly-one-key"
                    elif mp.group(2) != mp.group(1):
                        why = "jwk-header-is-not-the-signing-key"
                    elif kid_ not in bound:
                        why = "issued-for-a-kid-without-key-reference"
                    elif kid_ in published and mp.group(1) != "K%d" % published[kid_]:
                        why = "not-signed-by-the-key-published-for-kid"
                    if why:
                        bind_bad += 1
                        found_violation |= ctx.violation("C03:ks:dpop-proof-" + why,
                                                         f"the same DPoP token signed for kids {op.get('kids')} (pre-set jwk: {op.get('preset') or 'none'}): proof for {kid_!r}: {part[:160]}",
                                                         "ks-dpop-sequence.jsonl", "\n".join(ops[seq_start:i + 1]))
            if k == "jwkclass":
                jid = op.get("id", "")
                if jid.endswith("Priv") and "didjwk=forbidden-private" not in line:
                    found_violation |= ctx.violation("C03:didjwk:private-jwk-%s-not-refused" % jid, line[:200], "didjwk-private.jsonl", ops[i])
                if jid in STORE_KEY_JWKS and "dpop-private=true" not in line:
                    found_violation |= ctx.violation("C03:dpop:private-jwk-%s-not-refused" % jid, line[:200], "dpop-private.jsonl", ops[i])
            if "KEY-MATERIAL-OUTSIDE-KEY-DIR" in line:
                found_violation |= ctx.violation("C03:ks:%s-left-private-key-file-outside-key-dir" % k,
                                                 f"{k} (key name {op.get('keyName')!r}) left a PEM private key in the system temp dir (TMPDIR is a watched directory): {line[:200]}",
                                                 "ks-key-outside-store.jsonl", "\n".join(ops[seq_start:i + 1]))
            if "DECOY" in line:
                found_violation |= ctx.violation("C03:ks:%s-touched-key-file-outside-key-dir" % k,
                                                 f"{k} for kid {op.get('kid')!r} reached the decoy key file outside the key directory: {line[:160]}",
                                                 "ks-outside-key-dir.jsonl", "\n".join(ops[seq_start:i + 1]))
            # Resolve(K) must hand out the public half of the key that signs for K (adjacent sign/resolve probes of one state)
            if k == "resolve" and i > 0 and '"op":"sign"' in ops[i - 1] and json.loads(ops[i - 1]).get("kid") == op.get("kid"):
                ms, mr = re.search(r" ok verifies=\[(K\d+)\]", impl[i - 1]), re.match(r"resolve ok key=(K\d+)", line)
                if ms and mr and ms.group(1) != mr.group(1):
                    found_violation |= ctx.violation("C03:ks:resolve-returns-another-key-than-the-one-that-signs",
                                                     f"kid {op.get('kid')!r}: signature verifies with {ms.group(1)}, Resolve returns {mr.group(1)}",
                                                     "ks-resolve-vs-sign.jsonl", "\n".join(ops[seq_start:i + 1]))
            if k == "sign":
                m = re.search(r" ok verifies=\[(.*?)\](.*)$", line)
                if m:
                    signs_ok += 1
                    vs = [v for v in m.group(1).split(",") if v]
                    if len(vs) != 1:
                        multi += 1
                        found_violation |= ctx.violation("C03:ks:signature-verifies-with-%d-keys" % len(vs),
                                                         f"token signed for kid {op.get('kid')!r} verifies with {vs}", "ks-verify-count.jsonl",
                                                         "\n".join(ops[seq_start:i + 1]))
                    elif op.get("kid") in published and vs[0] != "K%d" % published[op["kid"]]:
                        bind_bad += 1
                        found_violation |= ctx.violation("C03:ks:signature-not-by-the-key-published-for-kid",
                                                         f"kid {op.get('kid')!r}: New returned K{published[op['kid']]}, signature verifies with {vs[0]}",
                                                         "ks-binding.jsonl", "\n".join(ops[seq_start:i + 1]))
                    if "KID-HEADER=" in m.group(2):
                        found_violation |= ctx.violation("C03:ks:kid-header-differs-from-requested-kid", line[:200], "ks-kid-header.jsonl",
                                                         "\n".join(ops[seq_start:i + 1]))
            elif k in ("signjws", "signjwt"):
                m = re.search(r" ok kid=(.*) jwk=(\S+) secret=([01]) names=", line)
                if m and op.get("via") == "memory" and "memKeyId" in op:
                    # sign only by key id: the in-memory signer issues a token only for its key's OWN id, carrying that id,
                    # made with that key
                    if op.get("kid") != op["memKeyId"] or m.group(1) != op["memKeyId"] or " vk=own" not in line:
                        hdr_bad += 1
                        found_violation |= ctx.violation("C03:ks:memory-signer-signed-for-a-kid-that-is-not-its-keys-id",
                                                         f"in-memory key with id {op['memKeyId']!r} asked to sign for kid {op.get('kid')!r}: {line[:200]}",
                                                         "ks-memory-kid.jsonl", ops[i])
                if m:
                    hdr_feat[f"{k}:ok" + (":jwk" if m.group(2) != "-" else "")] += 1
                    if m.group(3) == "1" and m.group(2) in STORE_KEY_JWKS | {"?"}:
                        hdr_bad += 1
                        found_violation |= ctx.violation(f"C03:{k}:private-jwk-in-signed-header",
                                                         f"{k} produced a token whose jwk header carries private key material: {line[:160]}",
                                                         f"{k}-private-jwk.jsonl", ops[i])
                else:
                    hdr_feat[k + ":" + line.split(" ", 2)[-1][:40]] += 1
            elif k == "new" and ("KEYNAME-" in line):
                found_violation |= ctx.violation("C03:ks:new-key-name-not-a-fresh-uuid-file", line[:200], "ks-keyname.jsonl", "\n".join(ops[seq_start:i + 1]))
        ctx.oblige("oracle:signature-verifies-with-exactly-the-published-key(impl)", bind_bad == 0 and multi == 0,
                   f"{bind_bad} wrong key, {multi} not exactly one verifying key, of {signs_ok} signatures")
        ctx.oblige("oracle:signjws-never-emits-store-type-private-jwk(impl)", hdr_bad == 0, f"{hdr_bad}")
        ctx.oblige("oracle:no-key-use-for-unknown-kid(impl)", unknown_used == 0, f"{unknown_used}")
        dist["keystore"] = {"ops": dict(kinds), "signatures_checked": signs_ok, "audit_records_compared": dict(audit_events),
                            "error_texts_compared": dict(err_texts.most_common(10)), "planted_key_types": dict(Counter(json.loads(o).get("ktype") for o in ops if '"op":"plant"' in o)), "header_outcomes": dict(hdr_feat.most_common(12))}

        # ---- canary scan (EXPLORATION)
        cp = os.path.join(out, "ks_canary.json")
        if os.path.exists(cp):
            can = json.load(open(cp))
            hits = can.get("hits") or []
            ctx.cov["canary_scan_EXPLORATION"] = {k: can.get(k) for k in ("keys", "canaries", "bytes_scanned", "sinks", "scanner_positive_control")}
            ctx.cov["canary_scan_EXPLORATION"]["hits"] = len(hits)
            ctx.cov["canary_scan_EXPLORATION"]["what"] = ("private scalars / PKCS8 DER / PEM lines / JWK d of every key the real store generated or was given (ECDSA; RSA D, primes, CRT values; "
                                                          "Ed25519 seed + private bytes), in hex, HEX, base64(std,url,raw), decimal and Go slice print, searched in: return values + errors of every exported crypto API called, "
                                                          "logrus output at trace level, audit records, all SQLite rows, signed tokens (raw + decoded segments), file names")
            ctx.oblige("exploration:canary-scan-ran", bool(can.get("scanner_positive_control")) and (can.get("keys", 0) > 0 or bool(ctx.replay)),
                       f"keys={can.get('keys')} control={can.get('scanner_positive_control')}")
            def seq_ops(key):
                """the op sequence that created the leaked key (key = seq<N>/<file>; N counts resets)"""
                mk = re.match(r"seq(\d+)/", key)
                if not mk:
                    return ops
                n, cur, sel = int(mk.group(1)), 0, []
                for o in ops:
                    if '"op":"reset"' in o:
                        cur += 1
                    if cur == n:
                        sel.append(o)
                return sel or ops
            for h in hits[:5]:
                found_violation |= ctx.violation(f"C03:canary:{h['Sink']}:{h['Kind'].split(':')[0]}",
                                                 f"private key material ({h['Kind']}) of key {h['Key']} found in sink '{h['Sink']}': {h['Context'][:120]}",
                                                 "canary-hit.jsonl", "\n".join(seq_ops(h["Key"])))
            ctx.oblige("exploration:canary-no-hit", not hits, f"{len(hits)} hits")
        else:
            ctx.oblige("exploration:canary-scan-ran", False, "ks_canary.json missing")


    # ------------------------------------------------------------------ external secret-store backend: request targets
    if "ext" in outs:
        ops, impl, model, bad, out = outs["ext"]
        total += len(impl)
        esc = acc = 0
        targets = {}
        for i, line in enumerate(impl):
            op = json.loads(ops[i]) if i < len(ops) and ops[i] else {}
            distinct.add(("ext", op.get("base"), op.get("kid")))
            mx = re.fullmatch(r"extpath res=(\S+) reqs=\[([A-Z0-9a-f:,]*)\]", line)
            if not mx:
                found_violation |= ctx.violation("C03:ext:panic-or-garbage", line[:200], "ext-garbage.jsonl", ops[i])
                continue
            name = unhex(op.get("kid", ""))
            reqs = [x.split(":", 1) for x in mx.group(2).split(",") if x]
            refused = mx.group(1).startswith("invalid-key-id")
            base = op.get("base", "")
            want_dir = (base if base.endswith("/") else base + "/").encode()
            why = None
            if refused and reqs:
                why = "refused-name-reached-the-server"
            for meth, hx in reqs:
                tgt = unhex(hx)
                # direct oracle on the wire: <base dir>secrets/<ONE segment>, no query, no fragment, not a dot segment,
                # and the segment unescaped twice is the name
                seg = tgt[len(want_dir) + len(b"secrets/"):] if tgt.startswith(want_dir + b"secrets/") else None
                if seg is None or b"/" in seg or b"?" in seg or b"#" in seg or seg in (b"", b".", b".."):
                    why = "request-target-outside-the-secrets-namespace"
                else:
                    from urllib.parse import unquote_to_bytes
                    if unquote_to_bytes(unquote_to_bytes(seg)) != name:
                        why = "request-target-names-another-key"
                    prev = targets.setdefault((base, tgt), name)
                    if prev != name:
                        why = "two-key-names-share-a-request-target"
            if why:
                esc += 1
                found_violation |= ctx.violation("C03:ext:" + why, f"key name {name!r}, server path {base!r}: requests {[(m_, unhex(h_)) for m_, h_ in reqs][:4]}",
                                                 "ext-target.jsonl", ops[i])
            acc += 0 if refused else 1
        ctx.oblige("oracle:external-backend-targets-stay-in-secrets-namespace(impl)", esc == 0, f"{esc}")
        dist["external_backend"] = {"ops": len(impl), "accepted": acc, "distinct_targets": len(targets)}

    # ------------------------------------------------------------------ REST wrapper (modelled leg)
    if "api" in outs:
        ops, impl, model, bad, out = outs["api"]
        total += len(impl)
        kinds = Counter()
        outcomes = Counter()
        seq_start = 0
        bound, key_of, relinked = set(), {}, set()
        api_bad = 0
        for i, line in enumerate(impl):
            op = json.loads(ops[i]) if i < len(ops) and ops[i] else {}
            k = op.get("op")
            kinds[k] += 1
            distinct.add(("api", k, op.get("body") or json.dumps([op.get(x) for x in ("kid", "keyName", "hkid", "encFor", "msg", "messageF", "receiver", "receiverF", "headersF", "payloadF", "hdr")]), i - seq_start if k in ("apikey", "apilink") else 0))
            seq = "\n".join(ops[seq_start:i + 1])
            if "panic:" in line or " -1 " in line:
                found_violation |= ctx.violation("C03:api:panic", line[:200], "api-panic.jsonl", seq)
            if k == "reset":
                seq_start, bound, key_of, relinked = i, set(), {}, set()
                continue
            if k == "apikey":
                m = re.match(r"apikey ok kid=(.*) key=K(\d+)$", line)
                if m:
                    bound.add(op.get("kid"))
                    key_of[op.get("kid")] = int(m.group(2))
                continue
            if k == "apilink":
                if line == "apilink ok":
                    bound.add(op.get("kid"))
                    relinked.add(op.get("kid"))
                continue
            ms = re.match(r"\S+ (\d+)", line)
            status = int(ms.group(1)) if ms else -1
            outcomes[f"{k}:{status}"] += 1
            f = {x.get("n"): x.get("f") for x in op.get("flds") or []}
            if k in ("apisignjws", "apisignjwt"):
                must_refuse = f.get("Kid") != "present" or (k == "apisignjws" and (f.get("Headers") in ("absent", "null") or f.get("Payload") in ("absent", "null"))) \
                    or (k == "apisignjwt" and f.get("Claims") != "present")
                if status == 200:
                    mt = re.match(r"\S+ 200 key=(\S+) kid=(.*) jwk=(\S+) names=\[(.*)\]$", line)
                    why = None
                    if must_refuse:
                        why = "request-without-kid-or-required-field-was-signed"
                    elif op.get("kid") not in bound:
                        why = "signed-for-a-kid-without-key-reference"
                    elif not mt:
                        why = "token-not-parseable"
                    elif mt.group(2) != op.get("kid"):
                        why = "kid-header-differs-from-requested-kid"
                    elif mt.group(3) != "-":
                        why = "jwk-header-in-token-signed-through-the-REST-api"
                    elif not re.fullmatch(r"K\d+", mt.group(1)):
                        why = "token-does-not-verify-with-exactly-one-key"
                    elif op.get("kid") in key_of and op.get("kid") not in relinked and mt.group(1) != "K%d" % key_of[op["kid"]]:
                        why = "token-not-signed-by-the-key-published-for-kid"
                    if why:
                        api_bad += 1
                        found_violation |= ctx.violation(f"C03:api:{k[3:]}:{why}", f"POST {k[3:]} body {op.get('body', '')[:300]} -> {line[:200]}", f"api-{k[3:]}.jsonl", seq)
                elif must_refuse and (status != 400 or 'detail="invalid sign request: missing ' not in line):
                    # a request without kid / required member must be refused by validate(), before any key store call
                    api_bad += 1
                    found_violation |= ctx.violation(f"C03:api:{k[3:]}:invalid-request-not-refused-by-validate", f"body {op.get('body', '')[:300]} -> {line[:200]}", f"api-{k[3:]}-validate.jsonl", seq)
                elif not must_refuse and op.get("kid") not in bound and not (status == 400 and "private key not found" in line):
                    api_bad += 1
                    found_violation |= ctx.violation(f"C03:api:{k[3:]}:unknown-kid-not-answered-400-private-key-not-found", f"body {op.get('body', '')[:300]} -> {line[:200]}", f"api-{k[3:]}-unknown.jsonl", seq)
            elif k == "apidecrypt":
                if f.get("Message") == "present" and op.get("msg") == "jwe" and op.get("hkid") and op.get("hkid") not in bound and \
                        not (status == 400 and "private key not found" in line):
                    api_bad += 1
                    found_violation |= ctx.violation("C03:api:decrypt_jwe:unknown-kid-not-answered-400-private-key-not-found", f"{ops[i][:300]} -> {line[:200]}", "api-decrypt-unknown.jsonl", seq)
                if status == 200:
                    why = None
                    if f.get("Message") != "present" or op.get("msg") != "jwe":
                        why = "decrypted-a-message-that-is-no-jwe"
                    elif op.get("hkid") not in bound:
                        why = "decrypted-for-a-kid-without-key-reference"
                    elif line != "apidecrypt 200 key=K%d" % op.get("encFor", -1):
                        why = "plaintext-not-the-one-encrypted-for-that-key"
                    elif op.get("hkid") in key_of and op.get("hkid") not in relinked and key_of[op["hkid"]] != op.get("encFor"):
                        why = "decrypted-with-another-key-than-the-kid's"
                    if why:
                        api_bad += 1
                        found_violation |= ctx.violation(f"C03:api:decrypt_jwe:{why}", f"{ops[i][:300]} -> {line[:200]}", "api-decrypt.jsonl", seq)
            elif k == "apiencval":
                if "HANDLER-DIFFERS" in line or "DOES-NOT-DECODE" in line:
                    found_violation |= ctx.violation("C03:api:encrypt_jwe:handler-and-validate-disagree", line[:300], "api-encval.jsonl", seq)
        ctx.oblige("oracle:api-200-only-by-bound-kid-with-requested-kid-header-no-jwk(impl)", api_bad == 0, f"{api_bad}")
        dist["rest_wrapper"] = {"ops": dict(kinds), "outcomes": dict(outcomes)}

    # ------------------------------------------------------------------ backend wiring: Configure
    if "cfg" in outs:
        ops, impl, model, bad, out = outs["cfg"]
        total += len(impl)
        kinds = Counter()
        cfg_bad = 0
        KIND = {"fs": "*fs.fileSystemBackend", "": "*fs.fileSystemBackend", "vaultkv": "vault.vaultKVStorage",
                "azure-keyvault": "*azure.Keyvault", "external": "*external.APIClient"}
        for i, line in enumerate(impl):
            op = json.loads(ops[i]) if i < len(ops) and ops[i] else {}
            distinct.add(("cfg", ops[i]))
            st, strict, name = op.get("storage"), op.get("strict"), op.get("probe")
            m = re.fullmatch(r"configure res=(ok|err:.*?) backend=(nil|wrapped:(true|false) inner=(\S+) (probe=.*))", line, re.S)
            why = None
            if not m:
                why = "panic-or-garbage"
            else:
                res, installed = m.group(1), m.group(2) != "nil"
                kinds[("ok:" + m.group(4)) if installed else res[:44]] += 1
                if installed and m.group(3) != "true":
                    why = "backend-installed-without-the-validating-wrapper"
                elif installed != (res == "ok"):
                    why = "backend-and-error-disagree"
                elif installed and st not in KIND:
                    why = "unknown-storage-setting-installed-a-backend"
                elif installed and KIND[st] != m.group(4):
                    why = "storage-setting-installed-another-backend-kind"
                elif installed and st == "" and strict:
                    why = "strict-mode-installed-the-default-backend"
                elif not installed and st in KIND and not (st == "" and strict) and op.get("datadir") == "ok" and op.get("vLookup") == "data" \
                        and op.get("vAddr") == "ok" and op.get("extAddr") == "ok" and op.get("azUrl") and op.get("azCred") in ("default", "managed_identity"):
                    why = "healthy-configuration-refused"
                elif installed and name is not None:
                    pr = m.group(5)
                    nb = name.encode()
                    plain = re.fullmatch(rb"[\w:#. %-]+", nb) is not None and nb not in (b".", b"..") and "\n" not in name
                    if pr.startswith("probe=forwarded") and not plain:
                        why = "name-outside-the-namespace-reached-the-configured-backend"
                    elif pr.startswith("probe=refused") and "reqs=0" not in pr:
                        why = "refused-name-caused-a-request"
                    elif "ODD-REQUEST" in pr:
                        why = "request-outside-the-key-namespace"
                    elif pr.startswith("probe=forwarded") and KIND[st] == "*fs.fileSystemBackend" and not pr.endswith(" file=crypto/%s_private.pem" % name):
                        why = "fs-key-file-not-in-datadir/crypto"
            if why:
                cfg_bad += 1
                found_violation |= ctx.violation(f"C03:cfg:{why}", f"Configure(storage={st!r}, strict={strict}) then backend call for name {name!r}: {line[:300]}",
                                                 "cfg-wiring.jsonl", ops[i])
        ctx.oblige("oracle:configured-backend-is-the-validating-wrapper-of-the-configured-kind(impl)", cfg_bad == 0, f"{cfg_bad}")
        dist["configure"] = {"ops": len(impl), "outcomes": {str(k): v for k, v in kinds.most_common(24)}}

    # ------------------------------------------------------------------ key export command (crypto/cmd fs2vault / fsToOtherStorage)
    if "exp" in outs:
        ops, impl, model, bad, out = outs["exp"]
        total += len(impl)
        exp_bad = 0
        ekinds = Counter()
        SUF = b"_private.pem"
        kid_rx = re.compile(rb"(?:[0-9a-zA-Z_\- :#.]|%[0-9a-fA-F]{2})+")

        def safe_entry(nb):
            return kid_rx.fullmatch(nb) is not None and nb not in (b".", b"..")
        for i, line in enumerate(impl):
            op = json.loads(ops[i]) if i < len(ops) and ops[i] else {}
            if line.endswith(" KEY-MATERIAL-IN-OUTPUT"):
                exp_bad += 1
                found_violation |= ctx.violation("C03:exp:key-material-in-command-output-or-error", line[:300], "exp-export.jsonl", ops[i])
                continue
            mx = re.fullmatch(r'(fsexport|fs2vault) keys=\[([0-9a-f,]*)\] err=(-|".*") (target|puts)=\[([0-9A-Za-z:?,]*)\]', line)
            if not mx:
                found_violation |= ctx.violation("C03:exp:panic-or-garbage", line[:200], "exp-garbage.jsonl", ops[i])
                continue
            files = [unhex(x) for x in (op.get("files") or [])]
            content = dict(zip([unhex(x) for x in (op.get("cnames") or [])], (op.get("ckinds") or [])))
            listed = [f.rsplit(b"/", 1)[-1][:-len(SUF)] for f in files if f.rsplit(b"/", 1)[-1].endswith(SUF[1:]) and len(f.rsplit(b"/", 1)[-1]) > len(SUF)]
            pre = [unhex(x) for x in (op.get("pre") or [])]
            exported = [unhex(x) for x in mx.group(2).split(",") if x]
            distinct.add(("exp", tuple(files), tuple(sorted(content.items())), tuple(pre), tuple((op.get("faults") or []))))
            ekinds[mx.group(1) + ":" + ("complete" if mx.group(3) == "-" else mx.group(3)[1:30])] += 1
            why = None
            # the property's clauses on the implementation's own output: (S3) nothing is stored outside the key namespace,
            # (S2/S4) a key is stored only under the name of the file it came from, the command prints names only
            if any(n not in listed for n in exported):
                why = "command-printed-a-name-the-directory-does-not-list"
            if mx.group(4) == "target":
                ents = [x.split(":") for x in mx.group(5).split(",") if x]
                new = [(unhex(h), k) for h, k in ents][len(pre):]
                if [unhex(h) for h, _ in ents][:len(pre)] != pre:
                    why = "existing-target-entry-changed"
                for nb, k in new:
                    if not safe_entry(nb):
                        why = "key-stored-under-a-name-outside-the-key-namespace"
                    elif nb not in listed:
                        why = "key-stored-under-a-name-the-directory-does-not-list"
                    elif "K" + content.get(nb, "?") != k:
                        why = "key-stored-under-another-files-name"
                if sorted(exported) != sorted(nb for nb, _ in new):
                    why = why or "printed-names-differ-from-stored-names"
                if mx.group(3) == "-" and any(n not in [unhex(h) for h, _ in ents] for n in listed):
                    why = why or "command-reported-success-but-a-listed-key-is-not-in-the-target"
            else:
                want_pfx = b"/v1/kv/nuts-private-keys/"
                puts = [x.split(":", 1) for x in mx.group(5).split(",") if x]
                for meth, hx in puts:
                    pth = unhex(hx)
                    seg = pth[len(want_pfx):] if pth.startswith(want_pfx) else None
                    if seg is None or not safe_entry(seg):
                        why = "key-material-sent-to-a-vault-path-outside-the-key-namespace"
                    elif seg not in listed or content.get(seg, "bad") == "bad":
                        why = "key-material-sent-under-a-name-without-a-key-file"
                if sorted(exported) != sorted(unhex(hx)[len(want_pfx):] for _, hx in puts):
                    why = why or "printed-names-differ-from-vault-writes"
                if mx.group(3) == "-" and any(want_pfx + n not in [unhex(hx) for _, hx in puts] for n in listed):
                    why = why or "command-reported-success-but-a-listed-key-was-not-written"
            if why:
                exp_bad += 1
                found_violation |= ctx.violation(f"C03:exp:{why}", f"{mx.group(1)} over files {[f.decode('latin1') for f in files][:8]}: {line[:300]}",
                                                 "exp-export.jsonl", ops[i])
        ctx.oblige("oracle:export-stores-keys-only-under-safe-listed-names-with-their-own-key(impl)", exp_bad == 0, f"{exp_bad}")
        dist["key_export_command"] = {"ops": len(impl), "outcomes": {str(k): v for k, v in ekinds.most_common(12)}}

    # ------------------------------------------------------------------ correspondence
    nbad = 0
    for part, (ops, impl, model, bad, out) in outs.items():
        if bad:
            nbad += len(bad)
            i = bad[0]
            detail = (f"[{part}] first differing line {i}\nop   : {ops[i][:600] if i < len(ops) else None}\n"
                      f"impl : {impl[i][:800] if i < len(impl) else None}\nmodel: {model[i][:800] if i < len(model) else None}")
            ctx.oblige(f"correspondence:{part}:model=impl", False, f"{len(bad)} of {len(impl)} lines differ; " + detail[:700])
            if not found_violation:
                # replay: the sequence the differing op belongs to (key store) or the op alone
                k = i
                if part in ("ks", "api"):
                    while k > 0 and '"op":"reset"' not in ops[k]:
                        k -= 1
                rp = os.path.join(ctx.replay_dir(), f"correspondence-{part}.jsonl")
                with open(rp, "w") as f:
                    f.write("\n".join(ops[k:i + 1]) + "\n")
                ctx.unproved([f"correspondence C03/{part} (model.out != impl.out)"], detail + f"\nreplay ops: {rp}")
        else:
            ctx.oblige(f"correspondence:{part}:model=impl", True, f"{len(impl)} lines equal")

    ctx.cov["evaluations"] = total
    ctx.cov["distinct_nontrivial"] = len(distinct)
    ctx.cov["traces_validated_against_impl"] = total - nbad
    ctx.cov["rule"] = ("(a) validateKID (real spi wrapper + spi.KidPattern) vs the Lean predicate on ALL 1- and 2-byte strings (thorough: 3-byte) as 256-bit maps, "
                       "plus generated names (allowed alphabet, one hostile byte, path shaped, %-escapes valid/invalid, unicode look-alikes, invalid UTF-8, long); "
                       "filepath.Join model vs fs.getEntryPath on arbitrary dir/name bytes; accepted names saved through the real fs backend in a temp dir "
                       "(created file must be the one entry keys/<name>_private.pem, found again and deleted by the same name); vault.privateKeyPath vs model. "
                       "(b) random New/Link/Delete/Migrate/Sign(JWS,JWT,DPoP)/Resolve/Exists/List/Decrypt/DecryptJWE sequences on the real Crypto engine "
                       "(SQLite + fs backend behind the wrapper) vs the Lean state machine; every token verified against ALL public keys the store returned. "
                       "(c) SignJWS/SignJWT header maps (11 JWK kinds, typed/untyped headers) via package function, engine and in-memory signer; DPoP / did:jwk JWK classification. "
                       "(d) REST wrapper crypto/api/v1: generated sign_jwt / sign_jws / decrypt_jwe / encrypt_jwe(validate) bodies (absent/null/empty/present members, JSON header objects with duplicate names, "
                       "private/public JWK objects, forged kid headers, sibling spellings of bound kids, kids linked to names outside the namespace) through echo + strict handler + error handler on a real engine "
                       "vs NutsModel/C03/Api.lean composed with the key store model (status, problem detail, signing key, signed header). "
                       "(e) the same dpop.DPoP signed for 2-3 kids with/without a pre-set (private) jwk header; fs save under faults (name taken, key dir gone) with TMPDIR watched; ListPrivateKeys over generated file trees. "
                       "(f) external secret-store backend behind the wrapper against a recording loopback server: request targets vs pathEscape∘pathEscape model. "
                       "(g) backend wiring: real NewCryptoInstance+Configure for listed / unknown / case- and blank-variant storage settings x strict mode x constructor faults (Vault token lookup data/empty/404/403 "
                       "from a loopback server, bad addresses, data dir that is a file, Azure URL / credential variants), then a call by valid / path-like name on the installed backend, vs NutsModel/C03/Configure.lean interpreting the regenerated switch. "
                       "(h) key export command: real crypto/cmd fsToOtherStorage over generated key directories (hostile / well-formed names, other separators, sub-directories, undecodable files) into a recording backend "
                       "behind the real wrapper (present names, injected failures) and the real cobra command fs2vault against a recording Vault stub, vs NutsModel/C03/Export.lean (loop + wrapper + fs listing + Vault path). "
                       "(i) util.PemToPrivateKey / PemToPublicKey on 10 DER kinds x 9 block types vs NutsModel/C03/Pem.lean interpreting the regenerated switch tables. "
                       "distinct_nontrivial = distinct names / (dir,name) / (prefix,name) / key-store ops by position / header maps")
    ctx.cov["input_distribution"] = dist
    if "fs" in outs and outs["fs"][1]:
        ctx.cov["samples"] = [outs["fs"][1][0][:200]] + ([outs["ks"][1][5][:200]] if "ks" in outs and len(outs["ks"][1]) > 5 else [])
