"""C07 — connected nodes converge to the union of their DAGs despite loss and reordering.
Lean: NutsProofs.Props.C07 over NutsModel.C07 (Types, Dag, Handlers, Net) + regenerated facts.
Correspondence: deterministic in-process simulator in network/transport/v2 (real protocol values, real dag.State on
bbolt, fake connection, handlers called synchronously) against the compiled model on the same schedule."""
import json, os, re
from collections import Counter

PKG = "network/transport/v2"
HARNESS = ["network/transport/v2/zz_verif_c07_test.go", "network/transport/v2/zz_verif_c07_gen_test.go",
           "network/transport/v2/zz_verif_c15_test.go", "network/transport/v2/gossip/zz_verif_export_c07.go",
           "network/transport/v2/zz_verif_c07_disp_test.go", "network/transport/v2/zz_verif_c07_addr_test.go", "network/transport/v2/zz_verif_c07_convlock_test.go",
           "network/transport/grpc/zz_verif_export_c07.go"]

REQUIRED = ["safety_any_schedule", "unsolicited_responses_change_no_dag", "chunks_lossless", "stable_when_equal",
            "pull_round_result", "stuck_both_ways_same", "round_progress", "converges", "stable_after_convergence", "rounds_are_schedules", "range_reply_sorted_prefixclosed",
            "fact_constants", "fact_blockable", "fact_transaction_set_shape", "fact_transaction_list_shape", "fact_gossip_condition",
            "fact_handled_envelopes", "fact_liveness_constants", "fact_dispatch_and_wiring", "chunks_fit_message_limit", "fact_chunk_accounting", "fact_add_mutex_release", "add_mutex_released_on_every_exit", "deferred_once_releases_exactly_once", "hooks_alone_leave_mutex_locked", "fact_gossip_peer_table_keys", "disconnect_removes_queue", "reconnect_gets_fresh_queue", "connect_then_disconnect_leaves_no_entry",
            "iblt_bucket_indices_distinct_in_range", "iblt_subtract_represents_difference", "iblt_decode_contract", "iblt_garbage_and_size_mismatch_err", "modelled_iblt_satisfies_DC", "liveness_hypotheses_with_modelled_iblt",
            "fact_iblt_constants", "fact_iblt_bucket_indices_shape", "fact_iblt_decode_shape", "fact_iblt_bucket_ops",
            "dispatcher_refines_handler_sequence", "dispatcher_safety_any_goroutine_schedule", "full_channel_drop_is_loss", "handle_error_classification",
            "list_handler_drains_in_order", "fact_dispatch_table_routes", "fact_dispatcher_shape",
            "fact_send_gossip_addressing", "fact_send_gossip_query_interpreted", "fact_connection_lookup_shape", "gossip_addressed_to_queue_owner",
            "gossip_reaches_connected_owner", "did_addressing_starves_a_peer", "empty_query_selects_nothing", "addressing_refines_gossip_tick_guard", "gossip_tick_uses_the_lookup",
            "fact_conversation_lock_discipline", "fact_conversation_manager_flows", "conversation_manager_releases_lock_on_every_exit", "refusal_without_unlock_keeps_manager_locked",
            "refusal_needs_live_blocking_conversation", "done_unblocks_peer", "after_done_request_is_accepted", "expiry_unblocks_peer"]


IBLT_PKG = "network/dag/tree"
IBLT_HARNESS = ["network/dag/tree/zz_verif_c07iblt_test.go"]
HARNESSES = [(PKG, HARNESS, "c07"), (IBLT_PKG, IBLT_HARNESS, "c07iblt")]


def is_iblt_replay(path):
    try:
        with open(path) as f:
            head = f.read(400)
        return '"op":"iblt' in head or '"op":"bidx"' in head
    except OSError:
        return False


def run_iblt(ctx):
    """the REAL tree.Iblt (Insert, Marshal/Unmarshal, Subtract, Decode, bucketIndices) vs NutsModel/C07/Iblt.lean + model-free oracles"""
    binary = ctx.go_test_binary(IBLT_PKG, IBLT_HARNESS, "c07iblt")
    if binary is None:
        ctx.oblige("iblt-harness-builds", False, ctx.harness_error[-1500:])
        return
    env = {"VERIF_CORPUS": os.path.join(os.path.dirname(os.path.dirname(os.path.abspath(__file__))), "harness", "corpus", "C07")}
    if ctx.replay:
        env["VERIF_REPLAY"] = os.path.abspath(ctx.replay)
    out = os.path.join(ctx.scratch, "out_iblt")
    rc, log, out = ctx.run_harness(binary, "TestVerifC07Iblt", env, outdir=out, timeout=600)
    if rc != 0:
        ctx.oblige("iblt-harness-runs", False, log[-1500:])
        return
    ops_p, impl_p, model_p = (os.path.join(out, x) for x in ("ops.jsonl", "impl.out", "model.out"))
    ok, err = ctx.model("C07", ops_p, model_p)
    ctx.oblige("iblt-model-driver-runs", ok, err[-500:])
    impl, model, bad = ctx.compare(impl_p, model_p)
    ops = ctx.read_lines(ops_p)
    res_classes, shapes = Counter(), Counter()
    n_bad, n_idx, per_sig = 0, 0, Counter()
    n_cyc = [0]

    def viol(sig, what, i):
        nonlocal n_bad
        n_bad += 1
        per_sig[sig] += 1
        if per_sig[sig] <= 2:
            ctx.violation(sig, what, f"iblt-{sig.split(':')[1]}-{i}.jsonl", ops[i] + "\n")

    def lst(l, key):
        m = re.search(key + r"=\[([^\]]*)\]", l)
        return None if m is None else [x for x in m.group(1).split(",") if x]

    for i, l in enumerate(impl):
        if i >= len(ops) or not ops[i] or ops[i].startswith('{"op":"ibltuni"'):
            continue
        o = json.loads(ops[i])
        if "panic:" in l:
            viol("C07:iblt-panic", f"tree.Iblt panicked: {l[:200]} on {ops[i][:300]}", i)
            continue
        if o["op"] == "bidx":
            n_idx += 1
            idx = [int(x) for x in re.search(r"\[(.*)\]", l).group(1).split(",") if x]
            if o.get("h"):
                n_cyc[0] += 1
            if len(set(idx)) != len(idx) or any(x >= o["n"] for x in idx) or len(idx) != min(6, o["n"]):
                viol("C07:iblt-bucket-indices-malformed", f"bucketIndices for {o['n']} buckets, key {o['v']} / key hash {o.get('h')} = {idx}: must be min(k,n) distinct indices below n "
                     "(Insert and Delete of one key would not cancel / a key would never be pure)", i)
            continue
        if o["op"] != "iblt":
            continue
        cls = "sub=err" if "sub=err" in l else re.search(r"res=(\S+)", l).group(1)
        wellformed = not o["tamper"] and o["pn"] == o["n"] and not o.get("dup")
        res_classes[cls + ("" if wellformed else "(forged)")] += 1
        shapes[o.get("shape", "?")] += 1
        if not wellformed:
            continue
        loc, peer = set(map(str, o["loc"])), set(map(str, o["peer"]))
        rem, mis = lst(l, "rem"), lst(l, "mis")
        if cls in ("sub=err", "loop") or cls.startswith("err"):
            viol("C07:iblt-decode-error-on-wellformed", f"Subtract/Decode of two well-formed IBLTs of {o['n']} buckets errs ({cls}): the receiver of a TransactionSet "
                 f"returns an error instead of falling back to the previous page; loc={o['loc'][:8]} peer={o['peer'][:8]}", i)
        elif cls == "ok":
            if set(mis) != peer - loc or set(rem) != loc - peer or len(mis) != len(set(mis)) or len(rem) != len(set(rem)):
                viol("C07:iblt-decode-inexact", f"Decode succeeded but missing={mis[:8]} remaining={rem[:8]} are not peer-loc={sorted(peer - loc)[:8]} / loc-peer={sorted(loc - peer)[:8]} "
                     f"({o['n']} buckets): transactions the peer has are never requested", i)
        elif cls == "fail":
            if loc == peer:
                viol("C07:iblt-equal-sets-not-decoded", f"equal sets ({len(loc)} keys, {o['n']} buckets) do not decode to the empty difference", i)
            elif not (set(mis) <= peer - loc and set(rem) <= loc - peer):
                viol("C07:iblt-decode-inexact", f"partial decode result is not inside the difference: missing={mis[:8]} remaining={rem[:8]}", i)
    ctx.oblige("oracle:iblt-decode-exact,equal-sets-decode,no-error-on-wellformed,bucket-indices-distinct-in-range(impl)", n_bad == 0, f"{n_bad} problems")
    if not ctx.replay:
        want = ["ok", "fail", "loop(forged)", "sub=err(forged)", "ok(forged)"]
        miss = [w for w in want if res_classes[w] == 0]
        if n_cyc[0] == 0:
            miss.append("bucketIndices on a short cycle of the hash chain (linear probing)")
        ctx.oblige("generator-reaches-the-iblt-outcomes", not miss, f"not reached: {miss}; reached {dict(res_classes)}")
    if bad:
        i = bad[0]
        detail = f"IBLT leg: first differing line {i}\nop   : {ops[i][:600] if i < len(ops) else None}\nimpl : {impl[i][:600] if i < len(impl) else None}\nmodel: {model[i][:600] if i < len(model) else None}"
        ctx.oblige("correspondence:iblt-model=impl", False, f"{len(bad)} of {len(impl)} lines differ; " + detail[:900])
        if n_bad == 0:
            with open(os.path.join(ctx.replay_dir(), "iblt-correspondence.jsonl"), "w") as f:
                f.write(ops[i] + "\n")
            ctx.unproved(["correspondence C07 IBLT (tree.Iblt != NutsModel/C07/Iblt.lean)"], detail + f"\nreplay ops: {ctx.replay_dir()}/iblt-correspondence.jsonl")
    else:
        ctx.oblige("correspondence:iblt-model=impl", True, f"{len(impl)} lines equal")
    ctx.cov["iblt_leg"] = {"decode_ops_by_outcome": dict(res_classes), "shapes": dict(shapes), "bucket_index_ops": n_idx, "bucket_index_ops_on_short_chain_cycles(linear probing)": n_cyc[0], "lines_equal": len(impl) - len(bad)}


def is_disp_replay(path):
    try:
        with open(path) as f:
            return '"op":"disp"' in f.read(200)
    except OSError:
        return False


def _disp_ids(txt):
    out = []
    if txt == "-":
        return out
    for part in txt.split(","):
        if ".." in part:
            a, b = part.split("..")
            out.extend(range(int(a), int(b) + 1))
        else:
            out.append(int(part))
    return out


def run_disp(ctx, binary):
    """the REAL dispatcher (protocol.Handle / handle / handleASync / bounded TransactionList channel / transactionListHandler.start)
    vs NutsModel/C07/Dispatch.lean + model-free oracles (the channel capacity itself is only compared with the regenerated fact)"""
    env = {"VERIF_CORPUS": os.path.join(os.path.dirname(os.path.dirname(os.path.abspath(__file__))), "harness", "corpus", "C07")}
    if ctx.replay:
        env["VERIF_REPLAY"] = os.path.abspath(ctx.replay)
    out = os.path.join(ctx.scratch, "out_disp")
    rc, log, out = ctx.run_harness(binary, "TestVerifC07Disp$", env, outdir=out, timeout=900)
    if rc != 0:
        ctx.oblige("dispatcher-harness-runs", False, log[-1500:])
        return
    ops_p, impl_p, model_p = (os.path.join(out, x) for x in ("ops.jsonl", "impl.out", "model.out"))
    ok, err = ctx.model("C07", ops_p, model_p)
    ctx.oblige("dispatcher-model-driver-runs", ok, err[-500:])
    impl, model, bad = ctx.compare(impl_p, model_p)
    ops = ctx.read_lines(ops_p)
    n_bad, per_sig, stats = 0, Counter(), Counter()

    def viol(sig, what, i):
        nonlocal n_bad
        n_bad += 1
        per_sig[sig] += 1
        if per_sig[sig] <= 2:
            ctx.violation(sig, what, f"disp-{sig.split(':')[1]}-{i}.jsonl", ops[i] + "\n")

    for i, l in enumerate(impl):
        if i >= len(ops):
            break
        o = json.loads(ops[i])
        if "panic:" in l:
            viol("C07:dispatcher-panic", f"the dispatcher panicked: {l[:300]}", i)
            continue
        toks = l.split(" ")
        cap = int(toks[1].split("=")[1])
        groups = toks[2:]
        chan, nxt = [], 0         # model-free bookkeeping: ids waiting on the channel, next id
        for g, (code, k) in zip(groups, o["evs"]):
            body = g.split("=", 1)[1]
            f = body.split(":")
            if code == "L":
                arrived = list(range(nxt, nxt + k))
                nxt += k
                chan_after = int(f[2].split("=")[1])
                if f[1] not in ("-", f"nil*{k}"):
                    viol("C07:dispatcher-list-arrival-returns-error", f"Handle of a TransactionList returned {f[1]} (must be nil: queued or dropped silently): {g}", i)
                if chan_after > cap:
                    viol("C07:dispatcher-channel-exceeds-capacity", f"{chan_after} lists wait on a channel of capacity {cap}", i)
                acc = max(0, chan_after - len(chan))
                if acc != min(k, cap - len(chan)) and chan_after <= cap:
                    viol("C07:dispatcher-drops-list-while-channel-has-room", f"{k} TransactionLists arrived at a channel holding {len(chan)}/{cap}: {acc} were queued, {min(k, cap - len(chan))} fit", i)
                chan += arrived[:acc]   # a non-blocking send keeps arrival order: the first ones fit
                stats["list-arrivals"] += k
                stats["list-arrivals-dropped(channel full)"] += k - acc
            elif code == "U":
                if f[1] not in ("-", f"notsup*{k}"):
                    viol("C07:dispatcher-unknown-envelope-not-refused", f"Handle of an envelope of no known type returned {f[1]}, not errMessageNotSupported x{k}", i)
                if int(f[2].split("=")[1]) != len(chan):
                    viol("C07:dispatcher-unknown-envelope-changes-channel", f"an unknown envelope changed the list channel: {g}", i)
                stats["unknown-envelopes"] += k
            elif code == "D":
                if f[1] not in ("-", f"nil*{k}") or f[2] != f"ran={k}":
                    viol("C07:dispatcher-async-handler-lost", f"{k} DiagnosticsBroadcasts arrived, Handle returned {f[1]}, {f[2]} handlers ran", i)
                stats["async-arrivals"] += k
            elif code == "R":
                got = _disp_ids(f[2])
                if f[1] != "drained" or got != chan or int(f[3].split("=")[1]) != 0:
                    viol("C07:dispatcher-list-order-or-loss", f"the list handler goroutine handled {f[2]} ({f[1]}), the channel held {len(chan)} lists "
                         f"{chan[:3]}..{chan[-3:]} in arrival order: every queued TransactionList must be handled exactly once, in order", i)
                stats["list-handler-drains"] += 1
                stats["lists-handled"] += len(got)
                chan = []
    ctx.oblige("oracle:dispatcher-fifo,at-most-once,bounded,drop-only-when-full,unknown-refused,async-runs(impl)", n_bad == 0, f"{n_bad} problems")
    if not ctx.replay:
        miss = [k for k in ("list-arrivals-dropped(channel full)", "unknown-envelopes", "async-arrivals", "lists-handled") if stats[k] == 0]
        ctx.oblige("generator-reaches-the-dispatcher-outcomes", not miss, f"not reached: {miss}")
    if bad:
        i = bad[0]
        detail = f"dispatcher leg: first differing line {i}\nop   : {ops[i][:400] if i < len(ops) else None}\nimpl : {impl[i][:500] if i < len(impl) else None}\nmodel: {model[i][:500] if i < len(model) else None}"
        ctx.oblige("correspondence:dispatcher-model=impl", False, f"{len(bad)} of {len(impl)} lines differ; " + detail[:900])
        if n_bad == 0:
            with open(os.path.join(ctx.replay_dir(), "disp-correspondence.jsonl"), "w") as f:
                f.write(ops[i] + "\n")
            ctx.unproved(["correspondence C07 dispatcher (handlers.go Handle/handle, transactionlist_handler.go != NutsModel/C07/Dispatch.lean)"],
                         detail + f"\nreplay ops: {ctx.replay_dir()}/disp-correspondence.jsonl")
    else:
        ctx.oblige("correspondence:dispatcher-model=impl", True, f"{len(impl)} lines equal")
    ctx.cov["dispatcher_leg"] = {"ops": len(impl), **dict(stats)}


def is_addr_replay(path):
    try:
        with open(path) as f:
            return '"op":"addr"' in f.read(200)
    except OSError:
        return False


def run_addr(ctx, binary):
    """the REAL (*protocol).sendGossip on the REAL grpc.connectionList / predicates / transport.Peer.Key vs NutsModel/C07/Addr.lean
    (query REGENERATED) + model-free oracles: the gossip of a peer's queue goes to a connected connection of exactly that peer,
    a connected owner is found, the queue is reported sent only if that connection took the message"""
    env = {"VERIF_CORPUS": os.path.join(os.path.dirname(os.path.dirname(os.path.abspath(__file__))), "harness", "corpus", "C07")}
    if ctx.replay:
        env["VERIF_REPLAY"] = os.path.abspath(ctx.replay)
    out = os.path.join(ctx.scratch, "out_addr")
    rc, log, out = ctx.run_harness(binary, "TestVerifC07Addr$", env, outdir=out, timeout=600)
    if rc != 0:
        ctx.oblige("addressing-harness-runs", False, log[-1500:])
        return
    ops_p, impl_p, model_p = (os.path.join(out, x) for x in ("ops.jsonl", "impl.out", "model.out"))
    ok, err = ctx.model("C07", ops_p, model_p)
    ctx.oblige("addressing-model-driver-runs", ok, err[-500:])
    impl, model, bad = ctx.compare(impl_p, model_p)
    ops = ctx.read_lines(ops_p)
    n_bad, per_sig, stats = 0, Counter(), Counter()

    def viol(sig, what, i):
        nonlocal n_bad
        n_bad += 1
        per_sig[sig] += 1
        if per_sig[sig] <= 2:
            ctx.violation(sig, what, f"addr-{sig.split(':')[1]}-{i}.jsonl", ops[i] + "\n")

    rx = re.compile(r"^addr pk=(.*) target=(.*) cleared=(true|false) owners=\[([0-9,]*)\]$")
    for i, l in enumerate(impl):
        if i >= len(ops):
            break
        o = json.loads(ops[i])
        m = rx.match(l)
        if not m:
            viol("C07:gossip-addressing-panic" if "panic:" in l else "C07:gossip-addressing-malformed", f"sendGossip: {l[:300]}", i)
            continue
        pk, target, cleared, owners = m.group(1), m.group(2), m.group(3) == "true", [int(x) for x in m.group(4).split(",") if x]
        conns = o.get("conns") or []
        if target == "none":
            stats["no-connection" if not owners else "owner-missed"] += 1
            if owners:
                viol("C07:gossip-starved-connected-peer-not-found", f"the queue of {pk} ticked, connection(s) {owners} of that peer are connected, "
                     f"but sendGossip found no connection (the peer never hears gossip: no convergence): {l[:300]}", i)
            if cleared:
                viol("C07:gossip-queue-cleared-without-send", f"sendGossip sent nothing but reported success (the queue is cleared, the refs are never announced): {l[:300]}", i)
            continue
        if target.startswith("multi"):
            viol("C07:gossip-sent-more-than-once", f"one tick sent several Gossip messages: {l[:300]}", i)
            continue
        idx, _, tk = target.partition(":")
        idx = int(idx)
        c = conns[idx] if idx < len(conns) else {}
        same_did_elsewhere = any(j != idx and x.get("did") == c.get("did") for j, x in enumerate(conns))
        stats["sent" + (":first-entry" if idx == 0 else ":later-entry") + (":did-shared" if same_did_elsewhere else "")] += 1
        if tk != pk:
            viol("C07:gossip-sent-to-other-peer", f"the Gossip message of the queue of peer {pk} (its refs, and the clearing of ITS queue) went to the "
                 f"connection of peer {tk}; the queue's peer is starved: {l[:300]}", i)
        elif not c.get("conn"):
            viol("C07:gossip-sent-on-disconnected-connection", f"sendGossip used a connection that is not connected: {l[:300]}", i)
        elif idx not in owners:
            viol("C07:gossip-not-to-a-connected-owner", f"sendGossip used connection {idx}, the connected connections of the peer are {owners}: {l[:300]}", i)
        if cleared != bool(c.get("ok")):
            stats["send-failed"] += 0
            viol("C07:gossip-queue-cleared-iff-sent", f"Send on connection {idx} {'succeeded' if c.get('ok') else 'failed'} but sendGossip returned {cleared}: {l[:300]}", i)
        if not c.get("ok"):
            stats["send-failed"] += 1
    ctx.oblige("oracle:gossip-goes-to-a-connected-connection-of-the-queue-peer,owner-found,cleared-iff-sent(impl)", n_bad == 0, f"{n_bad} problems")
    if not ctx.replay:
        miss = [k for k in ("no-connection", "sent:first-entry", "sent:later-entry:did-shared", "send-failed") if not stats[k]]
        ctx.oblige("generator-reaches-the-addressing-outcomes", not miss, f"not reached: {miss}")
    if bad:
        i = bad[0]
        detail = f"addressing leg: first differing line {i}\nop   : {ops[i][:400] if i < len(ops) else None}\nimpl : {impl[i][:500] if i < len(impl) else None}\nmodel: {model[i][:500] if i < len(model) else None}"
        ctx.oblige("correspondence:addressing-model=impl", False, f"{len(bad)} of {len(impl)} lines differ; " + detail[:900])
        if n_bad == 0:
            with open(os.path.join(ctx.replay_dir(), "addr-correspondence.jsonl"), "w") as f:
                f.write(ops[i] + "\n" if i < len(ops) else "")
            ctx.unproved(["correspondence C07 addressing (protocol.go sendGossip, grpc predicate.go / connection_list.go get != NutsModel/C07/Addr.lean)"],
                         detail + f"\nreplay ops: {ctx.replay_dir()}/addr-correspondence.jsonl")
    else:
        ctx.oblige("correspondence:addressing-model=impl", True, f"{len(impl)} lines equal")
    ctx.cov["addressing_leg"] = {"ops": len(impl), **dict(stats)}


def is_convlock_replay(path):
    try:
        with open(path) as f:
            return '"op":"convlock"' in f.read(200)
    except OSError:
        return False


def run_convlock(ctx, binary):
    """the REAL conversationManager called directly with a TryLock probe after every call vs the model's conversation functions +
    the regenerated lock discipline; model-free oracle: after a method returned, cMan.mutex is free"""
    env = {"VERIF_CORPUS": os.path.join(os.path.dirname(os.path.dirname(os.path.abspath(__file__))), "harness", "corpus", "C07")}
    if ctx.replay:
        env["VERIF_REPLAY"] = os.path.abspath(ctx.replay)
    out = os.path.join(ctx.scratch, "out_convlock")
    rc, log, out = ctx.run_harness(binary, "TestVerifC07ConvLock$", env, outdir=out, timeout=600)
    if rc != 0:
        ctx.oblige("convlock-harness-runs", False, log[-1500:])
        return
    ops_p, impl_p, model_p = (os.path.join(out, x) for x in ("ops.jsonl", "impl.out", "model.out"))
    ok, err = ctx.model("C07", ops_p, model_p)
    ctx.oblige("convlock-model-driver-runs", ok, err[-500:])
    impl, model, bad = ctx.compare(impl_p, model_p)
    ops = ctx.read_lines(ops_p)
    n_bad, per_sig, stats = 0, Counter(), Counter()

    def viol(sig, what, i):
        nonlocal n_bad
        n_bad += 1
        per_sig[sig] += 1
        if per_sig[sig] <= 2:
            ctx.violation(sig, what, f"convlock-{sig.split(':')[1]}-{i}.jsonl", ops[i] + "\n")

    for i, l in enumerate(impl):
        if i >= len(ops):
            break
        toks = l.split(" ")[1:]
        if "panic:" in l:
            viol("C07:conversation-manager-panic", f"conversation manager panicked: {l[:300]}", i)
            continue
        for t in toks:
            if t == "STOP":
                continue
            f = t.split(":")
            stats[f[0] + (":" + f[2] if f[0].startswith("start") and len(f) > 2 else "")] += 1
            if ":held" in t:
                viol("C07:conversation-manager-locked-after-return", f"after `{t.rsplit(':', 1)[0]}` returned, cMan.mutex is still held: every later request "
                     f"(startConversation) and response (check / done) of this node blocks forever — no further reconciliation: {l[:400]}", i)
                break
    ctx.oblige("oracle:conversation-manager-mutex-free-after-every-call(impl)", n_bad == 0, f"{n_bad} problems")
    if not ctx.replay:
        miss = [k for k in ("startR:refused", "startL:refused", "startS:ok", "startR:ok", "done", "reset", "evict", "check") if not stats[k]]
        ctx.oblige("generator-reaches-the-conversation-manager-outcomes", not miss, f"not reached: {miss}")
    if bad:
        i = bad[0]
        detail = f"conversation-manager leg: first differing line {i}\nop   : {ops[i][:400] if i < len(ops) else None}\nimpl : {impl[i][:500] if i < len(impl) else None}\nmodel: {model[i][:500] if i < len(model) else None}"
        ctx.oblige("correspondence:convlock-model=impl", False, f"{len(bad)} of {len(impl)} lines differ; " + detail[:900])
        if n_bad == 0:
            with open(os.path.join(ctx.replay_dir(), "convlock-correspondence.jsonl"), "w") as f:
                f.write(ops[i] + "\n" if i < len(ops) else "")
            ctx.unproved(["correspondence C07 conversation manager (conversation.go != NutsModel/C07/Dag.lean conversation functions / ConvLock.lean)"],
                         detail + f"\nreplay ops: {ctx.replay_dir()}/convlock-correspondence.jsonl")
    else:
        ctx.oblige("correspondence:convlock-model=impl", True, f"{len(impl)} lines equal")
    ctx.cov["conversation_manager_leg"] = {"ops": len(impl), **dict(stats)}


def scenario_slices(ops):
    """index of the universe header and (first,last) op index of each scenario"""
    header = None
    slices = []
    for i, l in enumerate(ops):
        if l.startswith('{"op":"universe"'):
            header = i
        elif l.startswith('{"op":"scenario"'):
            if slices:
                slices[-1][1] = i - 1
            slices.append([i, len(ops) - 1])
    return header, slices


def replay_text(ops, header, first, last):
    return "\n".join([ops[header]] + ops[first:last + 1]) + "\n"


def evaluate(ctx, pid, out, test, required_kind, ops, impl):
    """direct property oracles on the implementation's own observations (oracle.jsonl) — shared with C15"""
    header, slices = scenario_slices(ops)
    verdicts, leaks, dc = [], [], {}
    for l in ctx.read_lines(os.path.join(out, "oracle.jsonl")):
        if not l:
            continue
        j = json.loads(l)
        if j.get("kind") == "dc":
            dc = j["histogram"]
        elif j.get("kind") == "leak":
            leaks.append(j["leak"])
        elif j.get("kind") == "chunk":
            continue
        else:
            verdicts.append(j)
    return header, slices, verdicts, leaks, dc


def run(ctx):
    facts = ctx.facts()
    thms = ctx.build_and_audit(["NutsProofs.Props.C07"])
    for r in REQUIRED:
        if not any(t.endswith("Props." + r) for t in thms):
            ctx.oblige("thm-present:" + r, False, "theorem missing or its module does not build")
    ctx.trusted += [
        "modelled, not verified: bbolt/stoabs transactions, protobuf (un)marshalling, jws signature verification (abstract verdict sigOK), "
        "tree.Iblt decode (decode contract DC measured on the real tree.Iblt by the harness: histogram in coverage), unstable sort.Slice by clock "
        "(any clock-sorted permutation), the tree/XOR digests (C08), transaction admission details (C06)",
        "model scope: transport/v2 handlers.go, transactionlist_handler.go, senders.go, conversation.go, protocol.go (sendGossip, decryptPAL, "
        "handlePrivateTxRetry), gossip/manager.go+queue.go, the decisions of dag/state.go Add/XOR/IBLT/FindBetweenLC/Read/WritePayload",
    ]
    ctx.assumptions += [
        "safety (safety_any_schedule, unsolicited_responses_change_no_dag) is unconditional: any schedule, any decode/sort/ECIES oracle behaviour; part (c) "
        "(DAGs stay inside U) assumes the adversary cannot show a good-verdict transaction outside U (signatures unforgeable) and that sort returns elements of its input",
        "liveness (pull_round_result, round_progress, converges) is relative to explicit hypotheses of the theorems: the IBLT decode contract DC (successful decode = exactly "
        "the refs the peer has and we lack; decode succeeds on an empty difference; measured on the real tree.Iblt: histogram in coverage), the sort contract (clock-sorted "
        "permutation), XOR digests distinguishing the valid DAGs inside the union, refs identifying transactions, both nodes holding the root, every public transaction "
        "stored with a non-empty payload, gossip queues in sync with the DAG, and fairness in the form of fair round pairs (expiry of stale conversations, then a loss-free "
        "pull in each direction with the reconciliation messages of each batch delivered in the order sent; payload queries may stay in flight)",
        "handlers are atomic (the real dispatcher runs them on goroutines; serialisation of concurrent Adds is C06's claim); gRPC back-pressure (`channel full` drops) is "
        "modelled as loss; two nodes (the n-node corollary is not proved; 3-node groups are exercised by the harness in the thorough tier)",
    ]

    if ctx.replay and is_iblt_replay(ctx.replay):
        run_iblt(ctx)
        return
    if not ctx.replay:
        run_iblt(ctx)
    binary = ctx.go_test_binary(PKG, HARNESS, "c07")
    if binary is None:
        ctx.oblige("harness-builds", False, ctx.harness_error[-1500:])
        return
    ctx.oblige("harness-builds", True)
    if ctx.replay and is_disp_replay(ctx.replay):
        run_disp(ctx, binary)
        return
    if ctx.replay and is_addr_replay(ctx.replay):
        run_addr(ctx, binary)
        return
    if ctx.replay and is_convlock_replay(ctx.replay):
        run_convlock(ctx, binary)
        return
    if not ctx.replay:
        run_disp(ctx, binary)
        run_addr(ctx, binary)
        run_convlock(ctx, binary)
    env = {}
    if ctx.replay:
        env["VERIF_REPLAY"] = os.path.abspath(ctx.replay)
    else:
        env["VERIF_SCENARIOS"] = 110 if ctx.thorough else 24
    rc, log, out = ctx.run_harness(binary, "TestVerifC07", env, timeout=3000)
    if rc != 0:
        ctx.oblige("harness-runs", False, log[-1500:])
        return
    ctx.oblige("harness-runs", True)
    ops_p, impl_p, model_p = (os.path.join(out, x) for x in ("ops.jsonl", "impl.out", "model.out"))
    ok, err = ctx.model("C07", ops_p, model_p)
    ctx.oblige("model-driver-runs", ok, err[-500:])
    impl, model, bad = ctx.compare(impl_p, model_p)
    ops = ctx.read_lines(ops_p)
    header, slices, verdicts, leaks, dc = evaluate(ctx, "C07", out, "TestVerifC07", "c07", ops, impl)

    # ---- direct property oracles on the implementation
    feats, kinds = Counter(), Counter()
    n_bad = 0
    per_sig = Counter()
    hangs = [v for v in verdicts if v.get("kind") == "hang"]
    verdicts = [v for v in verdicts if v.get("kind") != "hang"]
    for h in hangs:
        n_bad += 1
        ctx.violation("C07:handler-blocked-forever", f"scenario {h['scenario']}: {h['what']} (the node's DAG is frozen: no convergence)", f"handler-blocked-{h['scenario']}.jsonl",
                      replay_text(ops, header, h["first_op"], h["last_op"]))
    for v in verdicts:
        for f in v.get("features", []):
            feats[re.sub(r"=\d+$", "", f) if f.startswith(("prefix-steps", "maxmsg", "diff", "runs")) else f] += 1
        name = v["scenario"]
        kinds[re.sub(r"^s\d+-", "", name).split("-")[0]] += 1
        first, last = v["first_op"], v["last_op"]
        problems = []
        if v["shrunk"]:
            problems.append(("C07:transaction-removed", f"node lost transactions it held: {v['shrunk'][:4]}"))
        if v["invalid_in"]:
            problems.append(("C07:invalid-transaction-admitted", f"DAG contains an invalid/injected transaction: {v['invalid_in'][:4]}"))
        expect_conv = v["kind"] == "c07" or (last < len(ops) and '"op":"observe"' in ops[last])
        if expect_conv and not v["converged"]:
            problems.append(("C07:no-convergence-after-fair-suffix", f"after {v['rounds']} fair rounds (bound {v['max_rounds']}) nodes hold {v['not_union']} of the union"))
        if v.get("post_traffic", 0) > 0:
            problems.append(("C07:exchange-continues-after-convergence", f"{v['post_traffic']} non-gossip messages were sent in a gossip round after all XORs were equal"))
        if v.get("oversize"):
            problems.append(("C07:message-exceeds-grpc-limit", f"a message handed to the stream exceeds grpc.MaxMessageSizeInBytes (the real stream refuses it: "
                             f"send error, the peer never gets the reply): {v['oversize'][:3]}"))
        if v.get("changed"):
            problems.append(("C07:queued-message-changed-after-send", f"a message queued by Send is modified afterwards (the stream writes other bytes than the handler sent): {v['changed'][:3]}"))
        for sig, what in problems:
            n_bad += 1
            per_sig[sig] += 1
            if per_sig[sig] > 2:
                continue
            ctx.violation(sig, f"scenario {name}: {what}", f"{sig.split(':')[1]}-{name}.jsonl", replay_text(ops, header, first, last))
    # chunkTransactionList on generated size lists: the REAL marshalled size of every multi-transaction chunk is within the limit
    n_chunk = 0
    for l in ctx.read_lines(os.path.join(out, "oracle.jsonl")):
        if '"kind":"chunk"' not in l:
            continue
        c = json.loads(l)
        n_chunk += 1
        if c["oversize"]:
            n_bad += 1
            per_sig["chunk"] += 1
            if per_sig["chunk"] <= 2:
                ctx.violation("C07:transaction-list-chunk-exceeds-grpc-limit", f"chunkTransactionList(limit {c['maxmsg']}) on transactions [count,len(Data),len(Payload)]={c['runs']} "
                              f"produced {c['chunks']} chunks of which these marshal to more than the limit (chunk:txs=bytes): {c['oversize'][:4]}",
                              f"chunk-{c['op']}.jsonl", ops[c["op"]])
    ctx.cov["chunk_size_lists"] = n_chunk
    # order / digest violations flagged by the canonicaliser or the model driver
    for i, l in enumerate(impl):
        if "MISMATCH-" in l:
            n_bad += 1
            ctx.violation("C07:iblt-bytes-differ-from-set", "TransactionSet IBLT bytes are not the IBLT of the sender's refs up to the requested page", "iblt-bytes.jsonl",
                          "\n".join(ops[:i + 1][-50:]))
            break
    for i, l in enumerate(impl):
        if "!digest-differs-from-stored-set" in l:
            n_bad += 1
            sl = [s for s in slices if s[0] <= i <= s[1]]
            ctx.violation("C07:digests-differ-from-stored-set-after-restart", "after a restart State.XOR / the highest clock loaded from disk are not those of the stored transactions "
                          "(the node can no longer recognise equality, every IBLT round decodes phantom differences)", "restart-digest.jsonl",
                          replay_text(ops, header, sl[0][0], i) if sl else ops[i])
            break
    for i, l in enumerate(model):
        if "ORDER-VIOLATION" in l:
            n_bad += 1
            sl = [s for s in slices if s[0] <= i <= s[1]]
            ctx.violation("C07:list-reply-not-clock-sorted", "TransactionList reply to a list query is not a clock-sorted permutation of the requested present transactions",
                          "list-order.jsonl", replay_text(ops, header, sl[0][0], i) if sl else ops[i])
            break
    ctx.oblige("oracle:never-shrink,never-invalid,union-at-quiescence,quiet-when-equal,every-message-within-grpc-limit(impl)", n_bad == 0, f"{n_bad} scenario problems")
    # ---- edge counters: the code edges the seeds hit must OCCUR in the run (a generator that stops reaching them is a hole)
    edges = Counter()
    ps = int(facts.get("pageSize", 512)) if facts else 512
    for i, l in enumerate(impl):
        if l.startswith("ret=prev-missing") or "ret=prev-missing " in l:
            edges["add-prev-missing"] += 1
        for m in re.finditer(r"state\(c\d+\.\d+,x=[0-9a-f]+,lc=(\d+)\)", l):
            if (int(m.group(1)) + 1) % ps == 0:
                edges["previous-page-state-fallback"] += 1
        for m in re.finditer(r"rq\(c\d+\.\d+,(\d+),(\d+)\)", l):
            a, b = int(m.group(1)), int(m.group(2))
            edges["range-first-page" if a == 0 else ("range-next-one-page" if b - a == ps else "range-next-two-pages")] += 1
        if re.search(r"tl\(c\d+\.\d+,\d+/([2-9]|\d\d+),", l):
            edges["chunked-reply"] += 1
        if "refs=#100:" in l and "gossip(" in l:
            edges["gossip-queue-full(100 refs)"] += 1
        for k in ("err:unknown-conv", "err:not-requested", "err:out-of-range", "err:wrong-type", "err:lcreq", "err:add-sig", "err:add-clock",
                  "err:add-root", "err:add-payload-hash", "err:parse", "err:iblt", "err:invalid-range", "err:no-payload"):
            if "ret=" + k in l:
                edges["rejected:" + k] += 1
        if l.startswith("restart "):
            edges["node-restart"] += 1
        if l.startswith("conn connected=false"):
            edges["connection-down-or-disconnected"] += 1
        if l.startswith("sent=[] ") and " q=" in l and not l.endswith(" q=0"):
            edges["tick-without-connection-keeps-queue"] += 1
        if l.startswith("ret=err:db-busy"):
            edges["add-failed-database-busy"] += 1
        if l.startswith("ret=err:ctx-cancelled"):
            edges["add-rolled-back-context-cancelled"] += 1
        if " q=" in l and l.startswith("sent=[m") and "refs=#0:" not in l:
            edges["gossip-with-refs"] += 1
    for i, l in enumerate(ops):
        if '"op":"deliver"' in l[:40] and '"dec":"fail"' in l:
            edges["iblt-decode-failed"] += 1
        if '"op":"deliver"' in l[:40] and '"dec":"ok"' in l and '"missing":[]' not in l:
            edges["iblt-decode-ok-with-missing"] += 1
    need = ["add-prev-missing", "previous-page-state-fallback", "range-first-page", "range-next-two-pages", "chunked-reply", "gossip-queue-full(100 refs)",
            "iblt-decode-failed", "iblt-decode-ok-with-missing", "rejected:err:unknown-conv", "connection-down-or-disconnected", "gossip-with-refs", "tick-without-connection-keeps-queue"]
    for v in verdicts:
        for f in v.get("features", []):
            if f in ("equal-height-large-diff-on-page>=1", "behind-peer-wide-page0", "many-refs-per-clock", "disjoint-branches", "connection-flap-then-new-transactions"):
                edges["scenario:" + f] += 1
    need += ["scenario:equal-height-large-diff-on-page>=1", "scenario:behind-peer-wide-page0", "node-restart", "add-failed-database-busy", "add-rolled-back-context-cancelled", "scenario:connection-flap-then-new-transactions"]
    missing_edges = [e for e in need if edges[e] == 0] if not ctx.replay else []
    ctx.oblige("generator-reaches-the-protocol-edges(quick tier)", not missing_edges, f"edges not reached: {missing_edges}; reached: {dict(edges)}")

    # the decode contract, measured (exactness on success must be total; success on empty difference must be total)
    dc_bad = [k for k, v in dc.items() if v[2] != v[1]] + (["0"] if "0" in dc and dc["0"][1] != dc["0"][0] else [])
    ctx.oblige("decode-contract-measured(impl)", not dc_bad, f"buckets violating DC: {dc_bad} histogram {dc}")
    if dc_bad:
        ctx.violation("C07:decode-contract-breached", f"tree.Iblt decode succeeded with a wrong result or failed on an empty difference: {dc}", "decode-contract.json", json.dumps(dc))

    # ---- correspondence model vs implementation
    if bad:
        i = bad[0]
        detail = f"first differing line {i}\nop   : {ops[i][:600] if i < len(ops) else None}\nimpl : {impl[i][:1200] if i < len(impl) else None}\nmodel: {model[i][:1200] if i < len(model) else None}"
        ctx.oblige("correspondence:model=impl", False, f"{len(bad)} of {len(impl)} lines differ; " + detail[:900])
        if n_bad == 0:
            sl = [s for s in slices if s[0] <= i <= s[1]]
            if sl:
                with open(os.path.join(ctx.replay_dir(), "correspondence.jsonl"), "w") as f:
                    f.write(replay_text(ops, header, sl[0][0], sl[0][1]))
            ctx.unproved(["correspondence C07 (model.out != impl.out)"], detail + f"\nreplay ops: {ctx.replay_dir()}/correspondence.jsonl")
    else:
        ctx.oblige("correspondence:model=impl", True, f"{len(impl)} lines equal")

    steps = [l for l in ops if l and not any(k in l[:200] for k in ('"op":"tx"', '"op":"payload"', '"op":"cipher"', '"op":"universe"'))]
    opk = Counter(json.loads(l)["op"] + (":" + json.loads(l)["msg"]["t"] if '"op":"inject"' in l else "") for l in steps)
    ctx.cov["evaluations"] = len(steps)
    ctx.cov["distinct_nontrivial"] = len({(v["scenario"]) for v in verdicts if v["start_diff"] > 0 or v["deliveries"] > 0})
    ctx.cov["traces_validated_against_impl"] = len(impl) - len(bad)
    ctx.cov["rule"] = ("scenario = 2-3 real protocol nodes whose DAGs share a root (one side 1-7 pages behind, disjoint branches, 1/10/200/700/1500 "
                       "missing leaves spread over 1-5 runs with prev-dependencies, up to 1500 refs on one clock, mixes, equal DAGs), message size limit "
                       "512K/64K/20K, then a hostile prefix (arbitrary delivery order, loss, duplicates and stale replays of any earlier message, forged "
                       "messages of every type incl. invalid transactions on live conversations, clock advance/eviction, local creation of valid and invalid "
                       "transactions) and a fair suffix (expiry, loss-free gossip rounds in each direction). evaluations = schedule steps executed on both "
                       "sides; distinct_nontrivial = scenarios with a difference or deliveries")
    ctx.cov["input_distribution"] = {"scenarios": len(verdicts), "templates": dict(kinds), "features": dict(feats), "step_kinds": dict(opk),
                                     "rounds_to_converge": dict(Counter(v["rounds"] for v in verdicts)),
                                     "protocol_edges_reached": dict(edges),
                                     "decode_contract_histogram(bucket:[attempts,success,exact])": dc,
                                     "universe_transactions": sum(1 for l in ops if '"op":"tx"' in l[:200])}
    ctx.cov["samples"] = [steps[1][:300] if len(steps) > 1 else "", impl[len(ops) - len(steps) + 1][:300] if len(impl) > len(ops) - len(steps) + 1 else ""]
