"""C16 — Discovery lists hold only verified registrations and clients converge to them.
Lean: NutsProofs.Props.C16 over NutsModel.C16.Discovery + regenerated facts.
Correspondence: in-package harness on the real server Module and the real client updater + sqlStore (two SQLite DBs),
generated histories; direct property oracle on the implementation's own lines."""
import json, os, re
from collections import Counter

PKG = "discovery"
HARNESS = ["discovery/zz_verif_c16_test.go", "discovery/zz_verif_c16node_test.go"]
WIRE_PKG = "discovery/api/server"
WIRE_HARNESS = ["discovery/api/server/zz_verif_c16_wire_test.go"]
HARNESSES = [(PKG, HARNESS, "c16"), (WIRE_PKG, WIRE_HARNESS, "c16wire")]

REQUIRED = [
    "listed_sound", "verify_iff_acceptable", "one_live_per_subject", "timestamps_strict", "retraction_needs_owner",
    "get_no_gap", "replica_rows_accounted", "get_mirrored_order_unsafe", "poll_idempotent_on_duplicates",
    "replica_converges_partial", "replica_converges_same_seed", "replica_converges_full_false", "id_reuse_diverges",
    "reset_restarts", "seed_change_partial_response_unsafe", "search_sound",
    "register_accepts_iff", "register_never_panics", "poll_never_fails",
    "fact_get_reads_timestamp_first", "fact_check_order", "fact_add_deletes_previous", "fact_expiry_comparisons",
    "fact_update_service_shape", "fact_restart_after_wipe", "fact_service_writers_locked", "fact_loops_visit_everything",
    "fact_comparisons_exact", "fact_exists_key", "fact_background_jobs", "fact_wiring", "fact_store_guards_credential_id",
    # deepening round 3 (Props/C16R3.lean): client loop guards, seed discipline
    "fact_update_loop_guards", "fact_add_arguments", "fact_seed_draw",
    "node_clientLoop_refines", "node_update_refines", "node_update_frame", "node_update_get_fails",
    "fact_get_presentations_body", "api_get_no_gap",
    "seeds_bounded", "reset_draws_unseen_seed", "reset_noticed_by_client",
    "client_loop_never_panics", "client_refuses_malformed", "client_refuses_malformed_after_held",
    # deepening round 2026-09-28: node layer (Props/C16Node.lean)
    "fact_status_table", "fact_verify_returns", "fact_routing_order", "fact_cycle_detected", "fact_load_definitions",
    "fact_api_timestamp_default", "fact_update_all_shape", "fact_update_cycle_order", "fact_validated_only_after_verification",
    "configure_sound", "configure_server_subset", "configure_rejects_unknown_server_id", "configure_key_id", "route_after_configure",
    "node_register_refines", "node_register_frame", "node_refusal_changes_nothing", "node_unserved_request",
    "node_listed_sound", "node_lists_wellformed", "unserved_lists_stay_empty", "configured_node_lists_addressed",
    "api_register_201_iff", "api_register_created_iff_acceptable", "refusal_status_codes", "apiGet_default", "rowsAfterInt_ofNat",
    "get_from_nonpositive_returns_all", "node_get_served", "updateAll_no_early_exit",
    "client_flags_iff_verified", "retraction_unverifiable_once_stored", "forged_retraction_never_flagged",
    "fact_query_columns", "searchQ_sublist_search", "searchQ_empty_query", "searchQ_antitone", "search_with_query_sound",
    "credential_without_id_refused", "fact_set_timestamp_unconditional", "overlapping_polls_heal", "overlapping_polls_can_diverge", "overlapping_poll_across_wipe_diverges", "fact_start_keeps_service_records", "restart_is_identity",
]


# ---------- parsing of canonical lines ----------

def parse_rows(txt, with_ts):
    rows = []
    for tok in txt.split():
        p = tok.split(":")
        r = {"id": p[-4], "exp": int(p[-3]), "kind": p[-2], "validated": p[-1] == "v"}
        if with_ts:
            r["ts"] = int(p[0])
            r["subject"] = ":".join(p[1:-4])
        else:
            r["subject"] = ":".join(p[:-4])
        rows.append(r)
    return rows


LINE = re.compile(r"^(\S+) \| S seed=(\S+) ts=(\d+) \[(.*?)\] \| C seed=(\S+) ts=(\d+) \[(.*?)\] \| Q \[(.*?)\]$")


def parse_line(l):
    m = LINE.match(l)
    if not m:
        return None
    return {"cls": m.group(1), "S": {"seed": m.group(2), "ts": int(m.group(3)), "rows": parse_rows(m.group(4), True)},
            "C": {"seed": m.group(5), "ts": int(m.group(6)), "rows": parse_rows(m.group(7), False)},
            "Q": [tuple(x.rsplit(":", 1)) for x in m.group(8).split()]}


def acceptable(vp, d, now, prev_rows):
    """the registration predicate of the property text, evaluated on the description of the presentation"""
    why = []
    if not vp.get("jwt"):
        why.append("not a JWT presentation")
    if vp.get("id") is None:
        why.append("no id")
    if d["id"] not in vp.get("aud", []):
        why.append("not addressed to the service")
    exp = vp.get("exp")
    if exp is None:
        why.append("no expiration")
    elif exp > now + d["maxValidity"] + 2:   # +2: the op's clock reading precedes the implementation's
        why.append("valid longer than the maximum validity")
    sg = vp.get("signer")
    if not sg:
        why.append("no signer")
    elif d["didMethods"] and sg[1] not in d["didMethods"]:
        why.append("DID method not allowed")
    if not vp.get("verifyS"):
        why.append("not verifiable")
    if vp.get("retraction"):
        if vp.get("creds"):
            why.append("retraction with credentials")
        j = vp.get("retractJti")
        if not j:
            why.append("retraction without retract_jti")
        elif sg and not any(r["subject"] == sg[0] and r["id"] == j for r in prev_rows):
            why.append("retraction of an entry that does not exist for this signer")
    else:
        if exp is not None and any(c is not None and c < exp for c in vp.get("creds", [])):
            why.append("outlives a credential")
        if not all(vp.get("credIds", [])):
            why.append("holds a credential without id")
        if vp.get("pex", -1) != len(vp.get("creds", [])):
            why.append("credentials do not all-and-only fulfil the definition")
    return why


def client_cannot_verify(vp, d):
    """why the CLIENT's own verifyRegistration cannot have accepted this presentation as a row of its replica (the part
    that does not depend on the clock): evaluated on the description of the presentation, independent of the model"""
    if not vp:
        return ["a presentation no accepted registration produced"]
    why = []
    if not vp.get("verifyC"):
        why.append("the client's verifier rejects it")
    if not vp.get("jwt") or vp.get("id") is None or vp.get("exp") is None:
        why.append("not a JWT presentation with id and expiration")
    if d["id"] not in vp.get("aud", []):
        why.append("not addressed to the service")
    sg = vp.get("signer")
    if not sg or (d["didMethods"] and sg[1] not in d["didMethods"]):
        why.append("signer missing or of a DID method that is not allowed")
    if vp.get("retraction"):
        # sqlStore.add has replaced every other entry of the signer by the retraction itself before the client verifies:
        # the only entry of the signer a retraction can name in the replica is itself
        if vp.get("creds"):
            why.append("retraction with credentials")
        if not vp.get("retractJti") or vp.get("retractJti") != vp.get("id"):
            why.append("retraction of an entry the replica does not hold")
    else:
        exp = vp.get("exp")
        if exp is not None and any(c is not None and c < exp for c in vp.get("creds", [])):
            why.append("outlives a credential")
        if not all(vp.get("credIds", [])):
            why.append("holds a credential without id")
        if vp.get("pex", -1) != len(vp.get("creds", [])):
            why.append("credentials do not all-and-only fulfil the definition")
    return why


def wire_leg(ctx):
    """real api.go wrapper + real http.go client around a scripted server: the transport must be faithful"""
    binary = ctx.go_test_binary(WIRE_PKG, WIRE_HARNESS, "c16wire")
    if binary is None:
        ctx.oblige("wire-harness-builds", False, ctx.harness_error[-1200:])
        return
    out = os.path.join(ctx.scratch, "wire")
    rc, log, out = ctx.run_harness(binary, "TestVerifC16Wire", {"VERIF_WIRE_OPS": 3000 if ctx.thorough else 400}, outdir=out, timeout=900)
    if rc != 0:
        ctx.oblige("wire-harness-runs", False, log[-1200:])
        return
    lines = [json.loads(x) for x in ctx.read_lines(os.path.join(out, "wire.out")) if x]
    bad = Counter()
    kinds = Counter()
    first = {}

    def flag(sig, o):
        bad[sig] += 1
        first.setdefault(sig, o)

    # what the MODEL (Node.lean resolveStatus / apiTimestamp over the regenerated switch of ResolveStatusCode) says
    wops = os.path.join(out, "wireops.jsonl")
    with open(wops, "w") as f:
        for o in lines:
            f.write(json.dumps({"op": "nstatus", "kind": o.get("kind", "")}) + "\n")
            f.write(json.dumps({"op": "napits", "asked": o.get("asked")}) + "\n")
    okm, errm = ctx.model("C16", wops, os.path.join(out, "wiremodel.out"))
    ctx.oblige("wire-model-driver-runs", okm, errm[-300:])
    wm = [x for x in ctx.read_lines(os.path.join(out, "wiremodel.out")) if x]
    for n_, o in enumerate(lines):
        o["model_status"] = wm[2 * n_].split()[1] if 2 * n_ < len(wm) else "?"
        o["model_after"] = wm[2 * n_ + 1].split()[1] if 2 * n_ + 1 < len(wm) else "?"
    for o in lines:
        fail, known, err = o["scripted_failure"], o["known"], o["err"]
        if o["op"] == "rawget":
            kinds[("rawget", "absent" if o["asked"] is None else "given")] += 1
            if o["saw_service"] != o["service"]:
                flag("wire:service-id-not-passed-through", o)
            want_after = 0 if o["asked"] is None else o["asked"]
            if o["saw_after"] != want_after or str(want_after) != o["model_after"]:
                flag("wire:timestamp-default-or-value-wrong", o)
            k = o["kind"]
            want_status = "200" if not k else ("400" if ("i" in k or "d" in k) else ("404" if "n" in k else "500"))
            if str(o["status"]) != want_status or (k and o["model_status"] != want_status):
                flag("wire:status-code-wrong", o)
            continue
        kinds[(o["op"], "fail" if fail else ("ok" if known else "unknown-service"))] += 1
        if o["saw_service"] != o["service"]:
            flag("wire:service-id-not-passed-through", o)
        if o["op"] == "get":
            if o["saw_after"] != o["asked"]:
                flag("wire:timestamp-not-passed-through", o)
            if o.get("due", 0) > 250:
                kinds[("get", "more-than-250-entries-due")] += 1
            if not fail and known and not err and o.get("missing", 0) > 0:
                # wave 9 (clause "asks for everything after its last timestamp ends up holding exactly the live set"): no gap
                o2 = dict(o); o2["sent"] = o2["sent"][:200]; o2["got"] = o2["got"][:200]
                flag("wire:get-answer-has-a-gap", o2)
            if not fail and known and (err or o["got"] != o["sent"]):
                o2 = dict(o); o2["sent"] = o2["sent"][:300]; o2["got"] = o2["got"][:300]
                flag("wire:response-not-passed-through", o2)
        else:
            if not o["same"]:
                flag("wire:posted-presentation-altered", o)
            if not fail and known and err:
                flag("wire:accepted-registration-reported-as-error", o)
        if (fail or not known) and not err:
            flag("wire:server-error-reported-as-success", o)
        if err:
            # independent expectation: invalid presentation / unsupported DID methods are the client's fault (400), an unknown
            # list is 404, anything else 500; the first that applies, in this order
            k = o.get("kind", "")
            want = "400" if "i" in k else ("400" if "d" in k else ("404" if "n" in k else "500"))
            if f"status code {want}" not in err or o["model_status"] != want:
                flag("wire:error-class-changed", o)
    for sig, o in first.items():
        ctx.violation("C16:" + sig, f"transport between client and server is not faithful ({bad[sig]} calls), first: {json.dumps(o)[:400]}",
                      sig.replace(":", "-") + ".json", json.dumps(o) + "\n")
    ctx.oblige("oracle:wire(api.go+http.go) faithful", not bad, "; ".join(f"{k} x{v}" for k, v in bad.items()))
    ctx.cov["wire_calls"] = len(lines)
    ctx.cov["wire_distribution"] = {f"{a}/{b}": v for (a, b), v in sorted(kinds.items())}


NODE_LINE = re.compile(r"^nreg (.*?) k=(\S+)((?: \| \S* seed=\S+ ts=\d+ \[.*?\])*)$")
NODE_LIST = re.compile(r" \| (\S*) seed=(\S+) ts=(\d+) \[(.*?)\]")


def node_leg(ctx, binary, replay=None):
    """NODE leg: real Module.Configure on generated definition directories + server ids, then real Register / Get / Search
    for served, known and unknown list ids with X-Forwarded-Host values, against NutsModel/C16/Node.lean; direct oracle on
    the implementation's own lines (what was loaded vs what the files say; which list got the row; which definition decided)"""
    out = os.path.join(ctx.scratch, "node")
    env = {"TMPDIR": ctx.scratch, "VERIF_NODE_CONFIGS": 400 if ctx.thorough else 36, "VERIF_NODE_OPS": 14}
    seed_env = None
    if replay:
        seed_env, env["VERIF_NODE_ONLY"] = replay["seed"], replay["cfg"]
    os.makedirs(out, exist_ok=True)
    e = dict(env)
    if seed_env is not None:
        e["VERIF_SEED"] = seed_env
    rc, log, out = ctx.run_harness(binary, "TestVerifC16Node", e, outdir=out, timeout=1500)
    if rc != 0:
        ctx.oblige("node-harness-runs", False, log[-1200:])
        return
    ops_p, impl_p, model_p = (os.path.join(out, x) for x in ("nodeops.jsonl", "nodeimpl.out", "nodemodel.out"))
    ok, err = ctx.model("C16", ops_p, model_p)
    ctx.oblige("node-model-driver-runs", ok, err[-500:])
    impl, model, bad = ctx.compare(impl_p, model_p)
    ops_txt = ctx.read_lines(ops_p)
    ops = [json.loads(x) if x else {} for x in ops_txt]
    fails, first = Counter(), {}
    dist = Counter()
    start = 0
    conf = None

    def flag(sig, what, i):
        fails[sig] += 1
        if sig not in first:
            first[sig] = True
            ctx.violation("C16:node:" + sig, what + f" (configuration starting at op {start}, failing op {i}: {impl[i][:300]}; re-run: VERIF_SEED={ops[start].get('seed')} VERIF_NODE_ONLY={ops[start].get('cfg')})",
                          "node-" + re.sub(r"[^A-Za-z0-9_.-]+", "-", sig) + ".jsonl", "\n".join(ops_txt[start:i + 1]) + "\n")

    def parse_lists(txt):
        res = {}
        for m in NODE_LIST.finditer(txt):
            res[m.group(1)] = {"seed": m.group(2), "ts": int(m.group(3)), "rows": parse_rows(m.group(4), True)}
        return res

    lists = {}
    node_vps, n_client_lists = {}, [0]
    for i, line in enumerate(impl):
        op = ops[i] if i < len(ops) else {}
        kind = op.get("op")
        if kind == "nconf":
            start, lists = i, {}
            node_vps = {}
            ents = op.get("entries", [])
            elig = [e for e in ents if not e["isDir"] and e["name"].endswith(".json")]
            defects = [e for e in elig if e["intent"] in ("duplicate", "invalid", "dangling", "link-to-dir")]
            valid = {e["wantId"]: e for e in elig if e["intent"] == "valid"}
            cls = line.split()[1] if len(line.split()) > 1 else "?"
            dist["nconf:" + cls + ":" + op.get("dirKind", "?")] += 1
            conf = None
            if cls == "ok":
                m = re.match(r"^nconf ok all=\[(.*?)\] server=\[(.*?)\]$", line)
                if not m:
                    flag("unparsable-line", "Configure line does not parse", i)
                    continue
                allm = dict(x.split("=", 1) for x in m.group(1).split())
                srv = dict(x.split("=", 1) for x in m.group(2).split())
                if op["dirKind"] == "directory":
                    if defects:
                        flag("configure-accepted-defective-directory", f"Configure succeeded although the directory holds {[(e['name'], e['intent']) for e in defects]}", i)
                    want = {k: f"{k}:{e['wantMax']}:{','.join(e.get('wantMethods') or []) or '-'}" for k, e in valid.items()}
                    if allm != want:
                        flag("loaded-definitions-differ-from-files", f"loaded {allm}, the eligible files define {want}", i)
                    unknown = [x for x in op["serverIds"] if x not in valid]
                    if unknown:
                        flag("configure-accepted-unknown-server-id", f"Configure succeeded although server ids {unknown} have no definition", i)
                    if set(srv) != set(op["serverIds"]) or any(v != k for k, v in srv.items()):
                        flag("served-lists-differ-from-configured-ids", f"serves {srv}, configured {op['serverIds']}", i)
                elif op["dirKind"] in ("unset", "default-missing"):
                    if allm or srv:
                        flag("definitions-from-nowhere", "definitions loaded although no directory is configured / the default one is missing", i)
                else:
                    flag("configure-accepted-unusable-directory", f"Configure succeeded on a {op['dirKind']} definitions directory", i)
                conf = {"all": {k: {"id": k, "maxValidity": e["wantMax"], "didMethods": e.get("wantMethods") or []} for k, e in valid.items()} if op["dirKind"] == "directory" else {},
                        "served": set(srv), "endpoint": {e["parsed"]["id"]: e["parsed"]["endpoint"] for e in elig if e.get("parsed")},
                        "ephost": {e["parsed"]["id"]: e["parsed"].get("endpointHost") for e in elig if e.get("parsed")}}
            else:
                reason = defects or [x for x in op["serverIds"] if x not in valid] or op["dirKind"] in ("missing", "plain-file", "missing-parent")
                if not reason:
                    flag("configure-refused-sound-configuration", f"Configure failed with {cls} on a directory without defects", i)
            continue
        if conf is None:
            continue
        sid = op.get("sid")
        if kind in ("nregister", "nget") and sid in conf["all"] and sid not in conf["served"]:
            # a forwarding cycle: the request came with X-Forwarded-Host naming the very host the list's endpoint is on
            f = op.get("fwd") or {}
            is_cycle = bool(f.get("header")) and f.get("host") is not None and conf["ephost"].get(sid) is not None and f["host"] == conf["ephost"][sid]
            word = line.split()[1]
            if word == "cycle" and not is_cycle:
                flag("cycle-reported-without-a-cycle", f"{kind}({sid}) with forwarded host {f} was refused as a cycle; the endpoint is {conf['endpoint'].get(sid)}", i)
            if word.startswith("fwd:") and is_cycle:
                flag("forwarding-cycle-not-detected", f"{kind}({sid}) with forwarded host {f} was forwarded to {conf['endpoint'].get(sid)}", i)
        if kind == "nregister":
            m = NODE_LINE.match(line)
            if not m:
                flag("unparsable-line", "Register line does not parse", i)
                continue
            outc, now_lists = m.group(1), parse_lists(m.group(3))
            dist["nregister:" + op.get("class", "?") + ":" + ("served" if sid in conf["served"] else "known" if sid in conf["all"] else "unknown") + ":" + outc.split(" ")[0].split(":http")[0]] += 1
            prev = lists or {k: {"seed": "-", "ts": 0, "rows": []} for k in now_lists}
            changed = [k for k in now_lists if now_lists[k] != prev.get(k)]
            vp, now = op["vp"], op["now"]
            if outc.startswith("panic"):
                flag("unexpected-outcome-panic", f"Register panicked: {outc}", i)
            # how a refusal is reported to the caller (the REST layer maps it: ErrInvalidPresentation / ErrDIDMethodsNotSupported
            # -> 400, ErrServiceNotFound -> 404): a presentation refused by a check is the submitter's fault. As the code is, a
            # wrong audience and an underivable signer are returned bare (-> 500); everything else must carry the sentinel.
            kflags = m.group(2)
            if outc.startswith("err:") and not outc.startswith("err:other") and outc not in ("err:aud", "err:signer") and "i" not in kflags:
                flag("refusal-not-reported-as-invalid-presentation", f"Register({sid}) refused with {outc} but the error is not ErrInvalidPresentation (k={kflags})", i)
            if (outc == "err:did-method") != ("d" in kflags) or (outc == "not-found") != ("n" in kflags):
                flag("refusal-reported-with-the-wrong-sentinel", f"Register({sid}) ended with {outc}, sentinels k={kflags}", i)
            if outc == "ok":
                if sid not in conf["served"]:
                    flag("registered-on-a-list-the-node-does-not-serve", f"Register({sid}) accepted, served lists are {sorted(conf['served'])}", i)
                else:
                    d = conf["all"][sid]
                    why = acceptable(vp, d, now, prev.get(sid, {"rows": []})["rows"])
                    if why:
                        flag("listed-unsound-" + re.sub(r"[^a-z]+", "-", why[0].lower()), f"list {sid} accepted a registration that is " + "; ".join(why) + f" (by the definition FILE of {sid}: {d})", i)
                    new = [r for r in now_lists.get(sid, {"rows": []})["rows"] if r["ts"] == now_lists[sid]["ts"]]
                    if now_lists[sid]["ts"] != prev.get(sid, {"ts": 0})["ts"] + 1 or len(new) != 1 or new[0]["id"] != vp.get("id") or new[0]["subject"] != vp["signer"][0]:
                        flag("accepted-row-not-on-its-list", f"the accepted presentation is not the newest row of list {sid}", i)
                    for k in changed:
                        if k != sid:
                            p, c = prev[k], now_lists[k]
                            gone = [r for r in p["rows"] if r not in c["rows"]]
                            if c["seed"] != p["seed"] or c["ts"] != p["ts"] or any(r not in p["rows"] for r in c["rows"]) or any(r["exp"] > now - ops[start]["t0"] + 2 for r in gone):
                                flag("registration-changed-another-list", f"Register({sid}) changed list {k} beyond pruning expired rows", i)
            else:
                if changed:
                    flag("refused-or-forwarded-request-changed-a-list", f"Register({sid}) ended with {outc} and changed lists {changed}", i)
                if outc.startswith("fwd:"):
                    if sid in conf["served"] or sid not in conf["all"]:
                        flag("forwarded-a-request-it-should-not", f"Register({sid}) was forwarded ({outc})", i)
                    elif outc != "fwd:register " + conf["endpoint"].get(sid, "?"):
                        flag("forwarded-to-the-wrong-endpoint", f"Register({sid}) went to {outc}, the definition says {conf['endpoint'].get(sid)}", i)
                if outc == "not-found" and sid in conf["all"]:
                    flag("known-service-reported-unknown", f"Register({sid}) -> not found", i)
                if sid not in conf["all"] and outc != "not-found":
                    flag("unknown-service-not-refused", f"Register({sid}) -> {outc}", i)
                if sid in conf["served"] and not acceptable(vp, conf["all"][sid], now - 3, prev.get(sid, {"rows": []})["rows"]) and outc != "err:exists" \
                        and not any(r["subject"] == vp["signer"][0] and r["id"] == vp.get("id") for r in prev.get(sid, {"rows": []})["rows"]):
                    flag("acceptable-registration-refused", f"list {sid} refused ({outc}) a registration that satisfies its definition", i)
            lists = now_lists
            if outc == "ok":
                node_vps[(sid, vp["signer"][0], vp.get("id"))] = vp
        elif kind == "nupdate":
            # round 3: the real clientUpdater.update() of a second node mirroring ALL lists of the configuration in one store
            m = re.match(r"^nupdate (\S+) failed=\[(.*?)\]((?: \| \S* seed=\S+ ts=\d+ \[.*?\])*)$", line)
            if not m:
                flag("unparsable-line", "update line does not parse", i)
                continue
            dist["nupdate:" + m.group(1).split(":")[0] + ":" + ("some-unreachable" if m.group(2) else "all-reachable")] += 1
            if m.group(1) != "ok":
                flag("client-update-" + m.group(1).split(":")[0], f"clientUpdater.update ended with {m.group(1)}", i)
            unreachable = sorted(k for k in conf["all"] if k not in conf["served"])
            if sorted(x for x in m.group(2).split(",") if x) != unreachable:
                flag("client-update-reports-wrong-failures", f"update reports failures for [{m.group(2)}], unreachable lists are {unreachable}", i)
            for k, c in parse_lists(m.group(3)).items():
                srv_l = lists.get(k, {"seed": "-", "ts": 0, "rows": []})
                ck = {(r["subject"], r["id"]) for r in c["rows"]}
                if k not in conf["served"]:
                    if c["rows"] or c["ts"] != 0:
                        flag("client-holds-rows-of-an-unreachable-list", f"replica of {k} (not served by the other node): {c}", i)
                    continue
                n_client_lists[0] += 1
                if ck != {(r["subject"], r["id"]) for r in srv_l["rows"]} or c["ts"] != srv_l["ts"] or c["seed"] != srv_l["seed"]:
                    flag("client-replica-differs-from-served-list", f"after update() the replica of {k} is {sorted(ck)} ts={c['ts']}, the server lists {sorted((r['subject'], r['id']) for r in srv_l['rows'])} ts={srv_l['ts']}"
                         " (another list of the same client failing or being applied must not matter)", i)
                for r in c["rows"]:
                    v = node_vps.get((k, r["subject"], r["id"]))
                    if v is None:
                        continue
                    should = bool(v.get("verifyC")) and not v.get("retraction")
                    if r["validated"] and not should:
                        flag("client-flagged-entry-it-cannot-have-verified", f"replica of {k}: {r['subject']}:{r['id']} is validated (verifyC={v.get('verifyC')}, retraction={v.get('retraction')})", i)
                    if should and not r["validated"]:
                        flag("client-did-not-flag-verified-entry", f"replica of {k}: {r['subject']}:{r['id']} verifies on the client but is not validated", i)
        elif kind == "nsearchq":
            q = [(t["k"], t["v"]) for t in op.get("query", [])]
            dist["nsearchq:" + ("unknown" if sid not in conf["all"] else "+".join(k.split(".")[-1] + ("~" if "*" in v else "=") for k, v in q) or "empty")] += 1
            if (line == "nsearchq not-found") != (sid not in conf["all"]):
                flag("search-service-check-wrong", f"Search({sid}, {q}) -> {line}", i)
            elif sid in conf["all"]:
                if not line.startswith("nsearchq ["):
                    flag("search-with-query-failed", f"Search({sid}, {q}) -> {line}", i)
                    continue
                got = set(line[len("nsearchq ["):-1].split())
                cur = lists.get(sid, {"rows": []})
                cols = {"id": "id", "issuer": "issuer", "type": "type", "credentialSubject.id": "subjectId"}

                def term_ok(c, k, v):
                    vals = [c[cols[k]]] if k in cols else [p["v"] for p in c["props"] if p["p"] == k]
                    vals = [x for x in vals if x is not None]
                    if v.strip() == "*":
                        return bool(vals)
                    if v.startswith("*") or v.endswith("*"):
                        core = v[1:] if v.startswith("*") else v
                        pre = ".*" if v.startswith("*") else ""
                        post = ""
                        if core.endswith("*"):
                            core, post = core[:-1], ".*"
                        rx = pre + "".join(".*" if ch == "%" else "." if ch == "_" else re.escape(ch) for ch in core) + post
                        return any(re.fullmatch(rx, x, re.I | re.S) for x in vals)
                    return v in vals
                index = {e["pid"]: e["creds"] for e in op.get("index", [])}
                want = set()
                for r_ in cur["rows"]:
                    if r_["validated"] and r_["exp"] > op["now"] - ops[start]["t0"] and (not q or any(all(term_ok(c, k, v) for k, v in q) for c in index.get(r_["id"], []))):
                        want.add(r_["id"])
                if got - want:
                    flag("search-with-query-unsound", f"Search({sid}, {q}) returned {sorted(got - want)}: not a validated unexpired entry of the list with ONE credential fulfilling every term", i)
                if want - got:
                    flag("search-with-query-incomplete", f"Search({sid}, {q}) misses {sorted(want - got)}", i)
        elif kind == "nrestart":
            dist["nrestart"] += 1
            now_lists = parse_lists(line)
            if not line.startswith("nrestart ok") or (lists and now_lists != lists):
                flag("restart-changed-a-list", f"the node came back ({line.split()[1]}) with other lists / seeds / timestamps than it went down with", i)
        elif kind == "nget":
            dist["nget:" + ("served" if sid in conf["served"] else "known" if sid in conf["all"] else "unknown") + ":" + line.split()[1].split(":http")[0]] += 1
            m = re.match(r"^nget rows seed=(\S+) ts=(\d+) \[(.*?)\] k=", line)
            if m:
                after = op.get("ts") if op.get("ts") is not None else 0
                cur = lists.get(sid, {"seed": "-", "ts": 0, "rows": []})
                want = sorted((r["ts"], r["id"]) for r in cur["rows"] if r["ts"] > after)
                got = sorted((int(x.split(":", 1)[0]), x.split(":", 1)[1]) for x in m.group(3).split())
                if sid not in conf["served"]:
                    flag("get-answered-for-a-list-it-does-not-serve", f"Get({sid}) answered locally", i)
                elif got != want or int(m.group(2)) != cur["ts"] or m.group(1) != cur["seed"]:
                    flag("get-result-wrong", f"Get({sid}, {op.get('ts')}) returned {got} ts={m.group(2)}, the list holds {want} ts={cur['ts']}", i)
            elif line.startswith("nget fwd:"):
                after = op.get("ts") if op.get("ts") is not None else 0
                if sid in conf["served"] or sid not in conf["all"] or not line.startswith(f"nget fwd:get {conf['endpoint'].get(sid, '?')} {after} "):
                    flag("get-forwarded-wrongly", f"Get({sid}, {op.get('ts')}) -> {line}", i)
            elif line.startswith("nget not-found"):
                if sid in conf["all"]:
                    flag("known-service-reported-unknown", f"Get({sid}) -> not found", i)
            elif not line.startswith("nget cycle"):
                flag("get-failed", f"Get({sid}) -> {line}", i)
        elif kind == "nsearch":
            dist["nsearch:" + ("known" if sid in conf["all"] else "unknown")] += 1
            if (line == "nsearch not-found") != (sid not in conf["all"]):
                flag("search-service-check-wrong", f"Search({sid}) -> {line}", i)
            elif sid in conf["all"]:
                cur = lists.get(sid, {"rows": []})
                got = set(line[len("nsearch ["):-1].split())
                if not got <= {r["id"] for r in cur["rows"] if r["validated"]}:
                    flag("search-returned-row-of-another-list", f"Search({sid}) -> {line}, list holds {[r['id'] for r in cur['rows']]}", i)
    ctx.oblige("oracle:node(configure/route/lists)(impl)", not fails, "; ".join(f"{k} x{v}" for k, v in fails.items())[:600])
    if bad:
        i = bad[0]
        k = i
        while k > 0 and ops[k].get("op") != "nconf":
            k -= 1
        detail = f"first differing line {i}\nop   : {ops_txt[i][:700] if i < len(ops_txt) else None}\nimpl : {impl[i][:600] if i < len(impl) else None}\nmodel: {model[i][:600] if i < len(model) else None}"
        ctx.oblige("correspondence:node-model=impl", False, f"{len(bad)} of {len(impl)} lines differ; " + detail[:900])
        if not fails:
            with open(os.path.join(ctx.replay_dir(), "node-correspondence.jsonl"), "w") as f:
                f.write("\n".join(ops_txt[k:i + 1]) + "\n")
            ctx.unproved(["correspondence C16 node leg (nodemodel.out != nodeimpl.out)"], detail + f"\nreplay ops: {ctx.replay_dir()}/node-correspondence.jsonl")
    else:
        ctx.oblige("correspondence:node-model=impl", True, f"{len(impl)} lines equal")
    ctx.cov["node_ops"] = len(impl)
    ctx.cov["node_client_replicas_compared"] = n_client_lists[0]
    ctx.cov["node_distribution"] = dict(sorted(dist.items()))


def run(ctx):
    ctx.facts()
    thms = ctx.build_and_audit(["NutsProofs.Props.C16", "NutsProofs.Props.C16Node", "NutsProofs.Props.C16R3", "NutsProofs.Props.C16Client"])
    for r in REQUIRED:
        if not any(t.endswith("Props." + r) for t in thms):
            ctx.oblige("thm-present:" + r, False, "theorem missing or its module does not build")
    ctx.trusted += [
        "modelled, not verified: PresentationDefinition.Match (C12 owns PEX; its verdict is an input), Verifier.VerifyVP (verdict is an input), "
        "jwx/go-did parsing of the JWT presentation (the harness reads the same accessors to describe the presentation to the model), "
        "gorm/SQLite: each statement / transaction is atomic, SELECT ... FOR UPDATE serialises add() per service, uuid.NewString never repeats",
        "model scope: discovery/module.go (Register, verifyRegistration, validateRegistration, validateRetraction, Get), store.go (add, get, exists, "
        "prune, search, wipeOnSeedChange, updateValidated, increment/setTimestamp), client.go (clientUpdater.updateService, registrationManager.validate)",
    ]
    ctx.assumptions += [
        "one service; server and client clocks agree (one clock in the model); one poller per client (updateService is not run concurrently with itself)",
        "a presentation id identifies the presentation per signer (jti uniqueness, RFC 7519); no SQL faults (DESIGN §7 #18 is outside the quantifier)",
        "credential revocation (removeRevoked) and forwarding to another server are not part of the property's events",
    ]

    if not ctx.replay:
        wire_leg(ctx)
    binary = ctx.go_test_binary(PKG, HARNESS, "c16")
    if binary is None:
        ctx.oblige("harness-builds", False, ctx.harness_error[-1500:])
        return
    ctx.oblige("harness-builds", True)
    node_replay = None
    if ctx.replay:
        try:
            first_op = json.loads(open(ctx.replay).readline())
            if first_op.get("op") == "nconf":
                node_replay = {"seed": first_op.get("seed", ctx.seed), "cfg": first_op.get("cfg", 1)}
        except (OSError, ValueError):
            pass
    if node_replay or not ctx.replay:
        node_leg(ctx, binary, node_replay)
    if node_replay:
        return
    env = {"TMPDIR": ctx.scratch}
    if ctx.replay:
        env["VERIF_REPLAY"] = os.path.abspath(ctx.replay)
    else:
        env["VERIF_CORPUS"] = os.path.join(os.path.dirname(os.path.dirname(os.path.abspath(__file__))), "harness", "corpus", "C16")
        env["VERIF_HISTORIES"] = 1500 if ctx.thorough else 130
        env["VERIF_OPS"] = 60 if ctx.thorough else 40
        env["VERIF_SLEEP_HISTORIES"] = 12 if ctx.thorough else 2
    rc, log, out = ctx.run_harness(binary, "TestVerifC16", env, timeout=3000)
    if rc != 0:
        ctx.oblige("harness-runs", False, log[-1500:])
        return
    ctx.oblige("harness-runs", True)
    ops_p, impl_p, model_p = (os.path.join(out, x) for x in ("ops.jsonl", "impl.out", "model.out"))
    ok, err = ctx.model("C16", ops_p, model_p)
    ctx.oblige("model-driver-runs", ok, err[-500:])
    impl, model, bad = ctx.compare(impl_p, model_p)
    ops_txt = ctx.read_lines(ops_p)
    ops = [json.loads(x) if x else {} for x in ops_txt]
    side_p = os.path.join(out, "side.jsonl")
    side_obs = [json.loads(x) if x else {} for x in ctx.read_lines(side_p)] if os.path.exists(side_p) else []

    # ---------- direct property oracle on the implementation's own lines ----------
    classes, results, distinct = Counter(), Counter(), set()
    oracle_fail = Counter()
    hist_start = 0
    d = None
    prev = None
    t0 = 0
    epoch_max = 0          # highest timestamp handed out under the current seed
    accepted = {}          # id -> (op index, vp) of accepted registrations in this history
    sub_hist = {}          # subject -> list of (exp, id) of accepted registrations, in order
    resets = 0
    seeds_seen, n_seed_draws = set(), 0
    wipes = 0              # times the client's seed changed from one list to another (wipeOnSeedChange fired)
    n_checked_conv = 0
    n_restart = 0
    prev_side, noise_ids = None, set()
    n_side = 0
    versions = {}          # (subject, id) -> every accepted presentation with that key, in order (id reuse)
    handed_out = {}        # (subject, id) -> description of a presentation a defective server handed out (pollinject)
    n_forged = Counter()
    inflight, interleaved = 0, False   # responses of overlapping polls in flight; a poll STARTED while another response was in flight

    known_sig = {}         # signature -> True if it matches an open known finding
    oracle_known = Counter()

    def report(sig, what, i):
        if sig not in known_sig:
            text = "\n".join(ops_txt[hist_start:i + 1]) + "\n"
            fresh = ctx.violation(sig, what + f" (history starting at op {hist_start}, failing op {i}: {impl[i][:300]})",
                                  re.sub(r"[^A-Za-z0-9_.-]+", "-", sig.split(":", 1)[1]) + ".jsonl", text)
            known_sig[sig] = not fresh
        if known_sig[sig]:
            oracle_known[sig] += 1
        else:
            oracle_fail[sig] += 1

    def best_version(key):
        """the description of the presentation behind a replica row: among the accepted presentations with this key (or what a
        defective server handed out) the one the client's own verification can have accepted, if there is one"""
        vs = versions.get(key) or ([handed_out[key]] if key in handed_out else [])
        for v in reversed(vs):
            if v.get("verifyC") and not client_cannot_verify(v, d):
                return v
        for v in reversed(vs):
            if v.get("verifyC"):
                return v
        return vs[-1] if vs else {}

    for i, line in enumerate(impl):
        op = ops[i] if i < len(ops) else {}
        kind = op.get("op")
        if kind == "init":
            hist_start, d, prev, t0 = i, op["def"], None, op["t0"]
            epoch_max, accepted, sub_hist, resets, wipes = 0, {}, {}, 0, 0
            prev_side, noise_ids = None, set()
            inflight, interleaved = 0, False
            handed_out, versions = {}, {}
            seeds_seen = set()
            continue
        if kind == "get":
            classes["get"] += 1
            m = re.match(r"^get after=(\d+) seed=(\S+) ts=(\d+) \[(.*)\]$", line)
            if not m or prev is None:
                if not m:
                    report("C16:get-failed", "server Get failed: " + line[:100], i)
                continue
            got = {tuple(x.split(":", 1)) for x in m.group(4).split()}
            want = {(str(r["ts"]), r["id"]) for r in prev["S"]["rows"] if r["ts"] > int(m.group(1))}
            if got != want or int(m.group(3)) != prev["S"]["ts"] or m.group(2) != prev["S"]["seed"]:
                report("C16:get-result-wrong", f"Get(after={m.group(1)}) returned {sorted(got)} ts={m.group(3)}, list has {sorted(want)} ts={prev['S']['ts']}", i)
            continue
        st = parse_line(line)
        if st is None:
            report("C16:unparsable-line", "implementation line does not parse", i)
            continue
        now = op.get("now", t0)
        cls = st["cls"]
        if kind == "dstart":
            interleaved = interleaved or inflight > 0
            inflight += 1
        elif kind == "dfinish":
            inflight -= 1
        classes[op.get("class") or kind] += 1
        results[cls] += 1
        if st["S"]["rows"] or st["C"]["rows"]:
            distinct.add((kind, line))
        if cls.startswith("panic") or (cls.startswith("err:other") and not (kind == "pollall" and cls == "err:other-service-down")):
            report("C16:unexpected-outcome:" + cls.split(":")[0], f"operation {kind} ended with {cls}", i)
        S, C = st["S"], st["C"]
        pS = prev["S"] if prev else {"seed": "-", "ts": 0, "rows": []}
        ckeys = {(r["subject"], r["id"]): r for r in C["rows"]}
        # round 3 (clause "starting over when the server's seed changes"): a list that gets a seed gets one no list had before
        if S["seed"] != "-" and pS["seed"] != S["seed"]:
            if S["seed"] in seeds_seen:
                report("C16:seed-reused", f"the server list got the seed {S['seed']} which an earlier list of this history already had: a client cannot tell the lists apart", i)
            seeds_seen.add(S["seed"])
            n_seed_draws += 1
        if prev and prev["C"]["seed"] not in ("-", C["seed"]):
            wipes += 1
            if inflight > 0:
                interleaved = True   # the replica was wiped while a response (requested for the old copy) is in flight
        # at most one entry per subject (server and replica)
        for side, name in ((S, "server"), (C, "client")):
            subs = [r["subject"] for r in side["rows"]]
            if len(subs) != len(set(subs)):
                report(f"C16:two-entries-for-one-subject:{name}", f"{name} holds two entries of one subject", i)
        # timestamps
        tss = [r["ts"] for r in S["rows"]]
        if len(tss) != len(set(tss)) or any(t > S["ts"] or t < 1 for t in tss):
            report("C16:timestamps-not-strict", "server rows share a timestamp or exceed the service timestamp", i)
        if kind == "register":
            vp = op["vp"]
            if cls == "ok":
                why = acceptable(vp, d, now, pS["rows"])
                if why:
                    report("C16:listed-unsound:" + re.sub(r"[^a-z]+", "-", why[0].lower()), "accepted a registration that is " + "; ".join(why), i)
                if pS["seed"] != "-" and S["seed"] != pS["seed"]:
                    report("C16:seed-changed-without-reset", "server seed changed on a registration", i)
                if S["ts"] != pS["ts"] + 1 or S["ts"] <= epoch_max:
                    report("C16:timestamps-not-strict", f"registration got timestamp {S['ts']} after {pS['ts']} (max handed out {epoch_max})", i)
                new = [r for r in S["rows"] if r["ts"] == S["ts"]]
                if len(new) != 1 or new[0]["id"] != vp.get("id") or new[0]["subject"] != vp["signer"][0] or new[0]["exp"] != vp["exp"] - t0:
                    report("C16:listed-row-mismatch", "the accepted presentation is not the row with the new timestamp", i)
                epoch_max = max(epoch_max, S["ts"])
                accepted[(vp["signer"][0], vp.get("id"))] = (i, vp)
                # a signer may REUSE an id for another presentation (the entry in between was replaced): the replica skips an
                # entry whose (signer, id) it holds, so it may hold ANY of the versions — the lines do not say which
                versions.setdefault((vp["signer"][0], vp.get("id")), []).append(vp)
                sub_hist.setdefault(vp["signer"][0], []).append((vp["exp"], vp.get("id")))
            else:
                if S != pS:
                    report("C16:rejected-registration-changed-list", "a rejected registration changed the server list", i)
        elif kind == "reset":
            epoch_max = 0
            resets += 1
        elif kind == "noise":
            # an entry on ANOTHER list of the server: this list may only lose expired rows (add prunes every list)
            gone = [r for r in pS["rows"] if r not in S["rows"]]
            if S["seed"] != pS["seed"] or S["ts"] != pS["ts"] or any(r not in pS["rows"] for r in S["rows"]) or \
                    any(r["exp"] > now - t0 + 2 for r in gone):
                report("C16:other-list-registration-changed-this-list", "a registration on another list of the server changed this list", i)
        else:
            if S != pS and kind != "pollB":
                report("C16:client-op-changed-server", f"{kind} changed the server list", i)
        if kind in ("restartS", "restartC") and prev and (S != prev["S"] or C != prev["C"]):
            report("C16:restart-changed-persistent-state", f"{kind}: the node came back with another list / seed / timestamp / replica than it went down with", i)
        if kind == "purge" and prev and C != prev["C"]:
            report("C16:purge-removed-unrevoked-entry", "removeRevoked changed the replica although nothing is revoked", i)
        if kind in ("noise", "cnoise", "verifier", "purge", "validate") and prev:
            pc, cc = prev["C"], C
            if kind in ("noise", "verifier", "purge") and pc != cc and kind != "purge":
                report("C16:unrelated-op-changed-replica", f"{kind} changed the replica", i)
            if kind == "cnoise" and (pc["seed"] != cc["seed"] or pc["ts"] != cc["ts"] or any(r not in pc["rows"] for r in cc["rows"]) or
                                     any(r["exp"] > now - t0 + 2 for r in pc["rows"] if r not in cc["rows"])):
                report("C16:other-list-poll-changed-this-replica", "copying another list changed the replica of this list", i)
        # the other list's rows on both nodes only change through operations on that list; search with a query is sound
        sd = side_obs[i] if i < len(side_obs) else None
        if sd and "s2S" in sd:
            n_side += 1
            if kind == "noise" and ops[i].get("added"):
                noise_ids.add(op["vp"]["signer"][0] + ":" + op["vp"]["id"])
            if kind == "reset":
                pass
            want = sorted(k + ":" + v for k, v in sd.get("noise", {}).items())
            if sd["s2S"] != want:
                report("C16:other-list-rows-wrong-on-server", f"the server's other list holds {sd['s2S']}, its registrations say {want}", i)
            if prev_side is not None and kind not in ("cnoise", "pollall") and sd["s2C"] != prev_side["s2C"]:
                report("C16:replica-of-other-list-changed", f"{kind} on this list changed the client's copy of another list", i)
            if any(x not in noise_ids for x in sd["s2C"]):
                report("C16:replica-of-other-list-holds-foreign-row", "the client's copy of the other list holds a row that was never registered there", i)
            for sub, res in sd.get("q2", {}).items():
                for x in res:
                    s_, pid = x.rsplit(":", 1)
                    r = ckeys.get((s_, pid))
                    vpd = best_version((s_, pid))
                    if r is None or s_ != sub or not r["validated"] or r["exp"] <= now - t0 - 2 or not vpd.get("verifyC"):
                        report("C16:search-with-query-unsound", f"client search for subject {sub} returned {x}", i)
            prev_side = sd

        # every listed row stems from an accepted registration
        for r in S["rows"]:
            if (r["subject"], r["id"]) not in accepted:
                report("C16:listed-unsound:unknown-row", "server lists a row that no accepted registration produced", i)
        # round 3: a presentation without id / not a JWT handed out by a hostile server is refused with an error and not stored
        if kind == "pollinject" and (op.get("class") or "").startswith("hostile:malformed"):
            n_forged[op.get("class", "?")] += 1
            if not cls.startswith("err:") and not cls.startswith("panic"):
                report("C16:client-accepted-malformed-presentation", f"updateService answered {cls} to a response holding a presentation without id / not a JWT", i)
            if prev and {(r["subject"], r["id"]) for r in C["rows"]} - {(r["subject"], r["id"]) for r in prev["C"]["rows"]}:
                report("C16:client-stored-malformed-presentation", "the replica gained a row from a response whose only new entry has no id / is not a JWT", i)
        # client search: only validated, unexpired rows the client verified itself
        if kind == "pollinject" and op.get("vp", {}).get("signer") and op["vp"].get("id") is not None:
            handed_out[(op["vp"]["signer"][0], op["vp"]["id"])] = op["vp"]   # what a defective server handed out
            n_forged[op.get("class", "?")] += 1
        for (sub, pid) in st["Q"]:
            r = ckeys.get((sub, pid))
            vpd = best_version((sub, pid))
            if r is None or not r["validated"] or r["exp"] <= now - t0 - 2 or not vpd.get("verifyC"):
                report("C16:search-unsound", f"client search returned {sub}:{pid} which is not a validated unexpired entry it verified", i)
            else:
                why = client_cannot_verify(vpd, d)
                if why:
                    report("C16:search-unsound:" + re.sub(r"[^a-z]+", "-", why[0].lower()),
                           f"client search returned {sub}:{pid} which the client's own verification cannot have accepted: " + "; ".join(why), i)
        for r in C["rows"]:
            vpd = best_version((r["subject"], r["id"]))
            if r["validated"] and not vpd.get("verifyC"):
                report("C16:validated-without-verification", "client row is validated although the client's verifier rejects it", i)
            elif r["validated"]:
                why = client_cannot_verify(vpd, d)
                if why:
                    report("C16:validated-without-verification:" + re.sub(r"[^a-z]+", "-", why[0].lower()),
                           f"client row {r['subject']}:{r['id']} is flagged validated although the client's own verification cannot have accepted it: " + "; ".join(why), i)
        # a poll that meets another seed than the replica's leaves the replica empty at timestamp 0 (starting over)
        if kind in ("poll", "pollall") and prev and prev["C"]["seed"] not in ("-", prev["S"]["seed"]):
            n_restart += 1
            if C["rows"] or C["ts"] != 0 or C["seed"] != S["seed"]:
                report("C16:no-restart-after-seed-change", "a poll that met a new seed did not leave an empty replica at timestamp 0 with the new seed", i)
        # convergence after quiescent polls
        in_step = prev is not None and prev["C"]["seed"] in ("-", prev["S"]["seed"])   # one poll suffices then
        if kind in ("poll", "pollall") and (op.get("quiet", 0) >= 2 or in_step):
            n_checked_conv += 1
            rel = now - t0
            liveS = {(r["subject"], r["id"]) for r in S["rows"] if r["exp"] > rel + 2}
            liveC = {(r["subject"], r["id"]) for r in C["rows"] if r["exp"] > rel + 2}
            liveS_lo = {(r["subject"], r["id"]) for r in S["rows"] if r["exp"] > rel - 2}
            liveC_lo = {(r["subject"], r["id"]) for r in C["rows"] if r["exp"] > rel - 2}
            missing = liveS - liveC_lo     # certainly live on the server, not held by the client
            stale = liveC - liveS_lo       # certainly live on the client, not listed by the server
            if S["seed"] != C["seed"] and (S["rows"] or C["rows"]) and op.get("quiet", 0) >= 2:
                report("C16:replica-seed-differs-after-quiescent-polls", "client seed differs from the server's after two quiescent polls", i)
            if (missing or stale) and interleaved:
                report("C16:replica-diverges-after-interleaved-overlapping-polls",
                       f"overlapping polls of one client (a poll started, or the replica was wiped, while another response was in flight): client lacks {sorted(missing)}, keeps {sorted(stale)}", i)
                missing, stale = set(), set()
            if missing:
                sig = "C16:replica-misses-entry-after-seed-change" if wipes else "C16:replica-misses-entry"
                report(sig, f"after quiescent polls the client lacks live server entries {sorted(missing)}", i)
            if stale:
                # explained by a later, shorter-lived registration of the same subject that expired and was pruned?
                explained = True
                for (sub, pid) in stale:
                    h = sub_hist.get(sub, [])
                    idx = [k for k, (_, x) in enumerate(h) if x == pid]
                    e0 = h[idx[-1]][0] if idx else None
                    if e0 is None or not any(e < e0 for (e, _) in h[idx[-1] + 1:]):
                        explained = False
                sig = "C16:replica-keeps-entry-superseded-by-shorter-lived-one" if explained else "C16:replica-holds-unlisted-entry"
                report(sig, f"after quiescent polls the client still holds live entries the server does not list {sorted(stale)}", i)
            def keep(c):   # expired rows may be pruned by any add (also one for another list): not part of idempotence
                return (c["seed"], [r for r in c["rows"] if r["exp"] > rel + 2])
            # the replica's timestamp is only written when an entry is stored: after a response that carried an older
            # service timestamp than its rows (registration between the two reads of get) it lags until an EXPIRED, pruned
            # entry is fetched again — it may catch up with the server's, never pass it or go back
            ts_ok = prev is None or (prev["C"]["ts"] <= C["ts"] <= max(S["ts"], prev["C"]["ts"]))
            if op.get("quiet", 0) >= 3 and prev and (keep(C) != keep(prev["C"]) or not ts_ok):
                report("C16:quiescent-poll-not-idempotent", "a third quiescent poll changed the replica", i)
        prev = st
    n_or = sum(oracle_fail.values())
    ctx.oblige("oracle:listed-sound/one-per-subject/timestamps/retraction/convergence/search(impl)", n_or == 0,
               "; ".join(f"{k} x{v}" for k, v in oracle_fail.items())[:600])

    # ---------- correspondence model vs implementation ----------
    if bad:
        i = bad[0]
        detail = f"first differing line {i}\nop   : {ops_txt[i][:600] if i < len(ops_txt) else None}\nimpl : {impl[i][:900] if i < len(impl) else None}\nmodel: {model[i][:900] if i < len(model) else None}"
        ctx.oblige("correspondence:model=impl", False, f"{len(bad)} of {len(impl)} lines differ; " + detail[:700])
        if n_or == 0:
            k = i
            while k > 0 and ops[k].get("op") != "init":
                k -= 1
            with open(os.path.join(ctx.replay_dir(), "correspondence.jsonl"), "w") as f:
                f.write("\n".join(ops_txt[k:i + 1]) + "\n")
            ctx.unproved(["correspondence C16 (model.out != impl.out)"], detail + f"\nreplay ops: {ctx.replay_dir()}/correspondence.jsonl")
    else:
        ctx.oblige("correspondence:model=impl", True, f"{len(impl)} lines equal")

    ctx.cov["evaluations"] = len(impl)
    ctx.cov["distinct_nontrivial"] = len(distinct)
    ctx.cov["traces_validated_against_impl"] = len(impl) - len(bad)
    ctx.cov["rule"] = ("histories of 40-60 ops on a real server Module + real client updater/sqlStore (two SQLite DBs, HTTP replaced by a direct adapter): "
                       "valid registrations / refreshes of 3 subjects, each single registration defect (format, id, audience, no exp, too long, no kid, DID method, "
                       "credential expiry, PEX no match / partial, verification, expired), duplicates, retractions by owner / other signer / unknown / malformed, "
                       "server resets (seed change), polls, polls with 1-3 server events between the two reads of sqlStore.get (gorm callback gate), validate(); "
                       "after every op the full server list, client replica and client search are compared with the model and checked by the direct oracle. "
                       "distinct_nontrivial = distinct (op, canonical state) lines with a non-empty list")
    if oracle_known:
        ctx.notes.append("oracle hits explained by open known findings: " + "; ".join(f"{k} x{v}" for k, v in oracle_known.items()))
    ctx.cov["input_distribution"] = {"op_classes": dict(classes.most_common()), "results": dict(results.most_common()),
                                     "histories": sum(1 for o in ops if o.get("op") == "init"), "convergence_checks": n_checked_conv, "seed_change_restarts": n_restart, "side_observations": n_side,
                                     "forged_by_defective_server": dict(n_forged), "seed_draws_checked": n_seed_draws}
    ctx.cov["samples"] = [ops_txt[1][:300] if len(ops_txt) > 1 else "", impl[-1][:300] if impl else ""]
