"""C08 — DAG digests (XOR, IBLT), clock-ordered listing, highest clock, count and head equal what the stored set implies.
Lean: NutsProofs.Props.C08 over NutsModel.C08 (Tree/Data/State/Spec) + regenerated facts.
Correspondence: two in-package harnesses — network/dag/tree (tree ops vs model) and network/dag (the real `state` on bbolt:
generated DAG histories with rejected adds, injected commit failures, concurrent adds, restarts, corrupted XOR leaf + repair).
Direct oracle: an independent reference fold over the stored set, evaluated by the harness on the implementation's answers."""
import json, os, re
from collections import Counter

HARNESSES = [
    ("network/dag/tree", ["network/dag/tree/zz_verif_c08_test.go", "network/dag/tree/zz_verif_c08codec_test.go",
                          "network/dag/tree/zz_verif_c08_export.go"], "c08tree"),
    ("network/dag", ["network/dag/zz_verif_c08_test.go", "network/dag/zz_verif_c08codec_test.go", "network/dag/zz_verif_c08phase_test.go",
                     "network/dag/tree/zz_verif_c08_export.go"], "c08state"),
]

REQUIRED = [
    "tree_inv_new", "tree_inv_insert", "observables_of_inv", "tree_is_fold", "xor_tree_is_fold", "iblt_tree_is_fold",
    "xor_data_lawful", "iblt_data_lawful", "reRoot_overflow_witness",
    "state_refines_spec", "stored_set_changes_only_on_success", "add_rejected_noop", "rollback_restores", "restart_equiv",
    "clocks_downward_closed", "repair_idle_on_healthy_state", "repair_local", "repair_restores",
    "tree_inv_load", "tree_inv_replace", "zeroTo_clock_of_contiguous", "first_write_rollback_defect_before_fix",
    "fact_page_size", "fact_iblt_buckets", "fact_shelves", "fact_load_empty_resets", "fact_rollback_reload_context",
    "fact_add_tx_options", "fact_comparisons", "fact_call_structure", "fact_wiring", "fact_check_page_conditions",
    "fact_diagnostics", "diagnostics_spec", "save_failure_is_rolled_back", "fact_add_critical_section",
    "rollback_reload_race_defect_before_fix", "repair_restores_last_page_on_boundary", "fact_add_write_steps", "fact_add_mutex_spans_rollback_reload", "fact_check_page_is_one_write_transaction", "repair_atomic_wrt_add", "partial_update_is_rolled_back",
    "store_fault_at_any_put",
    "fact_codec", "leaf_key_roundtrip", "clock_key_roundtrip", "short_value_panics", "hash_list_roundtrip", "index_clock_bytes_refines",
    "leaf_codec_roundtrip", "leaf_codec_rejects", "load_bytes_refines", "load_bytes_error_unchanged", "persist_keeps_sorted",
    "load_state_through_bytes", "clock_keys_order", "clock_shelf_cursor_order", "leaf_keys_not_ordered", "metadata_getters_refine",
    "metadata_getters_fallback", "tree_inv_delete", "delete_undoes_insert", "xor_iblt_delete_lawful", "drop_leaves_spec",
    "drop_leaves_observables", "fact_tree_api", "new_iblt_buckets", "persist_full_eq_persist", "metric_tracks_stored_set",
    # round 3: Add as two store transactions, all interleavings of concurrent callers (Props/C08Phases.lean)
    "fact_add_phases", "add_is_read_then_write", "verifyPrevs_grow", "concurrent_adds_refine_spec",
    "concurrent_schedule_refines_spec", "stale_verdict_still_valid", "lost_race_changes_nothing", "winner_stores_once",
    "concurrent_adds_keep_dag_valid", "reachable_root",
    # round 3: the repair's own write transaction fails (Props/C08RepairFault.lean)
    "fact_repair_fault", "failed_repair_keeps_disk_same_memory", "repair_restores_memory_even_if_commits_fail",
    "failed_repair_idle_on_healthy_state", "failed_repair_is_not_durable_witness", "add_after_failed_repair_heals_store_witness",
]

STATELESS = ("tcx", "tci", "tcm", "tca", "tnb", "ckey", "kclk", "phl", "mget")  # replayed alone


def codec_oracle(op, line):
    """independent re-computation (python struct / int.from_bytes) of what the byte-layer ops of the real code answered.
    Returns None when fine, else a short reason."""
    import struct
    o = op.get("op")
    hx = lambda k: bytes.fromhex(op.get(k, "") or "")
    if o == "ckey":
        c = op.get("clock", 0)
        want = f"ckey le={c.to_bytes(4, 'little').hex()} be={c.to_bytes(4, 'big').hex()} rt={c},{c}"
        return None if line == want else f"want {want}"
    if o == "kclk":
        v = hx("val")
        le = str(int.from_bytes(v[:4], "little")) if len(v) >= 4 else "short"
        be = str(int.from_bytes(v[:4], "big")) if len(v) >= 4 else "short"
        cnt = str(int.from_bytes(v[:8], "big")) if len(v) >= 8 else "short"
        want = f"kclk le={le} be={be} cnt={cnt}"
        return None if line == want else f"want {want}"
    if o == "phl":
        v = hx("val")
        hs = [v[i * 32:(i + 1) * 32].hex() for i in range(len(v) // 32)]
        want = f"phl n={len(hs)} [{','.join(hs)}] app={(v + hx('ref')).hex()}"
        return None if line == want else f"want {want[:120]}"
    if o == "tnb":
        n = max(op.get("nb", 0), 6)
        return None if line == f"tnb {n} {n}" else f"want tnb {n} {n}"
    if o == "mget":
        mode, v = op.get("mode"), hx("val")
        if mode in ("notfound", "wrapped-notfound"):
            want = "mget lc=0 cnt=0 head=" + "00" * 32
        elif mode == "failed":
            want = "mget lc=0 cnt=0 head=err"
        else:
            lc = str(int.from_bytes(v[:4], "big")) if len(v) >= 4 else "short"
            cnt = str(int.from_bytes(v[:8], "big")) if len(v) >= 8 else "short"
            want = f"mget lc={lc} cnt={cnt} head={(v[:32] + bytes(32))[:32].hex()}"
        return None if line == want else f"want {want}"
    if o == "tcx":
        v = hx("b")
        want = "tcx ok:" + v.hex() if len(v) == 32 else "tcx err:invalid data length"
        return None if line == want else f"want {want}"

    def buckets(v):
        out = []
        for i in range(len(v) // 44):
            c, h = struct.unpack("<IQ", v[i * 44:i * 44 + 12])
            out.append((c, h, v[i * 44 + 12:i * 44 + 44]))
        return out
    fmt = lambda bs: " ".join(f"{c}:{h}:{k.hex()}" for c, h, k in bs)
    if o == "tci":
        v = hx("b")
        if len(v) % 44:
            want = "tci err:invalid data length"
        else:
            want = f"tci ok:nb={len(v) // 44} [{fmt(buckets(v))}] m={v.hex()}"
        return None if line == want else f"want {want[:120]}"
    if o == "tcm":
        want = "tcm " + b"".join(struct.pack("<IQ", b["c"], b["h"]) + bytes.fromhex(b["k"]) for b in op.get("bk") or []).hex()
        return None if line == want else f"want {want[:120]}"
    if o == "tca":
        a, b = hx("b"), hx("b2")
        if len(a) % 44:
            want = "tca err1:invalid data length"
        elif len(b) % 44:
            want = "tca err2:invalid data length"
        elif len(a) != len(b):
            want = "tca err:number of buckets do not match"
        else:
            s = [((c1 + c2) % 2**32, h1 ^ h2, bytes(x ^ y for x, y in zip(k1, k2))) for (c1, h1, k1), (c2, h2, k2) in zip(buckets(a), buckets(b))]
            want = f"tca ok:[{fmt(s)}]"
        return None if line == want else f"want {want[:120]}"
    if o == "raw":
        m = re.match(r"raw clk=(\S+) meta=(\S+) x=\[(.*)\] i=\[(.*)\] metric=\d+$", line)
        if not m:
            return "unparsable raw line"
        clk, meta, xs, is_ = m.groups()
        if clk != "-" and (len(clk) % 64 or len(set(clk[i:i + 64] for i in range(0, len(clk), 64))) != len(clk) // 64):
            return "clock shelf value is not a duplicate-free list of 32-byte hashes"
        xk = [e.split("=")[0] for e in xs.split(",") if e]
        ik = [e.split("=")[0] for e in is_.split(",") if e]
        if any(len(e.split("=")[1]) != 64 for e in xs.split(",") if e):
            return "an XOR leaf on disk is not 32 bytes"
        if meta != "-":
            lc = int(meta.split("/")[0], 16)
            pages = lc // 512 + 1
            want = sorted((256 + 512 * p).to_bytes(4, "little").hex() for p in range(pages))
            if xk != want or ik != want:
                return f"leaf keys on disk {xk[:4]}/{ik[:4]} are not clockToKey(splitLC) of pages 0..{pages - 1}"
        elif xk or ik or clk != "-":
            return "shelves not empty although no transaction is stored"
    return None


def history_start(ops, i, marker):
    k = i
    while k > 0 and json.loads(ops[k]).get("op") != marker:
        k -= 1
    return k


def run_level(ctx, level, pkg, files, name, marker, env_extra):
    """build + run one harness, run the model on its ops, compare, evaluate the oracle file. Returns stats dict."""
    res = {"lines": 0, "bad": 0, "oracle_fail": 0, "stats": {}}
    binary = ctx.go_test_binary(pkg, files, name)
    if binary is None:
        ctx.oblige(f"harness-builds:{level}", False, ctx.harness_error[-1500:])
        return res
    ctx.oblige(f"harness-builds:{level}", True)
    env = dict(env_extra)
    if ctx.replay:
        env["VERIF_REPLAY"] = os.path.abspath(ctx.replay)
    else:
        env["VERIF_CORPUS"] = os.path.join(os.path.dirname(os.path.dirname(os.path.abspath(__file__))), "harness", "corpus", "C08")
    out = os.path.join(ctx.scratch, "out-" + level)
    rc, log, out = ctx.run_harness(binary, "TestVerifC08", env, outdir=out, timeout=3000)
    if rc != 0:
        ctx.oblige(f"harness-runs:{level}", False, log[-1500:])
        return res
    ctx.oblige(f"harness-runs:{level}", True)
    ops_p, impl_p, model_p, orc_p = (os.path.join(out, x) for x in ("ops.jsonl", "impl.out", "model.out", "oracle.out"))
    ok, err = ctx.model("C08", ops_p, model_p)
    ctx.oblige(f"model-driver-runs:{level}", ok, err[-500:])
    impl, model, bad = ctx.compare(impl_p, model_p)
    ops = ctx.read_lines(ops_p)
    orc = ctx.read_lines(orc_p)
    res.update(lines=len(impl), bad=len(bad), impl=impl, ops=ops)
    try:
        res["stats"] = json.load(open(os.path.join(out, "stats.json")))
    except Exception:
        pass

    # ---- direct oracle (reference fold on the implementation's own answers)
    seen = set()
    nfail = 0
    for i, line in enumerate(orc):
        if not line.startswith("FAIL"):
            continue
        nfail += 1
        parts = line.split(":", 2)
        sig = f"C08:{level}:{parts[1]}"
        if sig in seen:
            continue
        seen.add(sig)
        k = history_start(ops, i, marker)
        ctx.violation(sig, f"{line[:200]} (op {i} of the run, history starts at op {k}; impl: {impl[i][:160] if i < len(impl) else ''})",
                      f"{level}-{parts[1]}.jsonl", "\n".join(ops[k:i + 1]) + "\n")
    # ---- byte-layer oracle: independent re-computation of the codec answers of the real code
    ncodec = 0
    for i, line in enumerate(impl):
        if i >= len(ops) or not ops[i]:
            continue
        try:
            o = json.loads(ops[i])
        except Exception:
            continue
        if o.get("op") not in STATELESS + ("raw",):
            continue
        ncodec += 1
        why = codec_oracle(o, line)
        if why:
            nfail += 1
            sig = f"C08:{level}:codec-{o['op']}"
            if sig in seen:
                continue
            seen.add(sig)
            k = i if o["op"] in STATELESS else history_start(ops, i, marker)
            ctx.violation(sig, f"byte layer: {o['op']} answered {line[:160]!r}; {why} (op {i})",
                          f"{level}-codec-{o['op']}.jsonl", "\n".join(ops[k:i + 1]) + "\n")
    res["codec_checked"] = ncodec
    res["oracle_fail"] = nfail
    ctx.oblige(f"oracle:reference-fold-agrees(impl):{level}", nfail == 0, f"{nfail} ops where the implementation differs from the reference fold")
    panics = [i for i, l in enumerate(impl) if "panic:" in l]
    for i in panics[:1]:
        k = history_start(ops, i, marker)
        ctx.violation(f"C08:{level}:panic", f"operation panicked: {impl[i][:200]}", f"{level}-panic.jsonl", "\n".join(ops[k:i + 1]) + "\n")
    ctx.oblige(f"oracle:no-panic(impl):{level}", not panics, f"{len(panics)} panicking ops")

    # ---- correspondence
    if bad:
        i = bad[0]
        detail = f"first differing line {i}\nimpl : {impl[i][:1200] if i < len(impl) else None}\nmodel: {model[i][:1200] if i < len(model) else None}"
        ctx.oblige(f"correspondence:model=impl:{level}", False, f"{len(bad)} of {len(impl)} lines differ; " + detail[:700])
        if nfail == 0 and not panics:
            k = history_start(ops, min(i, len(ops) - 1), marker)
            try:
                if json.loads(ops[min(i, len(ops) - 1)]).get("op") in STATELESS:
                    k = min(i, len(ops) - 1)
            except Exception:
                pass
            with open(os.path.join(ctx.replay_dir(), f"correspondence-{level}.jsonl"), "w") as f:
                f.write("\n".join(ops[k:i + 1]) + "\n")
            ctx.unproved([f"correspondence C08/{level} (model.out != impl.out)"],
                         detail + f"\nreplay ops: {ctx.replay_dir()}/correspondence-{level}.jsonl")
    else:
        ctx.oblige(f"correspondence:model=impl:{level}", True, f"{len(impl)} lines equal")
    return res


def run(ctx):
    ctx.facts()
    thms = ctx.build_and_audit(["NutsProofs.Props.C08", "NutsProofs.Props.C08Phases", "NutsProofs.Props.C08RepairFault"])
    for r in REQUIRED:
        if not any(t.endswith("Props." + r) for t in thms):
            ctx.oblige("thm-present:" + r, False, "theorem missing or its module does not build")
    ctx.trusted += [
        "modelled, not verified: bbolt/go-stoabs (a write transaction applies all puts or none; WithWriteLock serialises writers), "
        "MarshalBinary/UnmarshalBinary of leaves (identity in the model; exercised through restart), murmur3 (bucket indices and key hashes "
        "are data supplied by the harness), SHA-256/JWS (transaction refs are data), NewPrevTransactionsVerifier is inside the model, "
        "signature verification is not (C06)",
        "model scope: network/dag/tree/{tree,xor,iblt}.go (New, Insert, Delete, reRoot, newBranch, getNextNode, ZeroTo, Root, Updates, "
        "ResetUpdates, Load, Replace, rebuild; bucket arithmetic), treestore.go, dag.go (add, addSingle, indexClockValue, findBetweenLC, metadata), "
        "state.go (Add, updateState, loadState, XOR, IBLT, Head), consistency.go (checkPage)",
    ]
    ctx.assumptions += [
        "all clocks < 2^31 (uint32 treeSize doubling wraps at 2^32: reRoot_overflow_witness); a valid DAG needs 2^31 chained transactions to get there",
        "concurrent Add calls are serialised: write transaction + rollback handler are one critical section (state.addMutex, pinned by "
        "fact_add_critical_section) and the write transactions hold the bbolt write lock; the harness records the commit order of concurrent adds "
        "and forces the schedule 'next Add starts between rollback and reload' (race op)",
        "a transaction ref identifies the transaction; DropLeaves (no caller in the node) is not modelled",
    ]
    tot = {"lines": 0, "bad": 0}
    dist = {}
    envs = {"tree": {}, "state": {}}
    samples = []
    for (pkg, files, name), level, marker in zip(HARNESSES, ("tree", "state"), ("tnew", "new")):
        if ctx.replay:
            # a replay file belongs to one level: tree ops start with "t"
            first = ""
            with open(ctx.replay) as f:
                for l in f:
                    if l.strip():
                        first = json.loads(l).get("op", "")
                        break
            if first.startswith("t") != (level == "tree"):
                continue
        r = run_level(ctx, level, pkg, files, name, marker, envs[level])
        tot["lines"] += r["lines"]
        tot["bad"] += r["bad"]
        dist[level] = r.get("stats", {})
        if r.get("impl"):
            samples.append(r["ops"][min(3, len(r["ops"]) - 1)][:300])
            samples.append(r["impl"][min(3, len(r["impl"]) - 1)][:300])
        if level == "state" and r.get("ops"):
            hist = Counter()
            sizes = []
            cur = None
            n_adm = 0
            maxclk = 0
            clocks = []
            for l in r["ops"]:
                if not l:
                    continue
                o = json.loads(l)
                if o["op"] == "new":
                    if cur is not None:
                        sizes.append(n_adm)
                        clocks.append(maxclk)
                    cur = o.get("hist", "")
                    hist[re.sub(r"-\d+(-pos\d+-[a-z-]+)?$", "", cur)] += 1
                    n_adm, maxclk = 0, 0
                elif o["op"] in ("add", "dupadd", "between"):
                    n_adm += 1
                    maxclk = max(maxclk, o.get("clk", 0))
            if cur is not None:
                sizes.append(n_adm)
                clocks.append(maxclk)
            dist["state_histories"] = dict(hist)
            dist["adds_per_history"] = {"min": min(sizes), "max": max(sizes), "total": sum(sizes)} if sizes else {}
            dist["max_clock_per_history_histogram"] = dict(Counter(
                "<512" if c < 512 else "<1024" if c < 1024 else "<2048" if c < 2048 else "<4096" if c < 4096 else ">=4096" for c in clocks))
    ctx.cov["evaluations"] = tot["lines"]
    # non-trivial = operations that change or could corrupt derived state: admitted adds, rolled-back/rejected adds, restarts, repairs, tree mutations
    st = dist.get("state", {})
    tr = dist.get("tree", {})
    ctx.cov["distinct_nontrivial"] = sum(v for k, v in st.items() if k in ("add:ok", "add:err:commit-failed", "add:err:payload-hash-mismatch",
                                         "add:err:root-exists", "add:err:missing-prev", "add:err:bad-clock", "restart", "check", "checkFail", "corruptDisk", "corruptMem", "batch")) + \
        sum(v for k, v in tr.items() if k in ("tins", "tdel", "tload", "trepl", "tlb", "tdrop"))
    ctx.cov["traces_validated_against_impl"] = tot["lines"] - tot["bad"]
    ctx.cov["rule"] = ("tree level: random Insert/Delete/Updates+persist/Load/Replace sequences on trees of leaf size 2, 4 and 512 (XOR) and IBLTs of 6, 16 and 1024 "
                       "buckets, clock modes contiguous / page edges +-1 / tree growth 1->2->4->8->16 pages / random; after every op Root and ZeroTo(c) for all page "
                       "edges +-1, 0, treeSize+-1, MaxUint32. state level: valid DAG histories (1-3 transactions per clock, branches, chains crossing clocks 511/512, "
                       "1023/1024, 2047/2048) on the real state over a bbolt file, interleaved with missing-prev / wrong-clock / second-root / payload-mismatch adds, "
                       "re-adds, commit failures injected by a KVStore wrapper (error from the write function; caller context cancelled before commit) incl. the very "
                       "first write, concurrent Add batches (commit order recorded), NewState+Configure on the same file, XOR leaf overwritten on disk or in memory "
                       "followed by checkPage cycles; after every op XOR(c)/IBLT(c) for a sweep of c, FindBetweenLC windows, Head, count, highest clock (memory and disk), "
                       "compared with the Lean model line by line and with a reference fold over the transactions shelf. distinct_nontrivial = state-changing or "
                       "state-threatening operations (admitted/rejected/rolled-back adds, restarts, repairs, corruptions, tree mutations), counted from the run")
    ctx.cov["input_distribution"] = dist
    ctx.cov["samples"] = samples[:4]
