"""C10 — did:nuts resolution is independent of arrival order.
Lean: NutsProofs.Props.C10 over NutsModel.C10.DidStore + regenerated facts.
Correspondence: in-package harness on the real didstore (bbolt), all permutations of generated event sets."""
import json, os, re
from collections import Counter

PKG = "vdr/didnuts/didstore"
HARNESS = ["vdr/didnuts/didstore/zz_verif_c10_test.go"]


def classify(a, b):
    """name the kind of difference between two observation lines (signature for known findings)"""
    pa, pb = re.split(r" \|\|? ", a), re.split(r" \|\|? ", b)
    if pa[0] != pb[0]:
        ga, gb = (dict(t.split("=", 1) for t in x.split(" ") if "=" in t) for x in (pa[0], pb[0]))
        if ga.get("cc") != gb.get("cc"):
            return "conflicted-count-depends-on-arrival-order"
        if ga.get("dc") != gb.get("dc"):
            return "document-count-depends-on-arrival-order"
        return "iterators-depend-on-arrival-order"
    for x, y in zip(pa, pb):
        if x != y:
            i = 0
            while i < min(len(x), len(y)) and x[i] == y[i]:
                i += 1
            seg = x[:i]
            m = re.findall(r"(Context|Controller|VerificationMethod|Authentication|AssertionMethod|CapabilityInvocation|CapabilityDelegation|KeyAgreement|Service):\[[^\]]*$", seg)
            if m:
                return f"merged-{m[-1]}-order-not-deterministic"
            if re.search(r"src=\[[^\]]*$", seg):
                return "source-transaction-order-depends-on-map-iteration"
            return "resolve-result-depends-on-arrival-order"
    return "observation-length-differs"


FIELDS = ["Context", "Controller", "VerificationMethod", "Authentication", "AssertionMethod", "CapabilityInvocation",
          "CapabilityDelegation", "KeyAgreement", "Service"]


def render_doc(d):
    return d["id"] + "{" + ";".join(fn + ":[" + ",".join(e["id"] + "=" + e["body"] for e in (d["f"].get(fn) or [])) + "]" for fn in FIELDS) + "}"


def content_name(d):
    h = 14695981039346656037
    for b in render_doc(d).encode():
        h = ((h ^ b) * 1099511628211) & 0xFFFFFFFFFFFFFFFF
    return "H%016x" % h


def parse_line(line):
    """observation line -> {'glob': str, 'dids': {did: {label: resolved result}}}"""
    head, *table = line.split(" || ")
    tab = {}
    for t in table:
        k, _, v = t.partition("=")
        tab[k] = v
    seg = head.split(" | ")
    out = {"glob": seg[0], "dids": {}}
    cur = None
    for x in seg[1:]:
        if x.startswith("DID "):
            cur = out["dids"].setdefault(x[4:], {})
        elif cur is not None:
            if x.startswith("conflicted="):
                cur["conflicted="] = x[len("conflicted="):]
            else:
                label, _, ref = x.rpartition("#")
                cur[label] = tab.get("#" + ref, x)
    return out


RES = re.compile(r"ok doc=(.*) created=(\d+) updated=(\S+) hash=(\S+) prev=(\S+) src=\[([^\]]*)\] deact=(true|false)$")


def parse_res(r):
    m = RES.match(r or "")
    if not m:
        return None
    created = int(m.group(2))
    return {"doc": m.group(1), "created": created, "updated": created if m.group(3) == "-" else int(m.group(3)), "updated_raw": m.group(3), "hash": m.group(4),
            "src": [x for x in m.group(6).split(",") if x], "deact": m.group(7) == "true"}


RAW = re.compile(r"raw latest=\[(.*?)\] metas=\[(.*?)\] evrefs=\[(.*?)\] conf=\[(.*?)\] cc=(\S+) dc=(\S+) tx=\[(.*?)\] docs=\[(.*?)\]$")


def check_raw_line(op, seq_line, line, i, flag):
    """the literal shelves after the sequence (vRawDump), judged against the op alone: txRefV2 / documentsV2 hold exactly what
    every delivered event published (content addressed), metadataV2 / latestV2 / eventsV2 number the versions 0..n-1,
    statsV2 holds the 4-byte big-endian counts of conflictedV2 and latestV2"""
    if re.match(r"^((adderr|addpanic|addswallowed|restarterr)@\S+ )", seq_line):
        return  # an unexpected Add outcome is reported by the seq-line oracles; the expectations below assume none
    m = RAW.match(line)
    if not m:
        flag("raw-shelves", "shelves-unreadable", f"raw shelf dump: {line[:80]}", i)
        return
    spl = lambda x: [t for t in x.split(",") if t]
    latest, metas, evrefs, conf, cc, dc, txs, docs = (spl(m.group(1)), spl(m.group(2)), spl(m.group(3)), spl(m.group(4)), m.group(5), m.group(6), spl(m.group(7)), spl(m.group(8)))
    fail = op.get("fail") or []
    tx1, tx2 = set(), {}
    for pos, k in enumerate(op["arrival"]):
        code = fail[pos] if pos < len(fail) else 0
        if code not in (1, 101, 102):
            tx1.add(k)
        if code in (0, 4, 51, 52):
            tx2.setdefault(op["events"][k]["doc"]["id"], set()).add(k)
    bad = [d for d in docs if d.endswith("!key") or d.startswith("?")]
    if bad:
        flag("raw-shelves", "document-shelf-not-content-addressed", f"documentsV2 holds a value whose SHA-256 is not its key / that does not parse: {bad[:2]}", i)
    want_tx = sorted({op["events"][k]["ref"][:10] + ">" + content_name(op["events"][k]["doc"]) for k in tx1})
    if txs != want_tx:
        flag("raw-shelves", "transaction-index-wrong", f"txRefV2 = {txs[:3]}.. expected {want_tx[:3]}.. ({len(txs)} vs {len(want_tx)} entries)", i)
    missing = [content_name(op["events"][k]["doc"]) for k in tx1 if content_name(op["events"][k]["doc"]) not in docs]
    if missing:
        flag("raw-shelves", "published-document-not-on-document-shelf", f"documentsV2 lacks {missing[:2]}", i)
    want_latest = sorted(f"{d}>{d}{len(ks) - 1}" for d, ks in tx2.items())
    want_metas = sorted(f"{d}{v}:v{v}" for d, ks in tx2.items() for v in range(len(ks)))
    want_ev = sorted(d + ":" + "/".join(f"{d}{v}" for v in range(len(ks))) for d, ks in tx2.items())
    if latest != want_latest:
        flag("raw-shelves", "latest-shelf-wrong", f"latestV2 = {latest} expected {want_latest}", i)
    if metas != want_metas:
        flag("raw-shelves", "metadata-shelf-keys-wrong", f"metadataV2 keys = {metas[:6]} expected {want_metas[:6]}", i)
    if evrefs != want_ev:
        flag("raw-shelves", "event-list-metarefs-wrong", f"eventsV2 MetaRefs = {evrefs} expected {want_ev}", i)
    obs = parse_line(re.sub(r"^((adderr|addpanic|addswallowed|restarterr)@\S+ )+", "", seq_line))
    want_conf = sorted(d + ":00" for d, pr in obs["dids"].items() if pr.get("conflicted=") == "true")
    if conf != want_conf:
        flag("raw-shelves", "conflicted-shelf-wrong", f"conflictedV2 = {conf} but the conflicted DIDs are {want_conf}", i)
    if tx2 and (cc != "%08x" % len(conf) or dc != "%08x" % len(latest)):
        flag("raw-shelves", "stats-shelf-encoding-wrong", f"statsV2 conflictedCount={cc} documentCount={dc} for {len(conf)} conflicted / {len(latest)} latest keys", i)


def check_seq_line(op, line, i, flag):
    """clauses of the property evaluated on ONE full observation of the implementation, against expectations computed
    from the event set alone (independent of the Lean model)"""
    if line.startswith("observepanic") or " observepanic" in line[:200]:
        flag("observe-panic", "store-read-path-panics", "Conflicted / Iterate / a counter panicked", i)
        return
    if "restarterr@" in line:
        flag("restart-fails", "store-cannot-be-reopened", "Configure() of a new store object on the same database fails mid-sequence", i)
    for kind in ("adderr", "addpanic", "addswallowed"):
        if kind + "@" in line:
            flag("add-refused", "add-of-accepted-transaction-fails-in-some-arrival-order" if kind == "adderr" else kind,
                 "store.Add of a valid event returned an error / panicked / swallowed a storage failure", i)
    obs = parse_line(re.sub(r"^((adderr|addpanic|addswallowed|restarterr)@\S+ )+", "", line))
    events, times = op["events"], op["times"]
    per = {}
    for k, e in enumerate(events):
        per.setdefault(e["doc"]["id"], []).append((k, e))
    g = dict(x.split("=", 1) for x in obs["glob"].split(" ") if "=" in x)
    dids = sorted(per)
    # counters, iterators and per-DID flags must tell the same story
    nconfl = sum(1 for d in dids if obs["dids"].get(d, {}).get("conflicted=") == "true")
    nact = sum(1 for d in dids if (parse_res(obs["dids"].get(d, {}).get("ad:")) or {"deact": True})["deact"] is False)
    if g.get("dc") != str(len(dids)) or g.get("niter") != str(len(dids)):
        flag("document-count-wrong", "document-count-or-iterate-disagrees-with-dids", f"dc={g.get('dc')} niter={g.get('niter')} for {len(dids)} DIDs", i)
    if g.get("iter") != "[" + ",".join(dids) + "]":
        flag("iterate-wrong", "iterate-does-not-list-every-did-once", f"Iterate visited {g.get('iter')}", i)
    if g.get("cc") != str(nconfl) or g.get("nconf") != str(nconfl):
        flag("conflicted-count-wrong", "conflicted-count-disagrees-with-conflicted-iterator", f"cc={g.get('cc')} nconf={g.get('nconf')} but {nconfl} DIDs are conflicted", i)
    if g.get("nactive") != str(nact):
        flag("finder-wrong", "finder-active-count", f"Find(IsActive) gave {g.get('nactive')} documents, {nact} DIDs are active", i)
    if g.get("unknown") != "err:not-found/err:storage-not-found":
        flag("unknown-did", "unknown-did-resolves", f"unknown DID answers {g.get('unknown')}", i)
    for did, evs in per.items():
        pr = obs["dids"].get(did, {})
        order = sorted(evs, key=lambda ke: (ke[1]["clock"], ke[1]["time"], int(ke[1]["ref"], 16)))
        top, first = order[-1][1], order[0][1]
        ad = parse_res(pr.get("ad:"))
        deact_evs = [e for _, e in evs if not e["doc"]["f"].get("Controller") and not e["doc"]["f"].get("CapabilityInvocation")]
        # history = the published documents in (clock, signing time, ref) order
        want = ["%d:%d:%d:%s" % (v, first["time"], e["time"], content_name(e["doc"])) for v, (_, e) in enumerate(order)]
        for v in range(len(order) + 2):
            exp = "ok [" + " ".join(want[v:]) + "]"
            if pr.get(f"hist{v}:") != exp:
                flag("history-wrong", "history-is-not-the-sorted-event-list", f"HistorySinceVersion({did},{v}) = {str(pr.get(f'hist{v}:'))[:80]} expected {exp[:80]}", i)
                break
        if "histneg:" in pr and not pr["histneg:"].startswith("err:other:negative"):
            flag("history-wrong", "history-negative-version-answered", f"HistorySinceVersion({did}, negative) = {pr['histneg:'][:60]}", i)
        if ad is None:
            flag("latest-unresolvable", "latest-version-unresolvable", f"Resolve({did}, allowDeactivated) = {str(pr.get('ad:'))[:60]}", i)
            continue
        # latest version: created by the first event, sourced (at least) by the last event, deactivated iff any deactivation
        if ad["created"] != first["time"] or top["ref"][:10] not in ad["src"]:
            flag("latest-wrong", "latest-version-not-derived-from-sorted-events", f"{did}: created={ad['created']} src={ad['src']} (first event time {first['time']}, last event {top['ref'][:10]})", i)
        if len(ad["src"]) == 1 and (ad["doc"] != render_doc(top["doc"]) or ad["hash"] != content_name(top["doc"])):
            flag("latest-wrong", "unconflicted-latest-is-not-the-last-published-document", f"{did}: latest is not the last event's document", i)
        if ad["deact"] != bool(deact_evs):
            flag("deactivated-status-wrong", "deactivated-status-wrong", f"{did}: latest deact={ad['deact']} but the set holds {len(deact_evs)} deactivations", i)
        # (b) a deactivated DID never resolves as active again
        want_nil = "err:deactivated" if deact_evs else pr.get("ad:")
        for label in ("nil:", "nad:"):
            if pr.get(label) != want_nil:
                flag("deactivated-resolves-active", "deactivated-did-resolves-as-active" if deact_evs else "latest-" + label.rstrip(":") + "-differs",
                     f"event set {op['set']}: Resolve({did}, {label}) answers {str(pr.get(label))[:60]}", i)
        # conflicted flag / Conflicted() / Iterate() / Finder entries are the latest version
        conflicted = len(ad["src"]) > 1
        if pr.get("conflicted=") != ("true" if conflicted else "false") or pr.get("conf:") != (pr.get("ad:") if conflicted else "-"):
            flag("conflicted-iterator-wrong", "conflicted-iterator-entry-is-not-the-latest-version", f"{did}: {len(ad['src'])} source transactions, conflicted={pr.get('conflicted=')}, entry {str(pr.get('conf:'))[:50]}", i)
        if pr.get("iter:") != pr.get("ad:"):
            flag("iterate-wrong", "iterate-entry-is-not-the-latest-version", f"{did}: Iterate entry differs from Resolve(allowDeactivated)", i)
        if pr.get("active:") != ("-" if ad["deact"] else ad["doc"]):
            flag("finder-wrong", "finder-entry-wrong", f"{did}: Find(IsActive) entry {str(pr.get('active:'))[:50]}", i)
        # (c) a later update that references all branches resolves the conflict
        refs = {e["ref"] for _, e in evs}
        if len(evs) > 1 and set(top["prevs"]) >= (refs - {top["ref"]}) and all(e["clock"] < top["clock"] for _, e in evs if e is not top):
            if conflicted or pr.get("conflicted=") == "true":
                flag("covering-update-still-conflicted", "covering-update-does-not-resolve-conflict",
                     f"event set {op['set']}: last update references all other transactions of {did} but the DID is still conflicted", i)
        # every answer of Resolve satisfies the filters it was asked with
        mine = [k for k, _ in evs]
        tmax, tmin = max(e["time"] for _, e in evs), min(e["time"] for _, e in evs)

        def sound(label, h=None, s=None, t=None, allow=True, must=None):
            r = pr.get(label)
            if r is None:
                return
            res = parse_res(r)
            bad = None
            if res is None:
                if r not in ("err:not-found", "err:deactivated"):
                    bad = "unexpected outcome " + r[:50]
                elif r == "err:deactivated" and (allow or h is not None or s is not None or t is not None):
                    bad = "'deactivated' for a query that allows deactivated versions or filters by hash / time / source transaction"
                elif must == "ok":
                    bad = "no answer although one exists: " + r
            else:
                if res["updated_raw"] != "-" and res["updated"] == res["created"]:
                    bad = "metadata.Updated is set although it equals Created"
                if must == "none":
                    bad = "answer for a query nothing can match"
                if not allow and res["deact"]:
                    bad = "deactivated version without allowDeactivated"
                if h is not None and res["hash"] != h:
                    bad = f"hash {res['hash']} != requested {h}"
                if s is not None and s[:10] not in res["src"]:
                    bad = f"source tx {s[:10]} not in {res['src']}"
                if t is not None and (res["updated"] > t or res["created"] > t):
                    bad = f"version created={res['created']} updated={res['updated']} for resolve time {t}"
            if bad:
                flag("resolve-unsound", "resolve-answer-violates-its-filter", f"Resolve({did}, {label}) : {bad}", i)
        for ti, t in enumerate(times):
            sound(f"t{ti}:", t=t, allow=False, must="none" if t < tmin else None)
            # (b') ... also not when asked by time: at a time at or after ALL signing times of the DID every version
            # exists and the latest one is deactivated, so an ACTIVE answer says the DID is active when it is not
            if deact_evs and t >= tmax and parse_res(pr.get(f"t{ti}:")) is not None:
                flag("deactivated-resolves-active-by-time", "deactivated-did-resolves-as-active-by-time",
                     f"event set {op['set']} holds a deactivation of {did}, yet Resolve({did}, ResolveTime={t} >= every signing time, no AllowDeactivated) "
                     f"answers an active version: {str(pr.get(f't{ti}:'))[:60]}", i)
            sound(f"ta{ti}:", t=t, must="none" if t < tmin else ("ok" if t >= tmax else None))
            if t >= tmax and pr.get(f"ta{ti}:") != pr.get("ad:"):
                flag("resolve-unsound", "resolve-at-late-time-is-not-latest", f"Resolve({did}, time {t} >= all signing times, allowDeactivated) differs from latest", i)
        for k, e in enumerate(events):
            sound(f"s{k}:", s=e["ref"], must="ok" if e["doc"]["id"] == did else "none")
            # a source transaction of the latest version resolves to the latest version
            if e["doc"]["id"] == did and e["ref"][:10] in ad["src"] and pr.get(f"s{k}:") != pr.get("ad:"):
                flag("resolve-unsound", "source-tx-of-latest-version-does-not-resolve-to-it", f"Resolve({did}, source tx {e['ref'][:10]}) is not the latest version although the latest version lists it", i)
            # ... and so does the latest version's own hash
            if ad["hash"] == content_name(e["doc"]) and pr.get(f"h{k}:") != pr.get("ad:"):
                flag("resolve-unsound", "hash-of-latest-version-does-not-resolve-to-it", f"Resolve({did}, hash of the latest version) is not the latest version", i)
            sound(f"h{k}:", h=content_name(e["doc"]))
        for k, p in enumerate(op.get("probes") or []):
            h = content_name(events[mine[p["h"] % len(mine)]]["doc"]) if p["h"] >= 0 else None
            s = events[mine[p["s"] % len(mine)]]["ref"] if p["s"] >= 0 else None
            sound(f"p{k}:", h=h, s=s, t=p["t"] if p["t"] >= 0 else None, allow=p["ad"], must="none" if -2 in (p["h"], p["s"]) else None)


def run(ctx):
    facts = ctx.facts()
    thms = ctx.build_and_audit(["NutsProofs.Props.C10"])
    required = ["fact_latest_non_deactivated_table", "fact_matches_steps", "fact_shelf_puts", "fact_get_errors_returned", "fact_stats_codec",
                "fact_store_constants", "fact_history_guard_and_event_document", "read_fault_never_changes_an_answer", "history_reads_published_bytes", "stats_shelf_tracks_counters", "bytes_handed_out_are_order_and_failure_independent", "fault_class_db_iff", "referenced_documents_are_stored", "resolve_reads_the_selected_version", "failed_add_leaves_the_store_unchanged",
                "doc_shelves_do_not_change_the_store", "stats_codec_roundtrip", "stats_shelf_refines_counters",
                "resolve_order_independent", "store_is_fold", "merge_deterministic", "before_strict_total",
                "insert_sorted_perm", "deactivated_monotone", "conflict_resolved_by_covering_update", "stats_order_independent", "stats_are_what_the_states_imply",
                "observations_order_independent", "restart_changes_nothing", "iterators_agree_with_counters",
                "resolve_answers_satisfy_filters", "resolve_not_found_means_no_version_matches", "deactivation_is_permanent", "covering_update_resolves_any_order",
                "history_is_the_sorted_event_list", "shelves_refine_chain", "shelf_resolve_eq_resolve", "shelf_level_order_independent",
                "fact_map_built_fields_sorted", "fact_writer_has_no_map_range", "fact_conflicted_flag_read_unconditionally",
                "fact_before_order", "fact_equal_by_ref", "fact_event_fields_persisted", "fact_metadata_fields_persisted",
                "fact_store_in_memory_state", "fact_cache_touch", "fact_version_keys", "fact_copied_conditions",
                "fact_modelled_source_unchanged", "fact_store_wiring", "deactivated_resolves_active_by_time_witness",
                "fact_add_commits_index_before_event_transaction", "two_tx_add_needs_no_read_your_writes",
                "two_tx_add_order_independent_on_committed_reads", "one_tx_add_order_dependent_witness",
                "fact_event_list_read_modify_write_in_one_transaction", "overlapping_atomic_adds_commute", "stale_read_add_loses_update_witness",
                "rolled_back_add_keeps_the_shelves", "redelivery_after_rollback_is_the_undisturbed_add",
                "stale_cache_entries_are_confined_and_repaired", "rolled_back_add_leaves_stale_cache_witness",
                "fact_cache_update_inside_write_closure", "conflicted_entry_is_right_after_every_committed_add"]
    for r in required:
        if not any(t.endswith("Props." + r) for t in thms):
            ctx.oblige("thm-present:" + r, False, "theorem missing or its module does not build")
    ctx.trusted += [
        "modelled, not verified: go-did JSON (un)marshalling of documents, SHA-256 of the merged document (model: injective rendering), bbolt atomic write transactions, go-stoabs",
        "model scope: vdr/didnuts/didstore event.go, writer.go (applyFrom/applyEvent/applyDocument incl. the in-memory conflicted cache), merge.go, "
        "store.go (Add/Resolve/Iterate/Conflicted/loadConflictedDocuments/HistorySinceVersion/stats), metadata.go (asVDRMetadata), finder.go; "
        "eventsV2 MetaRef numbering, metadataV2 keys DID+version, latestV2 and Resolve's walk are modelled literally (NutsModel/C10/Shelves.lean) and "
        "proved to refine the per-DID chain; documentsV2 / txRefV2 stay abstract (content addressed: a hash names one document)",
    ]
    ctx.assumptions += [
        "a transaction ref identifies the transaction (RefFun) and a payload hash identifies the document (content addressing)",
        "documents of one arrival set share no (ref) with different content; bbolt write transactions are atomic and serialised (WithWriteLock)",
        "NOT assumed: that a write transaction reads its own uncommitted writes (two_tx_add_needs_no_read_your_writes; every 5th sequence and the corpus "
        "run on go-stoabs redis7/miniredis, where it does not)",
        "an Add that returned an error is delivered again (the DAG notifier retries); every document of a DID's transactions carries that DID as its id",
        "no DID string is another DID string followed by decimal digits (metadata keys are DID+version without separator; did:nuts ids are fixed-alphabet hashes of the creating key)",
    ]

    binary = ctx.go_test_binary(PKG, HARNESS, "c10")
    if binary is None:
        ctx.oblige("harness-builds", False, ctx.harness_error[-1500:])
        return
    ctx.oblige("harness-builds", True)
    env = {}
    if ctx.replay:
        env["VERIF_REPLAY"] = os.path.abspath(ctx.replay)
    else:
        env["VERIF_CORPUS"] = os.path.join(os.path.dirname(os.path.dirname(os.path.abspath(__file__))), "harness", "corpus", "C10")
        env["VERIF_SETS"] = 140 if ctx.thorough else 28
        env["VERIF_MAXPERMS"] = 200 if ctx.thorough else 60
    rc, log, out = ctx.run_harness(binary, "TestVerifC10", env, timeout=3000)
    if rc != 0:
        ctx.oblige("harness-runs", False, log[-1500:])
        return
    ctx.oblige("harness-runs", True)
    ops_p, impl_p, model_p = (os.path.join(out, x) for x in ("ops.jsonl", "impl.out", "model.out"))
    ok, err = ctx.model("C10", ops_p, model_p)
    ctx.oblige("model-driver-runs", ok, err[-500:])
    impl, model, bad = ctx.compare(impl_p, model_p)
    ops = ctx.read_lines(ops_p)

    # ---- direct property oracle on the implementation's own outputs:
    # every arrival order of the same event set must give the same observation (full observations among themselves,
    # after-restart observations among themselves)
    by_set = {}
    cur_set = None
    sizes = Counter()
    feats = Counter()
    distinct = set()
    seq_of = {}          # line index -> index of the seq op it belongs to
    raw_n = 0
    rfault_n = 0
    stale_n = 0
    stale_listed = 0
    last_seq = None
    for i, line in enumerate(impl):
        op = json.loads(ops[i]) if i < len(ops) and ops[i] else {}
        kind = "again"
        if op.get("op") in ("raw", "rfault", "stale"):   # the literal shelves: order-dependent (intermediate merged documents stay behind); read faults; cache after a rolled-back Add
            seq_of[i] = last_seq
            if op.get("op") == "stale":
                stale_n += line.count("=H") + line.count("=-")
                stale_listed += line.count("=H")
            raw_n += op.get("op") == "raw"
            rfault_n += line.count(":db") + line.count(":same") + line.count("=db") + line.count("=same") if op.get("op") == "rfault" else 0
            continue
        if op.get("op") == "seq":
            kind = "seq"
            last_seq = i
            cur_set = op["set"]
            n = len(op["events"])
            sizes[n] += 1
            key = (cur_set, tuple(op["arrival"]), tuple(op.get("fail") or []))
            if n >= 2:
                distinct.add(key)
            if "conflicted=true" in line:
                feats["conflicted"] += 1
            if "err:deactivated" in line:
                feats["deactivated"] += 1
            if len(op["arrival"]) > n:
                feats["with-duplicates"] += 1
            feats["dids=%d" % len({e["doc"]["id"] for e in op["events"]})] += 1
            fl = op.get("fail") or []
            if any(c in (1, 2, 3) for c in fl):
                feats["with-injected-storage-failure"] += 1
            if 4 in fl:
                feats["with-restart-mid-sequence"] += 1
            if any(e["time"] % 1000000000 for e in op["events"]):
                feats["sub-second-times"] += 1
            if op.get("backend") == "redis":
                feats["backend=redis(no read-your-writes inside a write tx)"] += 1
            if any(c in (51, 52) for c in fl):
                feats["two-overlapping-adds(forced schedule)"] += 1
            if any(c > 100 for c in fl):
                feats["with-failing-shelf-operation"] += 1
            seen_ct = set()
            for e in op["events"]:
                k3 = (e["doc"]["id"], e["clock"], e["time"])
                if k3 in seen_ct:
                    feats["clock-and-time-tie-broken-by-ref"] += 1
                    break
                seen_ct.add(k3)
            if len({json.dumps(e["doc"], sort_keys=True) for e in op["events"]}) < n:
                feats["republished-identical-document"] += 1
            if n >= 11:
                feats["two-digit-versions-possible"] += 1
            own = {}
            for e in op["events"]:
                own.setdefault(e["doc"]["id"], set()).add(e["ref"])
            if any(p not in own[e["doc"]["id"]] for e in op["events"] for p in e["prevs"]):
                feats["prevs-naming-foreign-or-unseen-transactions"] += 1
            firsts = Counter(e["doc"]["id"] for e in op["events"] if not e["prevs"])
            if any(c > 1 for c in firsts.values()):
                feats["second-root-transaction"] += 1
        seq_of[i] = last_seq
        by_set.setdefault((cur_set, kind), []).append((i, line))
    oracle_bad = 0
    seen_sig = set()

    def seq_op(k):
        return ops[seq_of.get(k, k)] if seq_of.get(k, k) is not None else ops[k]
    strip_add = lambda l: re.sub(r"^((adderr|addpanic|addswallowed|restarterr)@\S+ )+", "", l)
    for (s, kind), lines in by_set.items():
        ref_i, ref = lines[0]
        for i, l in lines[1:]:
            if strip_add(l) != strip_add(ref):
                oracle_bad += 1
                sig = "C10:" + classify(strip_add(ref), strip_add(l))
                if sig in seen_sig:
                    continue
                seen_sig.add(sig)
                # replay = the two arrival sequences that disagree (seq ops only)
                ctx.violation(sig, f"two arrival orders of event set {s} give different observable state ({kind} lines {ref_i} and {i})",
                              f"{sig.split(':')[1]}.jsonl", seq_op(ref_i) + "\n" + seq_op(i) + "\n")
    ctx.oblige("oracle:all-arrival-orders-agree(impl)", oracle_bad == 0, f"{oracle_bad} disagreeing sequences")

    # ---- further clauses of the property, evaluated on the implementation's outputs alone
    clause_bad = Counter()

    known_sigs = Counter()      # signatures listed as open known findings (reported as KNOWN-FINDING, not as violations)
    reported = set()

    def flag(name, sig, what, i):
        if sig in known_sigs:
            known_sigs[sig] += 1
            return
        if (name, sig) not in reported:
            reported.add((name, sig))
            if not ctx.violation("C10:" + sig, what + f" (line {i}: {impl[i][:60]})", sig + ".jsonl", seq_op(i)):
                known_sigs[sig] += 1
                return
        clause_bad[name] += 1

    full_of_seq = {}
    for i, line in enumerate(impl):
        op = json.loads(ops[i]) if i < len(ops) and ops[i] else {}
        if op.get("op") == "seq":
            check_seq_line(op, line, i, flag)
            full_of_seq[i] = parse_line(strip_add(line))
        elif op.get("op") == "rfault":
            # a storage error inside a read transaction must come back as an error: never an answer, never not-found
            for tok in ("swallowed", "DIFF", "panic"):
                if tok in line:
                    mm = re.search(r"(\S*" + tok + ")", line)
                    flag("read-fault", "read-storage-error-" + tok.lower(), f"a read entry point under a failing shelf Get: {mm.group(1) if mm else tok} ({line[:50]}..)", i)
                    break
        elif op.get("op") == "stale":
            # an Add that returned an error changed nothing durable: both counters read the same before and after it,
            # and Conflicted() does not panic
            for ent in line[len("stale "):].split(" | "):
                mm = re.match(r"^(\S+)=(\S+) cc=(\d+)>(\d+) dc=(\d+)>(\d+)$", ent)
                if not mm or mm.group(2) == "panic":
                    flag("rolled-back-add", "conflicted-iterator-unusable-after-rolled-back-add", f"after an Add whose second write transaction was rolled back: {ent[:80]}", i)
                elif mm.group(3) != mm.group(4) or mm.group(5) != mm.group(6):
                    flag("rolled-back-add", "rolled-back-add-changes-a-counter", f"an Add that returned an error changed ConflictedCount / DocumentCount: {ent[:100]}", i)
        elif op.get("op") == "raw":
            if seq_of.get(i) is not None:
                check_raw_line(json.loads(ops[seq_of[i]]), impl[seq_of[i]], line, i, flag)
        elif seq_of.get(i) in full_of_seq:
            # after a restart (same database, new store object) nothing observable may change
            if line.startswith("restarterr") or line.startswith("observepanic"):
                flag("restart-fails", "store-cannot-be-reopened", "Configure() of a new store object on the same database fails", i)
                continue
            before, after = full_of_seq[seq_of[i]], parse_line(line)
            if before["glob"] != after["glob"]:
                flag("restart-changes-observation", "restart-changes-counters-or-iterators", f"counters/iterators differ after re-opening the store: {before['glob']} vs {after['glob']}", i)
            for did, pr in after["dids"].items():
                for label, val in pr.items():
                    if before["dids"].get(did, {}).get(label) != val:
                        flag("restart-changes-observation", "restart-changes-" + label.rstrip(":="), f"{label} of {did} differs after re-opening the store", i)
                        break
    ctx.oblige("oracle:clauses(impl): deactivated-never-active, covering-update-resolves, add-never-refused, history=sorted-events, "
               "counters=iterators=per-DID-flags, conflicted/iterate entries=latest, resolve answers satisfy their filters, restart changes nothing, "
               "literal shelves (txRef/documents content addressed and complete, version keys 0..n-1, stats = 4-byte big-endian counts)",
               not clause_bad, str(dict(clause_bad)))
    if known_sigs:
        ctx.notes.append("open known findings observed on this run (cases): " + json.dumps(dict(known_sigs)))
        ctx.cov["known_finding_cases"] = dict(known_sigs)
    oracle_bad += sum(clause_bad.values())

    # ---- correspondence model vs implementation
    if bad:
        i = bad[0]
        detail = f"first differing line {i}\nimpl : {impl[i][:1500] if i < len(impl) else None}\nmodel: {model[i][:1500] if i < len(model) else None}"
        ctx.oblige("correspondence:model=impl", False, f"{len(bad)} of {len(impl)} lines differ; " + detail[:600])
        if oracle_bad == 0:
            k = i
            while k >= 0 and json.loads(ops[k]).get("op") != "seq":
                k -= 1
            with open(os.path.join(ctx.replay_dir(), "correspondence.jsonl"), "w") as f:
                f.write(ops[k] + "\n")
            ctx.unproved(["correspondence C10 (model.out != impl.out)"], detail + f"\nreplay ops: {ctx.replay_dir()}/correspondence.jsonl")
    else:
        ctx.oblige("correspondence:model=impl", True, f"{len(impl)} lines equal")

    ctx.cov["evaluations"] = len(impl)
    ctx.cov["distinct_nontrivial"] = len(distinct)
    ctx.cov["traces_validated_against_impl"] = len(impl) - len(bad)
    ctx.cov["rule"] = ("event sets of 1-13 did:nuts events for 1-3 DIDs (creation, chains, 2/3-way forks, fork resolution, deactivation, second roots, "
                       "clock/time ties incl. ties below the second, republished identical documents, prevs naming foreign / unseen transactions, "
                       "shared service ids with different content), all permutations for <=5 events (capped) else random permutations, duplicates inserted "
                       "anywhere, Adds with an injected storage failure (first write tx, between the two, second rolled back, k-th shelf operation) followed "
                       "by re-delivery, restarts mid-sequence, pairs of OVERLAPPING Adds under a forced schedule (one Add parked before its 1st / 2nd write "
                       "transaction until the next arrival's Add has completed); each sequence applied to a fresh real store — bbolt, or (every 5th sequence, every 2nd for <=4 events, "
                       "and the whole corpus) go-stoabs redis7 on miniredis, whose write transactions do not see their own writes — observed through Resolve(nil / {} / "
                       "allowDeactivated / every event time and time-1ns / every payload hash / every source tx / random hash x time x source-tx x "
                       "allow-deactivated combinations / unknown values), ConflictedCount, DocumentCount, Conflicted() entries, Iterate() order + entries, "
                       "Finder.Find(IsActive), HistorySinceVersion(0..n+1), unknown DID; then the cache-dependent part again after re-opening the store. "
                       "distinct_nontrivial = distinct (set, arrival, failure codes) with >=2 events")
    feats["raw-shelf-dumps"] = raw_n
    feats["read-calls-under-a-failing-get"] = rfault_n
    feats["cache-observations-right-after-a-rolled-back-add"] = stale_n
    feats["of-which-the-did-is-listed-as-conflicted"] = stale_listed
    ctx.cov["input_distribution"] = {"set_size_histogram": dict(sorted(sizes.items())), "features": dict(feats), "event_sets": len(by_set)}
    ctx.cov["samples"] = [json.loads(ops[0])["arrival"] if ops and ops[0] else [], impl[0][:400] if impl else ""]
