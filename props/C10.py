"""C10 — did:nuts resolution is independent of arrival order.
Lean: NutsProofs.Props.C10 over NutsModel.C10.DidStore + regenerated facts.
Correspondence: in-package harness on the real didstore (bbolt), all permutations of generated event sets."""
import json, os, re
from collections import Counter

PKG = "vdr/didnuts/didstore"
HARNESS = ["vdr/didnuts/didstore/zz_verif_c10_test.go"]


def classify(a, b):
    """name the kind of difference between two observation lines (signature for known findings)"""
    pa, pb = re.split(r" \|\|? ", a), re.split(r" \|\|? ", b)
    if pa[0] != pb[0]:
        if pa[0].split()[0] != pb[0].split()[0]:
            return "conflicted-count-depends-on-arrival-order"
        return "document-count-depends-on-arrival-order"
    for x, y in zip(pa, pb):
        if x != y:
            i = 0
            while i < min(len(x), len(y)) and x[i] == y[i]:
                i += 1
            seg = x[:i]
            m = re.findall(r"(Context|Controller|VerificationMethod|Authentication|AssertionMethod|CapabilityInvocation|CapabilityDelegation|KeyAgreement|Service):\[[^\]]*$", seg)
            if m:
                return f"merged-{m[-1]}-order-not-deterministic"
            if re.search(r"src=\[[^\]]*$", seg):
                return "source-transaction-order-depends-on-map-iteration"
            return "resolve-result-depends-on-arrival-order"
    return "observation-length-differs"


def run(ctx):
    facts = ctx.facts()
    thms = ctx.build_and_audit(["NutsProofs.Props.C10"])
    required = ["resolve_order_independent", "store_is_fold", "merge_deterministic", "before_strict_total",
                "insert_sorted_perm", "deactivated_monotone", "conflict_resolved_by_covering_update", "stats_order_independent", "stats_are_what_the_states_imply",
                "fact_map_built_fields_sorted", "fact_writer_has_no_map_range", "fact_conflicted_flag_read_unconditionally"]
    for r in required:
        if not any(t.endswith("Props." + r) for t in thms):
            ctx.oblige("thm-present:" + r, False, "theorem missing or its module does not build")
    ctx.trusted += [
        "modelled, not verified: go-did JSON (un)marshalling of documents, SHA-256 of the merged document (model: injective rendering), bbolt atomic write transactions, go-stoabs",
        "model scope: vdr/didnuts/didstore event.go, writer.go (applyFrom/applyEvent/applyDocument), merge.go, store.go (Add/Resolve/stats), metadata.go",
    ]
    ctx.assumptions += [
        "a transaction ref identifies the transaction (RefFun) and a payload hash identifies the document (content addressing)",
        "documents of one arrival set share no (ref) with different content; bbolt write transactions are atomic and serialised (WithWriteLock)",
    ]

    binary = ctx.go_test_binary(PKG, HARNESS, "c10")
    if binary is None:
        ctx.oblige("harness-builds", False, ctx.harness_error[-1500:])
        return
    ctx.oblige("harness-builds", True)
    env = {}
    if ctx.replay:
        env["VERIF_REPLAY"] = os.path.abspath(ctx.replay)
    else:
        env["VERIF_CORPUS"] = os.path.join(os.path.dirname(os.path.dirname(os.path.abspath(__file__))), "harness", "corpus", "C10")
        env["VERIF_SETS"] = 140 if ctx.thorough else 28
        env["VERIF_MAXPERMS"] = 200 if ctx.thorough else 60
    rc, log, out = ctx.run_harness(binary, "TestVerifC10", env, timeout=3000)
    if rc != 0:
        ctx.oblige("harness-runs", False, log[-1500:])
        return
    ctx.oblige("harness-runs", True)
    ops_p, impl_p, model_p = (os.path.join(out, x) for x in ("ops.jsonl", "impl.out", "model.out"))
    ok, err = ctx.model("C10", ops_p, model_p)
    ctx.oblige("model-driver-runs", ok, err[-500:])
    impl, model, bad = ctx.compare(impl_p, model_p)
    ops = ctx.read_lines(ops_p)

    # ---- direct property oracle on the implementation's own outputs:
    # every arrival order of the same event set (and the reopened store) must give the same observation
    by_set = {}
    cur_set = None
    sizes = Counter()
    feats = Counter()
    distinct = set()
    for i, line in enumerate(impl):
        op = json.loads(ops[i]) if i < len(ops) and ops[i] else {}
        if op.get("op") == "seq":
            cur_set = op["set"]
            n = len(op["events"])
            sizes[n] += 1
            key = (cur_set, tuple(op["arrival"]))
            if n >= 2:
                distinct.add(key)
            if "conflicted=true" in line:
                feats["conflicted"] += 1
            if "err:deactivated" in line:
                feats["deactivated"] += 1
            if len(op["arrival"]) > n:
                feats["with-duplicates"] += 1
            if len({e["doc"]["id"] for e in op["events"]}) > 1:
                feats["two-dids"] += 1
        by_set.setdefault(cur_set, []).append((i, line))
    oracle_bad = 0
    seen_sig = set()
    for s, lines in by_set.items():
        ref_i, ref = lines[0]
        for i, l in lines[1:]:
            if l != ref:
                oracle_bad += 1
                sig = "C10:" + classify(ref, l)
                if sig in seen_sig:
                    continue
                seen_sig.add(sig)
                # replay = the two arrival sequences that disagree (seq ops only)
                def seq_op(k):
                    while k >= 0 and json.loads(ops[k]).get("op") != "seq":
                        k -= 1
                    return ops[k]
                ctx.violation(sig, f"two arrival orders of event set {s} give different observable state (lines {ref_i} and {i})",
                              f"{sig.split(':')[1]}.jsonl", seq_op(ref_i) + "\n" + seq_op(i) + "\n")
    ctx.oblige("oracle:all-arrival-orders-agree(impl)", oracle_bad == 0, f"{oracle_bad} disagreeing sequences")

    # ---- further clauses of the property, evaluated on the implementation's outputs alone
    def probe(line, did, label):
        head, *table = line.split(" || ")
        tab = {}
        for t in table:
            k, _, v = t.partition("=")
            tab[k] = v
        seg = head.split(" | ")
        in_did = False
        for x in seg:
            if x.startswith("DID "):
                in_did = (x[4:] == did)
            elif in_did and x.startswith(label):
                return tab.get(x[len(label):], x)
            elif in_did and label == "conflicted=" and x.startswith("conflicted="):
                return x[len("conflicted="):]
        return None
    clause_bad = Counter()
    for i, line in enumerate(impl):
        op = json.loads(ops[i]) if i < len(ops) and ops[i] else {}
        if op.get("op") != "seq":
            continue
        if "adderr@" in line:
            clause_bad["add-refused"] += 1
            if clause_bad["add-refused"] == 1:
                ctx.violation("C10:add-of-accepted-transaction-fails-in-some-arrival-order", f"store.Add returned an error for a valid event (line {i}): {line[:80]}",
                              "add-refused.jsonl", ops[i])
        per = {}
        for e in op["events"]:
            per.setdefault(e["doc"]["id"], []).append(e)
        for did, evs in per.items():
            # (b) a deactivated DID never resolves as active again
            deact = [e for e in evs if not e["doc"]["f"].get("Controller") and not e["doc"]["f"].get("CapabilityInvocation")]
            if deact:
                r = probe(line, did, "nil:")
                if r is not None and not r.startswith("err:deactivated"):
                    clause_bad["deactivated-resolves-active"] += 1
                    if clause_bad["deactivated-resolves-active"] == 1:
                        ctx.violation("C10:deactivated-did-resolves-as-active", f"event set {op['set']} holds a deactivation of {did} but Resolve(nil) answers {r[:60]} (line {i})",
                                      "deactivated-resolves-active.jsonl", ops[i])
            # (c) a later update that references all branches resolves the conflict
            refs = {e["ref"] for e in evs}
            top = max(evs, key=lambda e: (e["clock"], e["time"], e["ref"]))
            if len(evs) > 1 and set(top["prevs"]) >= (refs - {top["ref"]}) and all(e["clock"] < top["clock"] for e in evs if e is not top):
                c = probe(line, did, "conflicted=")
                if c == "true":
                    clause_bad["covering-update-still-conflicted"] += 1
                    if clause_bad["covering-update-still-conflicted"] == 1:
                        ctx.violation("C10:covering-update-does-not-resolve-conflict", f"event set {op['set']}: last update references all other transactions of {did} but the DID is still conflicted (line {i})",
                                      "covering-update-still-conflicted.jsonl", ops[i])
    ctx.oblige("oracle:deactivated-never-active/covering-update-resolves/add-never-refused(impl)", not clause_bad, str(dict(clause_bad)))
    oracle_bad += sum(clause_bad.values())

    # ---- correspondence model vs implementation
    if bad:
        i = bad[0]
        detail = f"first differing line {i}\nimpl : {impl[i][:1500] if i < len(impl) else None}\nmodel: {model[i][:1500] if i < len(model) else None}"
        ctx.oblige("correspondence:model=impl", False, f"{len(bad)} of {len(impl)} lines differ; " + detail[:600])
        if oracle_bad == 0:
            k = i
            while k >= 0 and json.loads(ops[k]).get("op") != "seq":
                k -= 1
            with open(os.path.join(ctx.replay_dir(), "correspondence.jsonl"), "w") as f:
                f.write(ops[k] + "\n")
            ctx.unproved(["correspondence C10 (model.out != impl.out)"], detail + f"\nreplay ops: {ctx.replay_dir()}/correspondence.jsonl")
    else:
        ctx.oblige("correspondence:model=impl", True, f"{len(impl)} lines equal")

    ctx.cov["evaluations"] = len(impl)
    ctx.cov["distinct_nontrivial"] = len(distinct)
    ctx.cov["traces_validated_against_impl"] = len(impl) - len(bad)
    ctx.cov["rule"] = ("event sets of 1-9 did:nuts events (creation, chains, 2/3-way forks, fork resolution, deactivation, clock/time ties, "
                       "1-2 DIDs, shared service ids with different content), all permutations for <=5 events (capped) else random permutations, "
                       "duplicates inserted anywhere; each sequence applied to a fresh real store (bbolt), observed through Resolve(nil / allowDeactivated / "
                       "every event time and time-1 / every payload hash / every source tx), ConflictedCount, DocumentCount, Conflicted(), then again after "
                       "re-opening the store. distinct_nontrivial = distinct (set, arrival) with >=2 events")
    ctx.cov["input_distribution"] = {"set_size_histogram": dict(sorted(sizes.items())), "features": dict(feats), "event_sets": len(by_set)}
    ctx.cov["samples"] = [json.loads(ops[0])["arrival"] if ops and ops[0] else [], impl[0][:400] if impl else ""]
