"""C06 — only valid, signed, causally complete transactions enter the DAG, exactly once.
Lean: NutsProofs.Props.C06 over NutsModel.C06.Admit + regenerated facts.
Correspondence: in-package harness on the real parser / state (bbolt): parser mutants, DAG histories with defects,
all interleavings of concurrent Adds.  Direct oracles are evaluated on the implementation's own outputs."""
import base64, json, os, re
from collections import Counter
from fractions import Fraction

LIB = "network/dag/zz_verif_c06_lib.go"       # non-test overlay: builders, describers, executor + exported facade
LEGS = [  # (leg, package, overlay files, test function)
    ("dag", "network/dag", ["network/dag/zz_verif_c06_test.go", LIB], "TestVerifC06"),
    ("v2", "network/transport/v2", ["network/transport/v2/zz_verif_c06_test.go", LIB], "TestVerifC06V2"),
    ("net", "network", ["network/zz_verif_c06_test.go", LIB], "TestVerifC06Network"),
]
HARNESSES = [(pkg, files, "c06" + leg) for leg, pkg, files, _ in LEGS]

REQUIRED = ["parse_sound", "last_member_decides", "lc_exact", "lc_exact_fails_without_guard", "admitted_sound", "admitted_prevs_clock",
            "admitted_signature", "add_idempotent", "rejected_no_trace", "cancelled_add_no_trace", "fact_rollback_reloads", "other_doors_keep_invariant", "fact_state_wiring", "fact_list_handler", "fact_payload_handler", "fact_create_transaction", "dag_inv", "concurrent_adds_serialise",
            "concurrent_adds_keep_invariant", "created_tx_admissible", "notified_exactly_once",
            "fact_allowed_algos", "fact_allowed_versions", "fact_header_names", "fact_parse_steps",
            "fact_signature_count_checked", "fact_lc_strict", "fact_jwk_public_only", "embedded_key_is_public", "fact_strict_framing", "accepted_bytes_are_a_jws_serialization", "fact_prev_verifier", "fact_verifier_order",
            "fact_signature_verifier", "fact_add_two_phases", "fact_root_check",
            # deepening round 2026-09-28
            "fact_framing_body", "accepted_bytes_pass_framing", "accepted_compact_is_three_canonical_segments", "one_signed_transaction_one_ref",
            "honest_compact_passes_framing", "decoder_alone_is_not_injective",
            "store_bytes_refine_graph_add", "hash_list_append_parses", "clock_shelf_decodes", "find_between_lc_reads_every_stored_tx",
            "range_scan_stops_at_a_gap", "counters_read_back", "fact_store_bodies", "fact_store_keys",
            "new_transaction_sound", "signed_transaction_parses_back", "created_signed_parsed_admitted", "hex_round_trip", "fact_create_bodies", "json_branch_puts_no_demand_on_the_bytes",
            # deepening round 3: jwx.AlgorithmFitsKey inside the model, applied to the key the verifier resolved
            "admitted_alg_fits_key", "offered_bytes_alg_fits_key", "alg_fits_ec_iff", "alg_must_fit_resolved_key", "fit_guard_must_see_the_resolved_key", "fact_alg_fits_key", "fact_add_write_body",
            "transaction_counter_counts_admissions", "transaction_counter_unchanged_unless_admitted"]

HEX64 = re.compile(r"^[0-9a-fA-F]{64}$")


def jval(j):
    """exact value of a described JSON number, or None"""
    if j.get("t") != "num":
        return None
    m, e = int(j["m"]), int(j["e"])
    return Fraction(m) * (Fraction(2) ** e)


def members(jws):
    d = {}
    for k, v in jws.get("members", []):
        d[k] = v  # last wins (jwx)
    return d


B64URL = re.compile(rb"^[A-Za-z0-9_-]*$")


def framing_ok(inp_b64):
    """RFC 7515: a JWS is either the JSON serialization or exactly three unpadded base64url segments (checked on the bytes themselves)"""
    raw = base64.b64decode(inp_b64)
    if raw.lstrip()[:1] == b"{":
        return True
    parts = raw.split(b".")
    if len(parts) != 3:
        return False
    for p in parts:
        if not B64URL.match(p) or len(p) % 4 == 1:
            return False
        try:
            if base64.urlsafe_b64encode(base64.urlsafe_b64decode(p + b"=" * (-len(p) % 4))).rstrip(b"=") != p:
                return False   # non-zero trailing bits: not the canonical encoding
        except Exception:
            return False
    return True


WHITE_SPACE = set([9, 10, 11, 12, 13, 32, 0x85, 0xA0, 0x1680, 0x2028, 0x2029, 0x202F, 0x205F, 0x3000]) | set(range(0x2000, 0x200B))


def framing_spec(inp_b64):
    """the framing check alone (it runs after jws.Parse accepted the input): leading Unicode White_Space, then '{' = JSON serialization;
    otherwise exactly three canonical unpadded base64url segments"""
    raw = base64.b64decode(inp_b64)
    i = 0
    while i < len(raw):
        ch, used = None, 0
        for n in (1, 2, 3, 4):
            try:
                ch, used = raw[i:i + n].decode("utf-8"), n
                break
            except UnicodeDecodeError:
                ch = None
        if ch is None or len(ch) != 1 or ord(ch) not in WHITE_SPACE:
            break
        i += used
    if raw[i:i + 1] == b"{":
        return True
    return framing_ok(inp_b64)   # its own JSON branch (ASCII white space only) cannot fire any more: three canonical segments


def wellformed(jws, algos):
    """independent re-statement of RFC004 well-formedness on the decoded header; returns list of breaches"""
    bad = []
    if jws.get("framing") == "bad":
        return ["framing"]
    if jws.get("nsigs") != 1:
        bad.append("signature-count")
    m = members(jws)
    alg = m.get("alg", {})
    if alg.get("t") != "str" or alg.get("v") not in algos:
        bad.append("alg")
    cty = m.get("cty", {})
    if cty.get("t") != "str" or "/" not in cty.get("v", ""):
        bad.append("cty")
    has_jwk = "jwk" in m
    kid = m.get("kid", {}).get("v", "") if m.get("kid", {}).get("t") == "str" else ""
    if has_jwk == (kid != ""):
        bad.append("kid-xor-jwk")
    for h in ("sigt", "ver", "prevs", "lc"):
        if h not in m:
            bad.append("missing-" + h)
    if m.get("sigt", {}).get("t") != "num":
        bad.append("sigt-type")
    pv = m.get("prevs", {})
    if pv.get("t") != "arr" or any(("s" not in el) or not (el["s"] == "" or HEX64.match(el["s"])) for el in pv.get("v", [])):
        bad.append("prevs")
    pl = jws.get("payload", "")
    if not (pl == "" or HEX64.match(pl)):
        bad.append("payload")
    if "pal" in m:
        p = m["pal"]
        if p.get("t") != "arr" or any(("s" not in el) or el["s"] not in jws.get("b64ok", []) for el in p.get("v", [])):
            bad.append("pal")
    return bad


def parse_line(line):
    """'ok ref=.. alg=.. ... lc=N' -> dict"""
    d = {}
    for k, v in re.findall(r"(\w+)=(\"(?:[^\"\\]|\\.)*\"|\[[^\]]*\]|\S+)", line):
        d[k] = v
    return d


def obs(line):
    """split an observation line into named parts: head (result), P, LC, PL, J, E and m_<k> for the metadata part"""
    if line.startswith("mid="):
        line = line.split(" || ", 1)[1]
    parts = [p.strip() for p in line.split(" | ")]
    d = {}
    first = parts[0]
    if first.startswith("new ") or first.startswith("reopen "):
        d["head"], _, rest = first.partition(" ")
        parts = [rest] + parts[1:]
    else:
        d["head"] = first
        parts = parts[1:]
    for p in parts:
        if p.startswith("n="):
            for k, v in re.findall(r"(\w+)=(\S+)", p):
                d["m_" + k] = v
        else:
            k, _, v = p.partition("=")
            d[k] = v
    return d


def run(ctx):
    facts = ctx.facts()
    thms = ctx.build_and_audit(["NutsProofs.Props.C06"])
    for r in REQUIRED:
        if not any(t.endswith("Props." + r) for t in thms):
            ctx.oblige("thm-present:" + r, False, "theorem missing or its module does not build")
    ctx.trusted += [
        "modelled, not verified: jwx JWS framing (compact/JSON splitting, base64, typed members — written down as `jwxMember`), "
        "encoding/json number decoding to float64 (the harness passes the exact float64 as m*2^e), ECDSA/jws.Verify verdicts (supplied as data, "
        "computed by the harness from what it signed), SHA-256 (refs and payload hashes supplied as data), base64 of PAL entries, go-did DID URL parsing, "
        "bbolt/go-stoabs: a write transaction is atomic and exclusive (RW lock), AfterCommit/OnRollback run after unlock",
        "model scope: network/dag parser.go (all steps), verifier.go, keys.go, state.go:Add/verifyTX, dag.go:add/addSingle/isPresent, payloadstore.go, "
        "notifier.go:Save/Notify/notifyNow first delivery (finished / fatal receivers), network.go:CreateTransaction prevs+clock rule; "
        "deepening round: parser.go isJWSSerialization on raw bytes (+ base64.RawURLEncoding, unicode.IsSpace mirrored from the standard library), dag.go store bytes "
        "(parseHashList/appendHashList/indexClockValue/getRoots/addSingle/add metadata/visitBetweenLC with go-stoabs Range(stopAtNil) written down), "
        "transaction.go NewTransaction, signing.go Sign (header + re-parse; the JWS signature is crypto's)",
    ]
    ctx.assumptions += [
        "key resolution is a function of (kid, source transaction): the DID store's answer for a given source transaction does not change during one Add / one concurrent burst",
        "clocks stay below 2^32-1 (uint32 `clock + 1` in calculateLamportClock is modelled in Nat)",
        "no stored transaction has the all-zero SHA-256 ref (the code uses the empty hash as 'no head')",
        "float64 -> int64/uint32 conversion of out-of-range `sigt`/`ver` values is modelled as Go/amd64 does it (platform-dependent by the Go spec); `lc` no longer depends on it",
        "notifier retries (timers) are not modelled: receivers either finish or fail fatally at first delivery",
    ]
    algos = (facts or {}).get("allowedAlgos") or []

    # ---- which legs run: all three; a replay file names its leg (and, for the network leg, its seed) in a first meta line
    replay_leg, replay_seed = None, None
    if ctx.replay:
        replay_leg = "dag"
        with open(ctx.replay) as f:
            first = f.readline()
        try:
            meta = json.loads(first)
            if meta.get("op") == "meta":
                replay_leg, replay_seed = meta.get("leg", "dag"), meta.get("seed")
        except Exception:
            pass
    raw_ops, impl, model, side, leg_of = [], [], [], [], []
    n_bad_lines = 0
    for leg, pkg, files, test in LEGS:
        if replay_leg and leg != replay_leg:
            continue
        binary = ctx.go_test_binary(pkg, files, "c06" + leg)
        if binary is None:
            ctx.oblige("harness-builds:" + leg, False, ctx.harness_error[-1500:])
            continue
        ctx.oblige("harness-builds:" + leg, True)
        env = {}
        if ctx.replay and leg != "net":
            env["VERIF_REPLAY"] = os.path.abspath(ctx.replay)
        elif ctx.replay:
            env["VERIF_SEED"] = replay_seed if replay_seed is not None else ctx.seed
        elif leg == "dag":
            env["VERIF_CORPUS"] = os.path.join(os.path.dirname(os.path.dirname(os.path.abspath(__file__))), "harness", "corpus", "C06")
        # a check never runs unbounded: a few times the normal duration of the leg (quick ~10 s, thorough ~2 min)
        limit = 3000 if ctx.thorough else 600
        outdir = os.path.join(ctx.scratch, "out_" + leg)
        try:
            rc, log, out = ctx.run_harness(binary, test, env, outdir=outdir, timeout=limit)
        except Exception as e:   # subprocess.TimeoutExpired: the go test timeout did not fire either
            rc, log, out = 98, f"harness killed after {limit + 60}s: {e!r}", outdir
        if rc != 0:
            # a hang (per-op watchdog / schedule step limit: exit 97 and a `hang:` line; or the go test timeout) is a finding of its
            # own: the ops written so far are the replay, the last one is the op that did not return
            so_far = [l for l in (ctx.read_lines(os.path.join(out, "ops.jsonl")) if os.path.exists(os.path.join(out, "ops.jsonl")) else []) if l]
            done = ctx.read_lines(os.path.join(out, "impl.out")) if os.path.exists(os.path.join(out, "impl.out")) else []
            hang = rc in (97, 98) or "test timed out" in log or any(l.startswith("hang:") for l in done[-3:])
            ctx.oblige("harness-runs:" + leg, False, log[-1500:])
            if hang and so_far:
                k = len(so_far) - 1
                while k > 0 and json.loads(so_far[k]).get("op") != "new":
                    k -= 1
                last = json.loads(so_far[-1])
                what = next((l for l in reversed(done) if l.startswith("hang:")), "the leg's time limit was reached")
                ctx.violation("C06:hang:" + str(last.get("op")), f"leg {leg}: the implementation did not return ({what[:300]}); last op: {last.get('op')} "
                              f"{((last.get('call') or {}).get('note') or last.get('note') or '')}", "hang-" + leg + ".jsonl",
                              json.dumps({"op": "meta", "leg": leg, "seed": ctx.seed}) + "\n" + "\n".join(so_far[k:]))
            continue
        ctx.oblige("harness-runs:" + leg, True)
        ops_p, impl_p, model_p = (os.path.join(out, x) for x in ("ops.jsonl", "impl.out", "model.out"))
        ok, err = ctx.model("C06", ops_p, model_p)
        ctx.oblige("model-driver-runs:" + leg, ok, err[-500:])
        a, b, _ = ctx.compare(impl_p, model_p)
        ro = ctx.read_lines(ops_p)[:len(a)]
        side_p = os.path.join(out, "impl.side")
        sd = ctx.read_lines(side_p)[:len(a)] if os.path.exists(side_p) else []
        sd += [None] * (len(a) - len(sd))
        b = (b + [None] * len(a))[:max(len(a), len(b))]
        n_bad_lines += max(0, len(b) - len(a))
        raw_ops += ro
        impl += a
        model += b[:len(a)]
        side += sd
        leg_of += [leg] * len(a)
    if not impl:
        return
    bad = [i for i in range(len(impl)) if impl[i] != model[i]]
    ops = [json.loads(l) if l else {} for l in raw_ops]

    def hist_start(i):
        k = i
        while k > 0 and ops[k].get("op") != "new" and leg_of[k - 1] == leg_of[i]:
            k -= 1
        return k

    def replay_text(i):
        meta = json.dumps({"op": "meta", "leg": leg_of[i], "seed": ctx.seed})
        op = ops[i].get("op")
        if op in ("parse", "framing", "hashlist", "newtx", "algfit"):
            return meta + "\n" + raw_ops[i]
        return meta + "\n" + "\n".join(raw_ops[hist_start(i):i + 1])

    seen_sig = set()

    def violate(sig, what, i):
        if sig in seen_sig:
            return
        seen_sig.add(sig)
        ctx.violation(sig, f"{what} (op {i}: {ops[i].get('op')} {((ops[i].get('call') or {}).get('note') or ops[i].get('note') or '')})",
                      sig.split(":", 1)[1].replace(":", "-").replace("/", "-")[:60] + ".jsonl", replay_text(i))

    # ------------------------------------------------------------------ oracle 1: whatever the parser accepts is well-formed, lc exact
    stats = Counter()
    notes = Counter()
    distinct = set()
    n_parse_ok = n_unmodelled = 0
    n_framing = 0
    fr_notes = Counter()
    ver_trunc = 0
    for i, op in enumerate(ops):
        kind = op.get("op")
        stats["op:" + str(kind)] += 1
        calls = [op["call"]] if kind in ("parse", "add") else (op.get("calls") or [])
        for c in calls:
            distinct.add(c["jws"].get("ref"))
        if kind == "framing":
            # deepening round: the REAL isJWSSerialization on raw bytes against RFC 7515 re-stated here (framing_ok), both directions
            n_framing += 1
            fr_notes[(op["call"].get("note") or "").split(":")[0]] += 1
            got = impl[i].split(" ")[0]
            want = "fr=true" if framing_spec(op["call"]["in"]) else "fr=false"
            stats["framing:" + got] += 1
            if got == "fr=true" and want == "fr=false":
                violate("C06:framing-check-passes-non-serialization", "isJWSSerialization passed bytes that are not a JWS serialization (RFC 7515: JSON, or exactly "
                        "three canonical unpadded base64url segments): one signed transaction gets many refs", i)
            elif got == "fr=false" and want == "fr=true":
                violate("C06:framing-check-refuses-serialization", "isJWSSerialization refused a canonical JWS serialization (a valid transaction can no longer enter the DAG)", i)
            continue
        if kind != "parse":
            continue
        line = impl[i]
        jws = op["call"]["jws"]
        notes[(op["call"].get("note") or "").split(":")[0].split("=")[0]] += 1
        if line == "unmodelled":
            n_unmodelled += 1
            continue
        stats["parse:" + line.split(" ")[0]] += 1
        if line.startswith("panic"):
            violate("C06:parser-panic", "ParseTransaction panicked", i)
        if not line.startswith("ok "):
            continue
        n_parse_ok += 1
        breaches = wellformed(jws, algos)
        if breaches:
            violate("C06:parser-accepted-malformed:" + breaches[0], f"ParseTransaction accepted a transaction that is not well-formed: {breaches}", i)
        if not framing_ok(op["call"]["in"]):
            violate("C06:not-a-jws-serialization", "ParseTransaction accepted bytes that are not a JWS serialization (RFC 7515: three unpadded base64url "
                    "segments, or JSON): e.g. further segments after the signature are ignored, so one signed transaction has many refs", i)
        m = members(jws)
        d = parse_line(line)
        lc = jval(m.get("lc", {}))
        if lc is not None and (lc.denominator != 1 or lc < 0 or lc >= 2 ** 32 or int(lc) != int(d.get("lc", -1))):
            violate("C06:lc-not-exact", f"declared lc={float(lc)!r} admitted as clock {d.get('lc')} (parseLamportClock converts float64 to uint32 unchecked)", i)
        if "jwk" in m and jws.get("jwkPrivate"):
            violate("C06:embedded-private-jwk", "ParseTransaction accepted a transaction whose jwk header holds a private/symmetric key "
                    "(also C17:dagtx:embedded-private-jwk)", i)
        ver = jval(m.get("ver", {}))
        if ver is not None and ver.denominator != 1:
            ver_trunc += 1
    ctx.oblige("oracle:framing-check-is-rfc7515(impl)", not any(s.startswith("C06:framing-check") for s in seen_sig), f"{n_framing} byte strings re-checked")
    ctx.oblige("oracle:parser-accepts-only-wellformed(impl)", not any(s.startswith("C06:parser") or s in ("C06:lc-not-exact", "C06:embedded-private-jwk", "C06:not-a-jws-serialization") for s in seen_sig),
               f"{n_parse_ok} accepted inputs re-checked")
    if ver_trunc:
        ctx.notes.append(f"{ver_trunc} accepted inputs carried a non-integral `ver` (truncated by Version(float64)); the property does not speak about it — modelled, not flagged")

    # ------------------------------------------------------------------ oracle 2: admission on the implementation's own observations
    prev = None          # previous observation dict within the history
    prev_side = None     # previous IBLT/XOR digests (impl.side)
    prev_mc, n_mc = None, 0   # previous (transaction counter, stored transactions) of the same state instance within the history
    prevless = set()     # refs of transactions without prevs offered in this history
    n_cancel = 0
    lcs_prev = []
    docs = {}            # resolver table of the current history: (did, source ref) -> entry (last registration wins)
    n_add = n_admit = n_reject = n_readd = 0
    import hashlib
    probe_phs = []       # the payload hashes probed by ReadPayload, rebuilt here in the harness's order
    declared = {}        # ref8 -> declared payload hash (JWS payload text) of every transaction offered in the history
    n_list = n_late = n_create = 0
    lite = False         # legs in other packages observe without job shelves / notification ledger

    def check_new_tx(c, i, byref, via):
        """a transaction that became present through `via` (list / create): everything the property demands of it"""
        jws = c["jws"]
        m = members(jws)
        ref8 = jws["ref"][:8]
        br = wellformed(jws, algos)
        if br:
            violate("C06:admitted-malformed:" + br[0], f"{via}: admitted transaction is not well-formed: {br}", i)
        if not framing_ok(c["in"]):
            violate("C06:not-a-jws-serialization", f"{via}: bytes that are not a JWS serialization were admitted", i)
        pv = [el.get("s", "")[:8].lower() for el in m.get("prevs", {}).get("v", [])]
        if any(p not in byref for p in pv):
            violate("C06:admitted-with-missing-prev", f"{via}: prevs {[p for p in pv if p not in byref]} not stored", i)
        elif byref[ref8] != 1 + max([byref[p] for p in pv], default=-1):
            violate("C06:admitted-with-wrong-clock", f"{via}: stored at clock {byref[ref8]}, prevs imply {1 + max([byref[p] for p in pv], default=-1)}", i)
        lc = jval(m.get("lc", {}))
        if lc is None or lc != byref[ref8]:
            violate("C06:lc-not-exact", f"{via}: declared lc differs from the clock {byref[ref8]} it is stored at", i)
        if "jwk" in m and not c.get("sigJwk"):
            violate("C06:admitted-bad-signature", f"{via}: signature does not verify against the embedded key", i)
        if "jwk" not in m and not c.get("sigKeys"):
            violate("C06:admitted-bad-signature", f"{via}: signature verifies against no key", i)
        if c.get("pid") is not None and c.get("sha", "").lower() != jws.get("payload", "").lower():
            violate("C06:admitted-wrong-payload", f"{via}: supplied payload does not hash to the declared payload hash", i)
        pal = m.get("pal", {})
        if c.get("pid") is None and via == "list" and not (pal.get("t") == "arr" and pal.get("v")):
            violate("C06:public-tx-admitted-without-payload", "a TransactionList admitted a public transaction that came without payload", i)

    for i, op in enumerate(ops):
        kind = op.get("op")
        if kind not in ("new", "add", "reopen", "sched", "rbwin", "doc", "list", "payload", "create"):
            continue
        if kind == "new":
            probe_phs, declared = [], {}
            lite = bool(op.get("lite"))
        cs_all = [op["call"]] if kind in ("add", "create") and op.get("call") else (op.get("calls") or [])
        for c0 in cs_all:
            declared[c0["jws"]["ref"][:8]] = (c0["jws"].get("payload") or "").lower()
            for ph in c0.get("phs") or []:
                if ph.lower() not in probe_phs:
                    probe_phs.append(ph.lower())
        for ph in (op.get("phs") or []) if kind == "payload" else []:
            if ph.lower() not in probe_phs:
                probe_phs.append(ph.lower())
        if kind == "doc":
            docs[(op.get("did"), op.get("src"))] = op.get("doc") or {}
            continue
        if kind == "new":
            docs = {}
            prevless = set()
        for c0 in ([op["call"]] if kind == "add" else (op.get("calls") or [])):
            pv0 = members(c0["jws"]).get("prevs", {})
            if pv0.get("t") == "arr" and not pv0.get("v"):
                prevless.add(c0["jws"]["ref"][:8])
        cur_side = side[i] if i < len(side) else None
        if cur_side and "ibltfold=BAD" in cur_side:
            violate("C06:iblt-differs-from-stored", "the IBLT digest is not the IBLT of the stored transactions (a transaction that is not on the DAG is in it, or one is missing)", i)
        if cur_side and " pe=" in cur_side:
            cur_side, _, pe = cur_side.partition(" pe=")
            for ev in [e for e in pe.split(",") if e]:
                r8, got, want = ev.split(":")
                if got != want:
                    violate("C06:payload-event-with-wrong-bytes", f"a payload event for {r8} carried bytes hashing to {got}.. but the transaction declares {want}..", i)
        line = impl[i]
        if line.startswith("panic"):
            violate("C06:harness-panic", line[:200], i)
            continue
        o = obs(line)
        lcs = [tuple(x.split(":")) for x in o.get("LC", "").split(",") if x]
        refs = [r for _, r in lcs]
        # state sanity at every observation: refs unique, count = |LC|, at most one root, xor = fold, no 'X'/'E' marks
        if len(set(refs)) != len(refs):
            violate("C06:ref-stored-twice", "FindBetweenLC lists a ref twice", i)
        # the transaction counter (nuts_dag_transactions_total) moves by exactly the number of transactions that got in
        # (theorem transaction_counter_counts_admissions); a restart / new node makes a new counter: only moves are compared
        m_mc = re.search(r" mc=(\d+)", cur_side or "")
        cur_mc = int(m_mc.group(1)) if m_mc else None
        if kind in ("new", "reopen", "rbwin") or leg_of[i] != "dag":
            prev_mc = None
        if cur_mc is not None and prev_mc is not None and kind in ("add", "sched"):
            n_mc += 1
            if cur_mc - prev_mc[0] != len(refs) - prev_mc[1]:
                violate("C06:transaction-counter-differs-from-admissions", f"nuts_dag_transactions_total moved by {cur_mc - prev_mc[0]} while {len(refs) - prev_mc[1]} transaction(s) entered the DAG", i)
        prev_mc = (cur_mc, len(refs)) if cur_mc is not None and leg_of[i] == "dag" else None
        if o.get("m_n") is not None and int(o["m_n"]) != len(refs):
            violate("C06:count-differs-from-stored", f"tx count {o['m_n']} but {len(refs)} stored", i)
        if sum(1 for c, _ in lcs if c == "0") > 1:
            violate("C06:two-roots", "two transactions with clock 0 stored", i)
        if sum(1 for _, r in lcs if r in prevless) > 1:
            violate("C06:two-roots", "more than one transaction without prevs is stored (the root is not unique)", i)
        if any(cl != "0" for cl, r in lcs if r in prevless):
            violate("C06:admitted-with-wrong-clock", "a transaction without prevs is stored at a non-zero clock", i)
        x = 0
        for r in refs:
            x ^= int(r, 16)
        if o.get("m_xor") is not None and int(o["m_xor"], 16) != x:
            violate("C06:digest-differs-from-stored", "XOR digest is not the XOR of the stored refs", i)
        if "X" in o.get("P", "") or "E" in o.get("P", "") or "X" in o.get("PL", ""):
            violate("C06:inconsistent-read", "IsPresent/GetTransaction/ReadPayload disagree", i)
        # the payload store, as ReadPayload shows it: whatever is stored under a hash hashes to it
        pls = [x for x in o.get("PL", "").split(",")] if o.get("PL", "") != "" else []
        if len(pls) == len(probe_phs):
            for hx, pidtxt in zip(probe_phs, pls):
                if pidtxt != "-" and hashlib.sha256(b"P" + pidtxt.encode()).hexdigest() != hx:
                    violate("C06:stored-payload-does-not-hash-to-its-key", f"ReadPayload({hx[:8]}..) returns the bytes P{pidtxt}, which hash to something else", i)
        if kind in ("list", "create"):
            byref = {r: int(cl) for cl, r in lcs}
            newrefs = [r for _, r in lcs if r not in [x for _, x in lcs_prev]]
            res = o["head"][2:] if o["head"].startswith("r=") else o["head"]
            stats[kind + ":" + res.split(" ")[0]] += 1
            cs = op.get("calls") or ([op["call"]] if op.get("call") else [])
            byc = {c0["jws"]["ref"][:8]: c0 for c0 in cs}
            for r8 in newrefs:
                if r8 not in byc:
                    violate("C06:admission-not-exactly-one", f"{kind}: {r8} appeared but was not offered", i)
                else:
                    check_new_tx(byc[r8], i, byref, kind)
            if kind == "list":
                n_list += 1
                notes["list/" + (op.get("note") or "").split(":")[0].split("@")[0].split("(")[0]] += 1
                if any(c0["jws"].get("framing") == "bad" or wellformed(c0["jws"], algos) for c0 in cs) and res.split(" ")[0] not in ("ok", "ok:missing-prevs") and False:
                    pass
                if any(c0["jws"].get("framing") == "bad" for c0 in cs) and newrefs:
                    violate("C06:list-with-unparseable-tx-partly-admitted", "a TransactionList holding bytes that do not parse added transactions", i)
                if not res.startswith("ok") and not newrefs and prev is not None and any(o.get(k) != prev.get(k) for k in ("LC", "m_n", "m_lch", "m_lca", "m_head", "m_xor")):
                    violate("C06:rejected-left-trace", f"handleTransactionList returned {res}, added nothing, but the observable state changed", i)
            else:
                n_create += 1
                if res.startswith("ok"):
                    c0 = op["call"]
                    r8 = c0["jws"]["ref"][:8]
                    pv = [el.get("s", "")[:8].lower() for el in members(c0["jws"]).get("prevs", {}).get("v", [])]
                    want = [a[:8].lower() for a in op.get("additional") or []]
                    if prev is not None and prev.get("m_head", "-") != "-":
                        want.append(prev["m_head"])
                    if newrefs != [r8] or any(w not in pv for w in want) or len(set(pv)) != len(pv):
                        violate("C06:created-tx-prevs", f"CreateTransaction: prevs {pv} do not hold the head and the additional prevs {want} exactly once, or the transaction was not stored", i)
                else:
                    # was the request valid? every additional prev stored together with its payload (and a head to build on)
                    prev_refs = [x for _, x in lcs_prev]
                    pls_prev = [x for x in (prev or {}).get("PL", "").split(",")] if (prev or {}).get("PL", "") else []
                    def has_payload(r8):
                        hx = declared.get(r8)
                        return hx in probe_phs and probe_phs.index(hx) < len(pls_prev) and pls_prev[probe_phs.index(hx)] != "-"
                    addl = [a[:8].lower() for a in op.get("additional") or []]
                    if all(a in prev_refs and has_payload(a) for a in addl) and (prev_refs or not addl):
                        violate("C06:create-refused-valid-request", f"CreateTransaction returned {res} although head and additional prevs {addl} are stored with their payloads", i)
                if not res.startswith("ok") and (newrefs or (prev is not None and any(o.get(k) != prev.get(k) for k in ("LC", "m_n", "m_xor")))):
                    violate("C06:rejected-left-trace", f"CreateTransaction returned {res} but the observable state changed", i)
        if kind == "payload":
            n_late += 1
            res = o["head"][2:] if o["head"].startswith("r=") else o["head"]
            stats["payload:" + res] += 1
            notes["payload/" + (op.get("note") or "")] += 1
            r8 = op.get("ref", "")[:8]
            if res == "ok" and declared.get(r8) != (op.get("sha") or "").lower():
                violate("C06:late-payload-with-wrong-bytes-accepted", f"handleTransactionPayload stored bytes for {r8} that do not hash to its declared payload hash", i)
            def pl_same():
                a0 = [x for x in prev.get("PL", "").split(",") if x]
                return [x for x in o.get("PL", "").split(",") if x][:len(a0)] == a0
            if res != "ok" and prev is not None and (any(o.get(k) != prev.get(k) for k in ("LC", "m_n", "m_xor")) or not pl_same()):
                violate("C06:rejected-left-trace", f"handleTransactionPayload returned {res} but the observable state changed", i)
        if kind == "reopen":
            if prev is not None and any(o.get(k) != prev.get(k) for k in ("LC", "PL", "J", "m_n", "m_lch", "m_lca", "m_head", "m_xor")):
                violate("C06:reopen-differs", "a second state on the same database observes a different DAG", i)
            continue
        if kind == "add":
            n_add += 1
            c = op["call"]
            res = o["head"][2:] if o["head"].startswith("r=") else o["head"]
            stats["add:" + res] += 1
            notes["add/" + (c.get("note") or "").split(":")[0]] += 1
            for mk in re.findall(r"kid-alg-curve-mismatch:[^:]+|\(valid\)kid:[^:]+|alg-curve-mismatch:[^:]+", c.get("note") or ""):
                notes["add/" + mk] += 1
            ref8 = c["jws"]["ref"][:8]
            was = prev is not None and ref8 in [r for _, r in lcs_prev]
            same = prev is not None and all(o.get(k) == prev.get(k) for k in ("LC", "J", "m_n", "m_lch", "m_lca", "m_head", "m_xor")) \
                and o.get("P", "")[:len(prev.get("P", ""))] == prev.get("P", "") and o.get("E", "") == "" \
                and o.get("PL", "").split(",")[:len([x for x in prev.get("PL", "").split(",") if x])] == [x for x in prev.get("PL", "").split(",") if x]
            if op.get("cancel"):
                n_cancel += 1
            side_same = prev_side is None or cur_side is None or cur_side == prev_side
            if res != "ok":
                n_reject += 1
                if prev is not None and not same:
                    violate("C06:rejected-left-trace", f"Add returned {res} but the observable state changed", i)
                if not side_same:
                    violate("C06:rejected-left-trace-in-digests", f"Add returned {res} but the IBLT/XOR digests or their clock changed: {prev_side} -> {cur_side}", i)
            elif was:
                n_readd += 1
                if not same or not side_same:
                    violate("C06:readd-changed-state", "re-adding a present transaction changed state, digests or notified", i)
            else:
                n_admit += 1
                jws = c["jws"]
                m = members(jws)
                new = [x for x in lcs if x not in lcs_prev]
                if len(new) != 1 or new[0][1] != ref8 or len(lcs) != len(lcs_prev) + 1:
                    violate("C06:admission-not-exactly-one", "Add returned nil for an absent transaction but not exactly this one was added", i)
                else:
                    breaches = wellformed(jws, algos)
                    if breaches:
                        violate("C06:admitted-malformed:" + breaches[0], f"admitted transaction is not well-formed: {breaches}", i)
                    if not framing_ok(c["in"]):
                        violate("C06:not-a-jws-serialization", "bytes that are not a JWS serialization were admitted as a transaction "
                                "(the same signed content enters the DAG again under another ref)", i)
                    clock = int(new[0][0])
                    byref = {r: int(cl) for cl, r in lcs_prev}
                    pv = [el.get("s", "")[:8].lower() for el in m.get("prevs", {}).get("v", [])]
                    missing = [p for p in pv if p not in byref]
                    if missing:
                        violate("C06:admitted-with-missing-prev", f"prevs {missing} not stored", i)
                    else:
                        want = 1 + max([byref[p] for p in pv], default=-1)
                        if clock != want:
                            violate("C06:admitted-with-wrong-clock", f"stored at clock {clock}, prevs imply {want}", i)
                    lc = jval(m.get("lc", {}))
                    if lc is None or lc != clock:
                        violate("C06:lc-not-exact", f"declared lc={None if lc is None else float(lc)!r} but admitted at clock {clock}", i)
                    if not pv and any(cl == "0" for cl, _ in lcs_prev):
                        violate("C06:second-root", "a second root was admitted", i)
                    if "jwk" in m and jws.get("jwkPrivate"):
                        violate("C06:embedded-private-jwk", "a transaction embedding a private key in its jwk header was admitted "
                                "(also C17:dagtx:embedded-private-jwk)", i)
                    if "jwk" in m:
                        if not c.get("sigJwk"):
                            violate("C06:admitted-bad-signature", "signature does not verify against the embedded key", i)
                    else:
                        # the key the kid denotes in the signer's document as of the first prev that has one (keys.go), re-derived here
                        kid = m.get("kid", {}).get("v", "")
                        key, why = None, "no document for any prev"
                        for el in m.get("prevs", {}).get("v", []):
                            e = docs.get((c.get("kidDid"), el.get("s", "").lower()))
                            if e is None:
                                continue
                            if e.get("res") != "doc":
                                why = "resolver error"
                                break
                            hit = [v[1] for v in (e.get("vms") or []) if v[0] == kid]
                            key, why = (hit[0], "") if hit else (None, "kid not in the document")
                            break
                        if c.get("kidDid") is None or key is None:
                            violate("C06:admitted-unresolvable-kid", f"admitted although the kid resolves to no key ({why})", i)
                        elif key not in (c.get("sigKeys") or []):
                            violate("C06:admitted-bad-signature", f"signature does not verify against the key the kid denotes (key {key})", i)
                    if c.get("pid") is not None and c.get("sha", "").lower() != jws.get("payload", "").lower():
                        violate("C06:admitted-wrong-payload", "payload does not hash to the declared payload hash", i)
                    ev = [e for e in o.get("E", "").split(",") if e]
                    if not lite and (sum(1 for e in ev if e == f"gossip:t:{ref8}") != 1 or any(not e.endswith(ref8) for e in ev)):
                        violate("C06:notification-not-exactly-once", f"notifications for the admission: {ev}", i)
        if kind == "rbwin":
            stats["rbwin:" + o["head"]] += 1
            ra = o["head"].split(" ")[0][5:]
            a8 = op["calls"][0]["jws"]["ref"][:8]
            if ra != "ok" and a8 in refs:
                violate("C06:rejected-left-trace", f"Add(A) returned {ra} (rolled back) but A is stored", i)
        if kind == "sched":
            stats["sched"] += 1
            # every transaction of the burst that is stored obeys the clock rule
            byref = {r: int(cl) for cl, r in lcs}
            for c0 in op.get("calls") or []:
                r8 = c0["jws"]["ref"][:8]
                if r8 in byref:
                    pv = [el.get("s", "")[:8].lower() for el in members(c0["jws"]).get("prevs", {}).get("v", [])]
                    if any(p not in byref for p in pv) or byref[r8] != 1 + max([byref[p] for p in pv if p in byref], default=-1):
                        violate("C06:admitted-with-wrong-clock", f"after the burst {r8} is stored at clock {byref[r8]} against its prevs {pv}", i)
        prev, lcs_prev, prev_side = o, lcs, cur_side
        if kind == "new":
            prev, lcs_prev, prev_side = o, [], cur_side
    ctx.oblige("oracle:transaction-counter=admissions(impl)", "C06:transaction-counter-differs-from-admissions" not in seen_sig, f"{n_mc} counter moves compared")
    ctx.oblige("oracle:admission-sound/no-trace/idempotent(impl)", not any(s.split(":")[1] in (
        "rejected-left-trace", "rejected-left-trace-in-digests", "payload-event-with-wrong-bytes", "readd-changed-state", "admission-not-exactly-one", "admitted-with-missing-prev", "admitted-with-wrong-clock",
        "second-root", "admitted-bad-signature", "admitted-unresolvable-kid", "stored-payload-does-not-hash-to-its-key",
        "public-tx-admitted-without-payload", "list-with-unparseable-tx-partly-admitted", "created-tx-prevs", "create-refused-valid-request", "late-payload-with-wrong-bytes-accepted", "admitted-wrong-payload", "notification-not-exactly-once", "ref-stored-twice",
        "count-differs-from-stored", "two-roots", "digest-differs-from-stored", "iblt-differs-from-stored", "inconsistent-read", "reopen-differs") or
        s.startswith("C06:admitted-malformed") for s in seen_sig),
        f"{n_add} adds: {n_admit} admitted, {n_reject} rejected ({n_cancel} with the context cancelled inside the write tx), {n_readd} re-adds")


    # ------------------------------------------------------------------ oracle 2a' (round 3): jwx.AlgorithmFitsKey against RFC 7518 3.4 / RFC 8037
    # restated here: an ECDSA key on P-256 / P-384 / P-521 fits exactly ES256 / ES384 / ES512; an Ed25519 key fits exactly EdDSA and
    # must be 32 bytes long (a nil pointer fits nothing); other curves / key types are not judged (true).
    n_algfit = 0
    for i, op in enumerate(ops):
        if op.get("op") != "algfit":
            continue
        n_algfit += 1
        ty, _, arg = op["shape"].partition(":")
        alg = op.get("alg", "")
        if "ecdsa" in ty.lower():
            want = {"P-256": alg == "ES256", "P-384": alg == "ES384", "P-521": alg == "ES512"}.get(arg, True)
        elif "ed25519" in ty or "OKP" in ty:
            want = alg == "EdDSA" and arg == "32"
        else:
            want = True
        if impl[i] != ("fits=true" if want else "fits=false"):
            violate("C06:algorithm-fits-key-wrong", f"jwx.AlgorithmFitsKey({alg!r}, {op['shape']}) answered {impl[i]}, RFC 7518 3.4 / RFC 8037 say {want}", i)
    ctx.oblige("oracle:algorithm-fits-key(impl)", not any(s.startswith("C06:algorithm-fits-key-wrong") for s in seen_sig), f"{n_algfit} AlgorithmFitsKey calls")

    # ------------------------------------------------------------------ oracle 2b (deepening round): the bytes in the store, on the implementation's own dumps
    n_shelf = n_hashlist = n_ranges = 0
    last_obs = None
    for i, op in enumerate(ops):
        kind = op.get("op")
        if kind == "hashlist":
            n_hashlist += 1
            raw = base64.b64decode(op["call"]["in"])
            kv = dict(re.findall(r"(\w+)=(\S*)", impl[i]))
            want_n = len(raw) // 32
            ok = (kv.get("n") == str(want_n) and kv.get("nil") == ("true" if len(raw) == 0 else "false") and kv.get("back") == str((len(raw) + 32) // 32)
                  and kv.get("app", "").split(":")[0] == str(len(raw) + 32)
                  and [r.split(":")[1] for r in kv.get("refs", "").split(",") if r] == [raw[k * 32:k * 32 + 4].hex() for k in range(want_n)]
                  and (len(raw) < 4 or kv.get("clk") == str(int.from_bytes(raw[:4], "big"))) and (len(raw) < 8 or kv.get("cnt") == str(int.from_bytes(raw[:8], "big"))))
            if not ok:
                violate("C06:hash-list-codec", f"parseHashList/appendHashList/bytesToClock do not read {len(raw)} bytes as whole 32-byte refs / big-endian counters: {impl[i][:200]}", i)
            continue
        if kind in ("new", "add", "reopen", "sched", "rbwin", "list", "payload", "create"):
            last_obs = obs(impl[i]) if " | " in impl[i] else last_obs
            continue
        if kind != "shelf" or not impl[i].startswith("CL="):
            continue
        n_shelf += 1
        parts = dict(p.split("=", 1) for p in impl[i].split(" | "))
        cl = []          # (clock, ref8) in store order
        broken = None
        for e in [e for e in parts.get("CL", "").split(";") if e]:
            k, _, v = e.partition(":")
            if len(k) != 8 or "+" in v:
                broken = e
                continue
            cl += [(int(k, 16), r) for r in v.split(",") if r]
        doc = [r for r in parts.get("DOC", "").split(",") if r]
        md = dict(x.split(":", 1) for x in parts.get("MD", "").split(",") if ":" in x)
        refs = [r for _, r in cl]
        if broken or len(set(refs)) != len(refs) or sorted(refs) != sorted(doc):
            violate("C06:clock-index-differs-from-documents", f"the clocks shelf does not file every stored transaction exactly once as a whole 32-byte ref "
                    f"(documents: {len(doc)}, clock entries: {len(refs)}, distinct: {len(set(refs))}, malformed entry: {broken})", i)
        if last_obs is not None:
            lc_seen = sorted((int(x.split(":")[0]), x.split(":")[1]) for x in last_obs.get("LC", "").split(",") if x)
            if lc_seen != sorted(cl) and not broken:
                violate("C06:clock-index-differs-from-documents", "a stored transaction is filed under another clock value than the one it declares / FindBetweenLC returned", i)
        want_md = {"tx_num": "%016x" % len(doc), "lc_high": "%08x" % max([c for c, _ in cl], default=0)}
        if doc and (md.get("tx_num") != want_md["tx_num"] or md.get("lc_high") != want_md["lc_high"] or
                    (md.get("head_ref"), int(md.get("lc_high", "0"), 16)) not in [(r, c) for c, r in cl]):
            violate("C06:metadata-differs-from-stored", f"metadata shelf {md} against {len(doc)} stored transactions, highest clock {want_md['lc_high']}", i)
        if (parts.get("roots") == "true") != any(c == 0 for c, _ in cl):
            violate("C06:root-check-misreads-store", f"getRoots(clocks) != nil is {parts.get('roots')} although the store {'holds' if any(c == 0 for c, _ in cl) else 'holds no'} transaction at clock 0", i)
        for q in [q for q in parts.get("RNG", "").split(";") if q]:
            n_ranges += 1
            ab, _, got = q.partition(":")
            a, b = (int(x) for x in ab.split("-"))
            want = ",".join(f"{c}/{r}" for c, r in sorted((c, r) for c, r in cl if a <= c < b))
            if got != want:
                violate("C06:find-between-lc-incomplete", f"findBetweenLC({a},{b}) returned [{got[:200]}] but the store holds [{want[:200]}] in that clock range", i)
    ctx.oblige("oracle:store-bytes-hold-exactly-the-dag(impl)", not any(s.split(":")[1] in ("hash-list-codec", "clock-index-differs-from-documents", "metadata-differs-from-stored",
               "root-check-misreads-store", "find-between-lc-incomplete") for s in seen_sig), f"{n_shelf} raw store dumps, {n_ranges} range scans, {n_hashlist} hash-list inputs")


    # ------------------------------------------------------------------ oracle 2c (deepening round): NewTransaction + Sign, on the implementation's own outputs
    n_newtx = 0
    newtx_classes = Counter()
    for i, op in enumerate(ops):
        if op.get("op") != "newtx":
            continue
        n_newtx += 1
        line = impl[i]
        cty, prevs_in, lc_in = op.get("cty", ""), [p.lower() for p in op.get("prevs") or []], int(op.get("lc", 0))
        dd = []
        for pv in prevs_in:
            if pv not in dd:
                dd.append(pv)
        dd8 = ",".join(pv[:8] for pv in dd)
        newtx_classes[line.split(" ")[0] + ("/" + line.split(" | sign=")[1].split(" ")[0] if " | sign=" in line else "")] += 1
        if "/" not in cty:
            if line != "err:invalid-payload-type":
                violate("C06:new-transaction-accepts-invalid", f"NewTransaction accepted the payload type {cty!r} (no MIME form): {line[:120]}", i)
            continue
        if any(set(pv) == {"0"} for pv in prevs_in):
            if line != "err:invalid-prevs":
                violate("C06:new-transaction-accepts-invalid", f"NewTransaction accepted an empty hash among the prevs: {line[:120]}", i)
            continue
        head, _, sign = line.partition(" | sign=")
        hv = dict(re.findall(r"(\w+)=(\[[^\]]*\]|\S+)", head))
        if not head.startswith("new ") or hv.get("prevs") != f"[{dd8}]" or hv.get("nilprevs") != ("true" if not dd else "false") or hv.get("ver") != "2" or hv.get("lc") != str(lc_in):
            violate("C06:new-transaction-prevs", f"NewTransaction({cty!r}, prevs={[pv[:8] for pv in prevs_in]}, lc={lc_in}) gave {head[:200]}; expected prevs [{dd8}] (each once, order kept), version 2", i)
            continue
        if hv.get("zero") != "err:signing-time-zero":
            violate("C06:sign-precheck", f"Sign with the zero time: {hv.get('zero')}", i)
        sigt_in, embed, kid = int(op.get("sigt", 0)), bool(op.get("embed")), op.get("kid", "")
        if sigt_in == 0:
            if sign != "err:signing-time-zero":
                violate("C06:sign-precheck", f"Sign with the zero time: {sign[:100]}", i)
            continue
        if not embed and kid == "":
            if sign != "err:kid-jwk":
                violate("C06:signed-transaction-differs-from-request", f"Sign without key and without kid: {sign[:100]}", i)
            continue
        sv = dict(re.findall(r"(\w+)=(\"(?:[^\"\\]|\\.)*\"|\[[^\]]*\]|\S+)", sign))
        want_names = sorted(["alg", "crit", "cty", "jwk" if embed else "kid", "lc", "prevs", "sigt", "ver"] + (["pal"] if op.get("paln") is not None else []))
        want = {"ph": (op.get("ph") or "")[:8].lower(), "cty": json.dumps(cty), "jwk": "true" if embed else "false", "kid": json.dumps("" if embed else kid),
                "sigt": str(sigt_in), "ver": "2", "prevs": f"[{dd8}]", "pal": str(op.get("paln") or 0), "lc": str(lc_in), "names": ",".join(want_names),
                "crit": "sigt,ver,prevs,lc", "again": "err:already-signed"}
        diff = {k: (sv.get(k), v) for k, v in want.items() if sv.get(k) != v}
        if not sign.startswith("ok ") or sv.get("alg") not in algos or diff:
            violate("C06:signed-transaction-differs-from-request", f"Sign produced a transaction that differs from what NewTransaction was given (got, want): {diff} — {sign[:160]}", i)
    ctx.oblige("oracle:created-transaction-is-what-was-requested(impl)", not any(s.split(":")[1] in ("new-transaction-accepts-invalid", "new-transaction-prevs", "sign-precheck",
               "signed-transaction-differs-from-request") for s in seen_sig), f"{n_newtx} NewTransaction+Sign calls")

    # ------------------------------------------------------------------ oracle 3: every interleaving equals a sequential order (impl only)
    groups = {}
    for i, op in enumerate(ops):
        if op.get("op") == "sched":
            key = json.dumps([c["jws"]["ref"] + ":" + str(c.get("pid")) for c in op["calls"]]) + "|" + json.dumps([raw_ops[k] for k in range(hist_start(i) + 1, i)])
            groups.setdefault(key, []).append(i)

    def canon_sched(line):
        o = obs(line)
        ev = sorted(e for e in o.get("E", "").split(",") if e)
        if line.startswith("mid="):
            # notifications are drained at every intermediate observation: collect them all
            for mo in line[4:].split(" || ", 1)[0].split(" ;; "):
                ev += [e for e in obs("x | " + mo).get("E", "").split(",") if e]
            ev = sorted(ev)
        return (o["head"], o.get("LC"), o.get("PL"), o.get("J"), o.get("m_n"), o.get("m_lch"), o.get("m_lca"), o.get("m_head"), o.get("m_xor"), tuple(ev))

    def sequential(s):
        seen, last = set(), None
        for t in s:
            if t != last and t in seen:
                return False
            seen.add(t)
            last = t
        return True
    n_sched = n_groups = 0
    for key, idx in groups.items():
        seqs = {canon_sched(impl[i]) for i in idx if sequential(ops[i]["sched"])}
        if len(idx) < 2 or not seqs:
            continue
        n_groups += 1
        for i in idx:
            n_sched += 1
            if impl[i].startswith("mid="):
                # every intermediate state: refs unique, count = stored, digest = fold, the DAG only grows
                lastrefs = None
                for mo in impl[i][4:].split(" || ", 1)[0].split(" ;; "):
                    o2 = obs("x | " + mo)
                    refs2 = [x.split(":")[1] for x in o2.get("LC", "").split(",") if x]
                    xx = 0
                    for r in refs2:
                        xx ^= int(r, 16)
                    if len(set(refs2)) != len(refs2) or int(o2.get("m_n", -1)) != len(refs2) or int(o2.get("m_xor", "0"), 16) != xx or \
                            (lastrefs is not None and not set(lastrefs) <= set(refs2)):
                        violate("C06:intermediate-state-invalid", f"between two steps of interleaving {ops[i]['sched']} the observable DAG is inconsistent", i)
                    lastrefs = refs2
            if canon_sched(impl[i]) not in seqs:
                violate("C06:schedule-not-serialisable", f"interleaving {ops[i]['sched']} ends in a state/results no sequential order produces", i)
    ctx.oblige("oracle:every-interleaving-equals-a-sequential-order(impl)", "C06:schedule-not-serialisable" not in seen_sig,
               f"{n_sched} schedules in {n_groups} scenarios")

    # ------------------------------------------------------------------ correspondence
    if bad:
        i = bad[0]
        detail = f"first differing line {i} (op {ops[i].get('op') if i < len(ops) else '?'} {((ops[i].get('call') or {}).get('note') if i < len(ops) else '')})\n" \
                 f"impl : {impl[i][:1200] if i < len(impl) else None}\nmodel: {model[i][:1200] if i < len(model) else None}"
        ctx.oblige("correspondence:model=impl", False, f"{len(bad)} of {len(impl)} lines differ; " + detail[:700])
        if not ctx.violations and i < len(ops):
            with open(os.path.join(ctx.replay_dir(), "correspondence.jsonl"), "w") as f:
                f.write(replay_text(i) + "\n")
            ctx.unproved(["correspondence C06 (model.out != impl.out)"], detail + f"\nreplay ops: {ctx.replay_dir()}/correspondence.jsonl")
    else:
        ctx.oblige("correspondence:model=impl", True, f"{len(impl)} lines equal")

    ctx.cov["evaluations"] = len(impl)
    ctx.cov["distinct_nontrivial"] = len(distinct)
    ctx.cov["traces_validated_against_impl"] = len(impl) - len(bad)
    ctx.cov["rule"] = ("(1) parser: structure-aware mutants of valid signed transactions (each member removed / retyped to ~45 JSON values incl. extreme and "
                       "fractional numbers / duplicated first+last / alg swapped incl. none, HS*, RS*, unknown / kid+jwk both, neither, empty, null / cty, prevs, "
                       "pal, payload malformed / JSON flattened, general, 0/1/2 signatures, unprotected-only / truncations, extra segment, whitespace, std-base64 / "
                       "random double mutations) -> ParseTransaction vs model on the decoded header; (2) admission: DAG histories of 20-60 offers on a real state "
                       "(bbolt) with valid (jwk- and kid-signed, branching, with/without payload, PAL) and single/double-defect transactions (22 defect kinds), re-adds, "
                       "re-offers after the missing prev arrived, a second state on the same DB; full observation after every op; (3) schedules: 8 scenario kinds x "
                       "ALL interleavings of read-tx/write-tx steps (6 for 2 threads, 90 for 3) forced by a gating KVStore; (4) byte-level re-framings of valid transactions and synthetic "
                       "inputs (every trailing-bit variant / byte / Unicode white space) -> real isJWSSerialization + real base64 decoder vs model; (5) raw dumps of the bbolt clocks / "
                       "documents / metadata shelves + real getRoots + real findBetweenLC ranges every 5th history step vs the byte-level store model; random hash-list bytes -> "
                       "real parseHashList/appendHashList/bytesToClock; (6) real NewTransaction + real Sign (in-memory JWS signer) on hostile arguments vs model. "
                       "distinct_nontrivial = distinct input byte strings offered")
    ctx.cov["input_distribution"] = {"ops": {k: v for k, v in sorted(stats.items())}, "mutation_classes": dict(notes.most_common(40)), "alg_curve_shapes": {k: v for k, v in sorted(notes.items()) if "curve" in k or "(valid)kid" in k},
                                     "parse_unmodelled_framing": n_unmodelled, "framing_inputs": n_framing, "new_transaction_sign_calls": n_newtx, "new_transaction_outcomes": dict(newtx_classes), "raw_store_dumps": n_shelf, "range_scans": n_ranges, "hash_list_inputs": n_hashlist, "algorithm_fits_key_calls": n_algfit, "framing_classes": dict(fr_notes.most_common(40)), "schedules": n_sched, "schedule_scenarios": n_groups,
                                     "legs": dict(Counter(leg_of)), "transaction_lists(v2 handler)": n_list, "late_payloads(v2 handler)": n_late,
                                     "CreateTransaction calls (wired Network)": n_create,
                                     "adds": {"total": n_add, "admitted": n_admit, "rejected": n_reject, "re-adds": n_readd, "context-cancelled-in-write-tx": n_cancel}}
    ctx.cov["samples"] = [impl[0][:300] if impl else "", next((impl[i][:300] for i, o in enumerate(ops) if o.get("op") == "sched"), "")]
