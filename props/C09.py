"""C09 — did:nuts documents change only by the DID's own key or a controller's key.
Lean: NutsProofs.Props.C09 over NutsModel.C09.Ambassador (+ the C10 store model) + regenerated facts.
Correspondence: in-package harness on the real ambassador.callback / dag signature verifier / didstore (bbolt) /
didnuts.Resolver / dag.SourceTXKeyResolver with really signed transactions, generated histories."""
import json, os, re
from collections import Counter

PKG = "vdr/didnuts"
HARNESS = ["vdr/didnuts/zz_verif_c09_test.go", "vdr/didnuts/zz_verif_c09entry_test.go", "vdr/didnuts/zz_verif_c09mgr_test.go"]

REQUIRED = ["accepted_create_sound", "accepted_create_signed_by_did_key", "accepted_update_sound",
            "accepted_update_signed_by_controller_key", "accepted_update_authorised_under_every_named_version", "signing_time_irrelevant_when_prevs_pin", "callback_accepts_iff", "reprocess_is_callback_again", "resolvable_only_if_accepted", "rejected_inert", "accepted_changes_own_did_only",
            "controller_chain_bounded", "controller_cycle_refused", "deactivated_controller_rejected",
            "controllers_never_deactivated", "controller_versions_are_active", "validator_rules_partial", "validator_rules_embedded_witness", "deactivated_controller_latest_witness", "removed_key_rejected", "removed_key_rejected_self_controlled",
            "validator_rules_sound_complete", "validator_rules_each_necessary",
            "fact_network_validators", "fact_wiring", "fact_succeeded_version_and_key_collection", "fact_entry_id_owner_is_document", "fact_verifier_always_verifies", "fact_thumbprint_rule_for_every_type", "fact_call_sites", "fact_comparisons", "fact_thumbprint_from_key_material", "fact_entry_id_checks", "fact_validator_scope", "fact_max_controller_depth",
            "fact_resolve_conditions", "fact_controller_skips", "fact_create_update_split", "fact_callback_steps",
            "fact_store_calls", "fact_update_steps", "fact_ambassador_controller_resolution", "fact_key_resolver",
            # entry layer (NutsProofs.Props.C09Entry): Start's selection filter, handleNetworkEvent, store faults, event streams
            "filtered_event_inert", "notify_refines_callback", "finished_iff_accepted", "notify_changes_only_if_accepted",
            "store_fault_classification", "filter_subsumes_type_check",
            "event_stream_resolvable_only_if_accepted",
            "lookup_fault_never_accepts", "fallback_lookup_fault_never_accepts", "lookup_fault_not_hit", "callback_of_reachesUpdate",
            "seenSet_same_key", "seenSet_key_mismatch_misses", "validateSvcs_ok_seenSet", "validateSvcs_ok_types_nodup",
            "fact_start_subscription", "fact_did_document_type", "fact_network_event_classification",
            "fact_update_lookup_error_branch", "fact_service_type_seen_set_keys",
            # publishing path (NutsProofs.Props.C09Manager): Manager.Update / resolveControllerWithKey
            "managerUpdate_sound", "managerUpdate_deactivated_refused", "managerUpdate_needs_controller_key",
            "firstOwnedKey_sound", "firstOwnedKey_none", "fact_manager_update_steps", "fact_manager_key_choice",
            # change-log side (NutsProofs.Props.C09Commit): Commit dispatch, onUpdate, onCreate, Deactivate, key naming / NewDocument
            "managerUpdate_eq_tail", "publishTail_sound", "managerOnUpdate_sound", "managerOnUpdate_deactivated_publishes_nothing",
            "onUpdate_agrees_with_update", "managerOnCreate_sound", "commit_template_kind", "created_template_accepted_iff",
            "namedVM_passes_validator", "newDocument_accepted", "deactivationDoc_is_deactivated",
            "fact_commit_dispatch", "fact_on_update_steps", "fact_on_create_template", "fact_kid_naming",
            # maintenance calls (NutsProofs.Props.C09Maintain): RemoveVerificationMethod (+ go-did's removal), IsCommitted
            "removeVM_absent", "removeVM_keeps_others", "removeVM_length_eq_iff", "removeVM_preserves_validity",
            "managerRemoveVM_sound", "managerRemoveVM_noop", "managerRemoveVM_unknown", "removed_method_no_longer_authorises",
            "isCommitted_true_iff", "isCommitted_errors", "isCommitted_reads_what_update_reads",
            "add_then_contains", "own_add_is_the_ambassadors_add", "own_update_redelivery_inert", "own_add_then_isCommitted",
            "fact_remove_vm_steps", "fact_godid_remove_vm", "fact_is_committed",
            "fact_thumbprint_id_comparison_is_textual", "noncanonical_thumbprint_spelling_refused"]

FULL_DOC_RE = re.compile(r"doc=(\S+?)\{Context:\[[^\]]*\];Controller:\[([^\]]*)\];VerificationMethod:\[([^\]]*)\];Authentication:\[[^\]]*\];"
                         r"AssertionMethod:\[[^\]]*\];CapabilityInvocation:\[([^\]]*)\];CapabilityDelegation:\[[^\]]*\];KeyAgreement:\[[^\]]*\];Service:\[([^\]]*)\]")


def obs_map(obs):
    """observation -> {did: {probe label: result string}}"""
    parts = obs.split(" || ")
    table = {}
    for t in parts[1:]:
        k, _, v = t.partition("=")
        table[k] = v
    out, cur = {}, None
    for seg in parts[0].split(" | "):
        if seg.startswith("DID "):
            cur = seg[4:]
            out[cur] = {}
        elif cur and ":#" in seg:
            label, _, ref = seg.partition(":")
            out[cur][label] = table.get(ref, "")
    return out


def parse_version(res):
    """a Resolve result string -> (controllers, capabilityInvocation key names, deactivated flag) or None"""
    if not res.startswith("ok "):
        return None
    m = DOC_RE.search(res)
    if not m:
        return None
    ctrl = [x.split("=")[0] for x in m.group(2).split(",") if x]
    keys = [x.split("=", 1)[1] for x in m.group(4).split(",") if "=" in x]
    return ctrl, keys, "deact=true" in res


def strict_update_check(prev_obs, refs, did, tx):
    """accepted update => the signer is authorised under EVERY version of the DID that the transaction's prevs name (the latest
    one when they name none): listed for capabilityInvocation by the version itself if it controls itself, or by a controller
    version that the prevs pin. Returns a description of the failing version, or None (also when the case needs the signing-time
    fallback or deeper controller chains, which this oracle does not judge)."""
    om = obs_map(prev_obs)
    idx = {r: i for i, r in enumerate(refs)}
    mine = om.get(did, {})
    named = []
    for p in tx["prevs"]:
        r = mine.get(f"s{idx[p]}", "") if p in idx else ""
        if r.startswith("ok ") and r not in named:
            named.append(r)
    if not named:
        r = mine.get("ad", "")
        if not r.startswith("ok "):
            return None
        named = [r]
    for r in named:
        v = parse_version(r)
        if v is None:
            return None
        ctrl, keys, _ = v
        allowed, pinned_any = set(), False
        if (not ctrl or did in ctrl) and keys:
            allowed |= set(keys)
            pinned_any = True
        for c in ctrl:
            if c == did:
                continue
            for p in tx["prevs"]:
                rc = om.get(c, {}).get(f"s{idx[p]}", "") if p in idx else ""
                cv = parse_version(rc)
                if cv is None:
                    continue
                cctrl, ckeys, cdeact = cv
                if cdeact or any(x != c for x in cctrl):
                    return None          # deactivated / indirectly controlled controller version: not judged here
                if ckeys:
                    allowed |= set(ckeys)
                    pinned_any = True
        if pinned_any and tx["signer"] not in allowed:
            m = re.search(r"hash=(\S+)", r)
            return f"version {m.group(1) if m else '?'} of {did} (controllers {ctrl or '-'})"
    return None


DOC_RE = re.compile(r"doc=(\S+?)\{Context:\[[^\]]*\];Controller:\[([^\]]*)\];VerificationMethod:\[([^\]]*)\];Authentication:\[[^\]]*\];"
                    r"AssertionMethod:\[[^\]]*\];CapabilityInvocation:\[([^\]]*)\]")


def stored_docs(obs):
    """every document version visible in an observation: did -> list of (controllers, capInv key names)"""
    out = {}
    for m in DOC_RE.finditer(obs):
        ctrl = [x.split("=")[0] for x in m.group(2).split(",") if x]
        keys = [x.split("=", 1)[1] for x in m.group(4).split(",") if "=" in x]
        out.setdefault(m.group(1), []).append((ctrl, keys))
    return out


def latest_deactivated(obs):
    """DIDs whose LATEST version (Resolve with AllowDeactivated, no other filter) is flagged deactivated"""
    parts = obs.split(" || ")
    table = {}
    for t in parts[1:]:
        k, _, v = t.partition("=")
        table[k] = v
    out, cur = set(), None
    for seg in parts[0].split(" | "):
        if seg.startswith("DID "):
            cur = seg[4:]
        elif seg.startswith("ad:") and cur:
            if "deact=true" in table.get(seg[3:], ""):
                out.add(cur)
    return out


def stored_vm_mismatch(obs):
    """a verification method of a STORED document whose id fragment is not the thumbprint of its own key material"""
    for m in FULL_DOC_RE.finditer(obs):
        for x in m.group(5).split(","):
            if x and not x.split("=")[0].startswith(m.group(1) + "#"):
                return "service " + x.split("=")[0] + " of " + m.group(1)
    for m in DOC_RE.finditer(obs):
        for x in m.group(3).split(","):
            if "=" not in x:
                continue
            vid, key = x.split("=", 1)
            key = key.lstrip("?")   # '?' marks a type go-did cannot make a public key of; the id rule holds for ALL types
            if "#" not in vid or vid.split("#", 1)[1] != key or not vid.startswith(m.group(1) + "#"):
                return vid + " carries key " + (key or "<none>")
    return None


STORED_RE = re.compile(r"doc=(\S+?)\{[^}]*?Service:\[([^\]]*)\]\} created=\S+ updated=\S+ hash=\S+ prev=\S+ src=\[([^\]]*)\]")


def stored_service_type_twice(obs):
    """a STORED, unmerged (one source transaction) document version with two services of the same type string; the type
    travels base64url-encoded behind '~' in the service's body"""
    for m in STORED_RE.finditer(obs):
        if "," in m.group(3):
            continue   # a merged view of conflicting versions may legitimately unite services of the same type
        seen = set()
        for x in m.group(2).split(","):
            if "~" not in x:
                continue
            t = x.rsplit("~", 1)[1]
            if t in seen:
                return f"{m.group(1)} (service {x.split('=')[0]})"
            seen.add(t)
    return None


def latest_doc_deactivated(obs):
    """DIDs whose LATEST version (Resolve with AllowDeactivated) is a deactivated DOCUMENT: no controller, no capabilityInvocation"""
    parts = obs.split(" || ")
    table = {}
    for t in parts[1:]:
        k, _, v = t.partition("=")
        table[k] = v
    out, cur = set(), None
    for seg in parts[0].split(" | "):
        if seg.startswith("DID "):
            cur = seg[4:]
        elif seg.startswith("ad:") and cur:
            m = FULL_DOC_RE.search(table.get(seg[3:], ""))
            if m and m.group(2) == "" and m.group(4) == "":
                out.add(cur)
    return out


def wellformed_nuts(doc):
    """the Nuts method rules of the property text, re-implemented on the parsed view (independent of model and code)"""
    seen = set()
    for vm in doc["vms"]:
        if not vm["frag"] or vm["pfx"] != doc["id"] or vm["id"] in seen or vm["key"] in ("", "!") or vm["key"] != vm["frag"]:
            return "verificationMethod " + vm["id"]
        seen.add(vm["id"])
    seen, types = set(), set()
    for sv in doc["services"]:
        if not sv["frag"] or sv["pfx"] != doc["id"] or sv["id"] in seen or sv["type"] in types:
            return "service " + sv["id"]
        seen.add(sv["id"])
        types.add(sv["type"])
    if not doc.get("hasDidCtx"):
        return "context"
    return None


def embedded_illformed(doc):
    """Nuts id/thumbprint rules applied to verification methods EMBEDDED in a relationship (not listed under verificationMethod)"""
    listed = {vm["id"] for vm in doc["vms"]}
    for rel in ("auth", "assertion", "keyAgr", "capInv", "capDel"):
        for vm in doc[rel]:
            if vm["id"] in listed:
                continue
            if not vm["frag"] or vm["pfx"] != doc["id"] or vm["key"] in ("", "!") or vm["key"] != vm["frag"]:
                return f"{rel} {vm['id']}"
    return None


def run(ctx):
    ctx.facts()
    thms = ctx.build_and_audit(["NutsProofs.Props.C09", "NutsProofs.Props.C09Entry", "NutsProofs.Props.C09Manager", "NutsProofs.Props.C09Commit", "NutsProofs.Props.C09Maintain"])
    for r in REQUIRED:
        if not any(t.endswith("Props." + r) for t in thms):
            ctx.oblige("thm-present:" + r, False, "theorem missing or its module does not build")
    ctx.level = "proof"
    ctx.notes.append("proof (Lean 4, unbounded) + differential correspondence of the model against the real ambassador/store on generated histories")
    ctx.trusted += [
        "modelled, not verified (contracts): go-did JSON (un)marshalling and the structural flags it yields (the harness passes the parsed view), "
        "RFC 7638 JWK thumbprints (collision-free: hypothesis `hinj` of the two *_signed_by_* theorems), JWS signature verification "
        "(a signature verifies only under the signer's key: model field `Tx.signer`), bbolt/go-stoabs atomic write transactions",
        "model scope: vdr/didnuts ambassador.go (callback, checkTransactionIntegrity, handleCreate/handleUpdate, resolveControllers, findKeyByThumbprint), "
        "validators.go (NetworkDocumentValidator and its three validators), resolver.go (Resolver.Resolve, resolve, resolveControllers), "
        "network/dag keys.go (SourceTXKeyResolver), verifier.go (signature verifier), go-did W3CSpecValidator on structural flags; store = C10 model",
    ]
    ctx.assumptions += [
        "authorisation is relative to the versions the transaction's prevs (or, by the coded fallback, its signing time) select: an update that "
        "names an older version in which a key was still listed / a controller was still active is authorised by design and merged as a conflict (C10)",
        "verification methods of stored documents are of type JsonWebKey2020 (generator domain); other key encodings are not modelled",
        "a transaction ref identifies the transaction and a payload hash identifies the document",
    ]

    binary = ctx.go_test_binary(PKG, HARNESS, "c09")
    if binary is None:
        ctx.oblige("harness-builds", False, ctx.harness_error[-1500:])
        return
    ctx.oblige("harness-builds", True)
    env = {}
    if ctx.replay:
        env["VERIF_REPLAY"] = os.path.abspath(ctx.replay)
    else:
        env["VERIF_CORPUS"] = os.path.join(os.path.dirname(os.path.dirname(os.path.abspath(__file__))), "harness", "corpus", "C09")
        env["VERIF_HISTORIES"] = 1400 if ctx.thorough else 220
    rc, log, out = ctx.run_harness(binary, "TestVerifC09", env, timeout=3000)
    if rc != 0:
        ctx.oblige("harness-runs", False, log[-1500:])
        return
    ctx.oblige("harness-runs", True)
    ops_p, impl_p, model_p = (os.path.join(out, x) for x in ("ops.jsonl", "impl.out", "model.out"))
    ok, err = ctx.model("C09", ops_p, model_p)
    ctx.oblige("model-driver-runs", ok, err[-500:])
    impl, model, bad = ctx.compare(impl_p, model_p)
    ops = ctx.read_lines(ops_p)

    def history_ops(i):
        """ops of the history that line i belongs to, up to and including line i; shrunk: deliveries that the
        implementation rejected (shown inert by the oracle below) are dropped, except the last one"""
        k = i
        while k > 0 and not ops[k].startswith('{"op":"hist"'):
            k -= 1
        keep = [ops[k]]
        if ops[i].startswith('{"op":"reprocess"'):
            return "\n".join(ops[k:i + 1]) + "\n"   # the rejected deliveries are what a reprocess is about
        if any('"delayed":true' in ops[j] for j in range(k + 1, i + 1)):
            return "\n".join(ops[k:i + 1]) + "\n"   # delayed-VDR schedule: positions matter, keep everything
        for j in range(k + 1, i + 1):
            rejected = j < len(impl) and re.match(r"pair \S+ (err|panic)\S* \[db-same\] =$", impl[j])
            if j == i or not rejected:
                keep.append(ops[j])
        return "\n".join(keep) + "\n"

    # ---- direct property oracles on the implementation's own outputs
    kinds, classes, labels = Counter(), Counter(), Counter()
    distinct = set()
    own_created = Counter()   # how the ambassador answered the creations the node published itself
    pending_obs, own_added_at = None, -10
    maintain = Counter()   # round 3: RemoveVerificationMethod / IsCommitted outcomes
    mgr_classes, published = Counter(), Counter()   # Manager.Update outcomes; how the ambassador answered what the node published
    entry_hits = Counter()  # executed failing store calls per fault kind
    entry = Counter()      # entry layer: (event type class, payload type class, fault) -> outcome kind
    n_pairs = n_ok = n_embedded_illformed = n_deactivated_controller = n_deactivated_after = n_dag = n_reprocess = n_reprocess_changed = 0
    dag_classes = Counter()
    scripted_outcomes = Counter()
    cur_refs = []
    created = set()        # DIDs with an accepted creation in the current history
    deactivations = {}     # tx ref -> DID that this accepted transaction deactivated (document without controller and capabilityInvocation)
    oracle = Counter()
    cur_obs = ""
    reported = {}
    hist_verified = True
    verified = True   # does the current history run the DAG signature verifier before the callback?

    def report(sig, what, i):
        if sig in reported:
            if reported[sig]:
                oracle[sig] += 1
            return
        # ctx.violation returns False when the signature is a listed open finding (printed as KNOWN-FINDING, not counted)
        reported[sig] = ctx.violation("C09:" + sig, what + f" (impl.out line {i})", sig + ".jsonl", history_ops(i))
        if reported[sig]:
            oracle[sig] += 1

    for i, line in enumerate(impl):
        if i >= len(ops) or not ops[i]:
            continue
        op = json.loads(ops[i])
        if op["op"] == "hist":
            cur_obs = line.split(" ", 2)[2] if line.count(" ") >= 2 else ""
            created, deactivations = set(), {}
            cur_refs = (op.get("probes") or {}).get("refs", [])
            labels[re.sub(r"\d+$", "N", op.get("label", "?")) + ("/callback-only" if op.get("noVerify") else "/verifier+callback")] += 1
            verified = hist_verified = not op.get("noVerify")
            continue
        if op["op"] == "reprocess":
            n_reprocess += 1
            mline = model[i] if i < len(model) else ""
            m = re.match(r"reprocess \S+ \[([^\]]*)\] (.*)$", line)
            if not m:
                report("unparseable-line", "harness output line not understood", i)
                continue
            if "PANICS" in m.group(1):
                report("reprocess-panics", "handleReprocessEvent panicked: " + m.group(1), i)
            if m.group(2) != "=":
                cur_obs = m.group(2)
                bad_vm = stored_vm_mismatch(cur_obs)
                if bad_vm:
                    report("reprocess-stored-verification-method-id-is-not-its-key-thumbprint",
                           "after REPROCESS a resolvable document holds a verification method whose id is not DID#thumbprint(its own key): " + bad_vm, i)
            if "db-changed" in m.group(1):
                n_reprocess_changed += 1
                if "db-same" in mline:
                    # reprocess = callback again: the model (callback replayed over the same transactions) changes nothing
                    report("reprocess-makes-a-rejected-document-resolvable",
                           "REPROCESS of the history's did+json transactions changed the DID store although replaying them through "
                           "callback changes nothing: a document that was rejected when received became resolvable", i)
            continue
        if op["op"] == "verify":
            n_dag += 1
            dag_classes[line.split(" ")[2] if line.count(" ") >= 2 else "?"] += 1
            if i < len(model) and line != model[i] and line.endswith(" admit"):
                report("dag-verifier-admits-what-the-model-refuses:" + re.sub(r"[^a-z:-]", "", model[i].split(" ")[-1]),
                       "the DAG signature verifier admitted a transaction that the model's verifier refuses with " + model[i].split(" ")[-1], i)
            continue
        if pending_obs is not None:
            cur_obs, pending_obs = pending_obs, None
        if op["op"] == "mgr":
            if " OBS " in line:
                # Manager.Update wrote its transaction to the store itself (own-add=ok): the observation after that write
                line, own_obs = line.split(" OBS ", 1)
                own_added_at = i
                maintain["own-add:ok"] += 1
                if own_obs != "=":
                    pending_obs = own_obs
                    bad_vm = stored_vm_mismatch(own_obs) or stored_service_type_twice(own_obs)
                    if bad_vm:
                        report("manager-stores-ill-formed-document", "after Manager.Update's own store.Add a resolvable document is ill-formed: " + bad_vm, i)
            elif " own-add=" in line:
                maintain["own-add:" + line.split(" own-add=", 1)[1][:40]] += 1
            # ---- the node's own publishing path (Manager.Update): direct oracles on what the implementation handed to the network
            mm = re.match(r"mgr \S+ (\S+)(?: kid=(\S+) prevs=\[([^\]]*)\])?(.*)$", line)
            if not mm:
                report("unparseable-line", "harness output line not understood", i)
                continue
            mcls, mkid, _mprevs, mrest = mm.groups()
            via = op.get("via", "") or "update"
            mgr_classes[mcls if via == "update" else via + ":" + mcls] += 1
            if "NONDETERMINISTIC" in mrest:
                report("manager-nondeterministic", "Manager.Update chose differently on the replay node: " + mrest.strip(), i)
            if mcls.startswith("panic") and via == "created" and "onCreate:VerificationMethod[0]" in mcls:
                pass   # the change log held a document without verification method: index expression in onCreate (modelled; not a C09 matter)
            elif mcls.startswith("panic") or "MISMATCH" in mcls:
                report("manager-" + re.sub(r"[^a-zA-Z:-]", "", mcls)[:60], "Manager (" + via + "): " + mcls, i)
            if via == "iscommitted":
                # ---- Manager.IsCommitted: committed <=> the latest stored version (deactivated or not) carries the hash of the raw document
                cm = re.search(r" committed=(true|false)", mrest)
                latest = obs_map(cur_obs).get(op["id"], {}).get("ad")
                if mcls == "ok" and cm and latest is not None:
                    hm = re.search(r" hash=(\S+)", latest) if latest.startswith("ok ") else None
                    same = bool(hm) and op.get("hash", "").startswith(hm.group(1))
                    maintain["iscommitted:" + cm.group(1) + ("" if latest.startswith("ok ") else ":unknown-did")] += 1
                    if (cm.group(1) == "true") != same:
                        report("is-committed-disagrees-with-the-store",
                               f"Manager.IsCommitted answered {cm.group(1)} for a change of {op['id']} with document hash {op.get('hash', '')[:10]}, "
                               f"the latest stored version is {('hash ' + hm.group(1)) if hm else 'absent'}", i)
                elif mcls == "ok" and cm:
                    maintain["iscommitted:" + cm.group(1) + ":did-never-observed"] += 1
                    if cm.group(1) == "true" and op["id"] not in cur_obs:
                        report("is-committed-for-a-did-the-store-does-not-know", f"Manager.IsCommitted answered true for {op['id']}, which no observation of the store shows", i)
                else:
                    maintain["iscommitted:" + mcls] += 1
                continue
            if via == "rmvm":
                # ---- Manager.RemoveVerificationMethod: what is published is the resolved version minus exactly that method, everywhere
                rm = op.get("rm", "")
                view = op.get("doc")
                listed = bool(view) and any(vm["id"] == rm for vm in view["vms"])
                maintain["rmvm:" + ("published" if mkid else "nothing" if mcls == "ok" else mcls) + (":listed" if listed else ":not-listed")] += 1
                if listed and mcls.startswith("err:mgr:validate") and wellformed_nuts(view) is None:
                    # removeVM_preserves_validity: taking a method out of a well-formed version cannot make the validator of Update refuse
                    # (the generator's service endpoints are plain URLs: the managed-service check has nothing to resolve)
                    report("remove-verification-method-refused-by-the-validator-on-a-well-formed-version",
                           f"Manager.RemoveVerificationMethod({rm}) failed with {mcls} although the resolved version of {op['id']} is well-formed: "
                           "the document it built is not that version minus the method", i)
                if mcls == "ok" and mkid is None:
                    if listed:
                        report("remove-verification-method-silently-keeps-the-method",
                               f"Manager.RemoveVerificationMethod answered nil without publishing although {rm} is a verification method of the latest version of {op['id']}", i)
                    continue
                if mcls == "ok":
                    sm = re.search(r" doc=vm\[([^\]]*)\]ci\[([^\]]*)\]", mrest)
                    pub_vm = [x for x in sm.group(1).split(",") if x] if sm else None
                    pub_ci = [x for x in sm.group(2).split(",") if x] if sm else None
                    if not listed:
                        report("remove-verification-method-publishes-without-a-change",
                               f"Manager.RemoveVerificationMethod published an update of {op['id']} although {rm} is not one of its verification methods", i)
                    elif pub_vm is None or rm in pub_vm or rm in pub_ci:
                        report("removed-verification-method-still-published",
                               f"Manager.RemoveVerificationMethod({rm}) published a document that still lists the method (verificationMethod {pub_vm}, capabilityInvocation {pub_ci})", i)
                    elif pub_vm != [vm["id"] for vm in view["vms"] if vm["id"] != rm] or pub_ci != [vm["id"] for vm in view["capInv"] if vm["id"] != rm]:
                        report("remove-verification-method-removes-something-else",
                               f"Manager.RemoveVerificationMethod({rm}) published verificationMethod {pub_vm} / capabilityInvocation {pub_ci}: not the resolved version minus that method", i)
                    # the generic oracles below judge the PUBLISHED document: the view minus the method (filtered here, by id)
                    op = dict(op)
                    op["doc"] = dict(view, **{k: [vm for vm in view[k] if vm["id"] != rm] for k in ("vms", "auth", "assertion", "keyAgr", "capInv", "capDel")})
            if via == "bogus" and mcls == "ok":
                report("commit-publishes-for-an-unknown-change-type", "Manager.Commit handed a transaction to the network for a change type it does not know", i)
            if via == "updated" and mcls == "ok" and mkid is None:
                # onUpdate answered nil and published nothing: only a deactivated DOCUMENT may be skipped silently
                if op["id"] not in latest_doc_deactivated(cur_obs):
                    report("onUpdate-silently-drops-an-update", "Manager.onUpdate answered nil without publishing although the latest version of " + op["id"] + " is not deactivated", i)
                continue
            if via in ("created", "new") and mcls == "ok":
                # ---- creation template: kid and attached key are those of the document's FIRST verification method, no prevs
                km = re.search(r" key=(\S+)", mrest)
                akey = km.group(1) if km else ""
                vms = (op.get("doc") or {}).get("vms", [])
                if not vms or akey != vms[0]["key"] or mkid != vms[0]["id"] or _mprevs != "":
                    report("creation-template-not-from-the-first-verification-method",
                           f"Manager.onCreate published kid={mkid} attached key={akey} prevs=[{_mprevs}] for a document whose first method is "
                           + (vms[0]["id"] + " with key " + vms[0]["key"] if vms else "missing"), i)
                if via == "new":
                    nm = re.search(r" new=(\S+)", mrest)
                    did_ = "did:nuts:" + op.get("b58", "?")
                    vmid = did_ + "#" + op.get("key", "?")
                    want = f"{did_}|{vmid}|1,1,1,1,1|ctrl=0|svc=0|sub={vmid}"
                    if not nm or nm.group(1) != want:
                        report("new-document-not-named-by-the-key-thumbprint",
                               "Manager.NewDocument / didSubKIDNamingFunc: " + (nm.group(1) if nm else "?") + " but the key's own RFC 7638 thumbprint gives " + want, i)
                    if akey != op.get("key"):
                        report("new-document-attaches-another-key", f"the creation of {did_} attaches {akey}, the key store generated {op.get('key')}", i)
                continue
            if mcls == "ok":
                if mkid not in op.get("has", []):
                    report("manager-signs-with-a-key-the-node-does-not-hold", f"Manager.Update published with kid {mkid}, which the key store does not have", i)
                docs = stored_docs(cur_obs)
                mine = docs.get(op["id"], [])
                frag = mkid.split("#", 1)[1] if "#" in mkid else mkid
                listed = any(frag in keys for ctrl, keys in mine if not ctrl or op["id"] in ctrl) or \
                    any(frag in keys for ctrl, _ in mine for cdid in ctrl if cdid != op["id"] for _, keys in docs.get(cdid, []))
                if not listed:
                    report("manager-signs-with-a-key-no-controller-lists",
                           f"Manager.Update published an update of {op['id']} signed with {mkid}, which no stored version of the DID (self-controlled) "
                           "or of a controller lists for capabilityInvocation", i)
                if op["id"] in (latest_doc_deactivated(cur_obs) if via == "updated" else latest_deactivated(cur_obs)):
                    report("manager-updates-a-deactivated-did", "Manager.Update published an update of a DID whose latest version is deactivated", i)
                wf = wellformed_nuts(op["doc"]) if op.get("doc") else "unparseable"
                if wf:
                    report("manager-publishes-ill-formed-document", "Manager.Update published a document violating the Nuts method rules at " + wf, i)
            continue
        if op["op"] != "pair":
            continue
        if op["raw"]["kind"] == "mgr:published":
            published[line.split(" ")[2] if line.count(" ") >= 2 else "?"] += 1
        if op["raw"]["kind"] in ("mgr:new-created", "mgr:created"):
            own_created[op["raw"]["kind"] + " -> " + (line.split(" ")[2] if line.count(" ") >= 2 else "?")] += 1
            if op["raw"]["kind"] == "mgr:new-created" and line.count(" ") >= 2 and line.split(" ")[2] != "ok":
                # Lean: newDocument_accepted - the only refusal left is the store's
                report("own-creation-refused-by-the-ambassador",
                       "the DID document made by Manager.NewDocument and published by Commit(created) was not accepted by the receiving ambassador: " + line.split(" ")[2], i)
        if "cb" in op:   # per-delivery flag (false is omitted by the harness); older replay files: history-level mode
            verified = bool(op.get("verified", False))
        else:
            verified = hist_verified
        m = re.match(r"pair (\S+) (\S+) \[([^\]]*)\] (.*)$", line)
        if not m:
            report("unparseable-line", "harness output line not understood", i)
            continue
        _, cls, flags, shown = m.groups()
        n_pairs += 1
        kind = op["raw"]["kind"]
        kinds[re.sub(r"(chain|cycle)\d+", r"\1N", kind)] += 1
        classes[cls] += 1
        if re.match(r"(da|rs|ud|dv|dc|ks|ho|rk):", kind):
            scripted_outcomes[kind + " -> " + cls.split("+")[0]] += 1
        distinct.add((kind.split(":")[0], cls, bool(op["tx"].get("embedded")), len(op["tx"]["prevs"]) > 1))
        prev_obs = cur_obs
        if own_added_at == i - 1 and op["raw"]["kind"] == "mgr:published":
            # own_update_redelivery_inert: the transaction the manager wrote itself comes back through the network as a duplicate
            maintain["own-add:redelivery:" + cls.split(":")[0] + ":" + ("db-changed" if "db-changed" in flags else "db-same")] += 1
            if "db-changed" in flags or shown != "=":
                report("own-update-redelivery-changes-the-store",
                       "Manager.Update wrote its transaction to the store itself; the delivery of the same transaction through the ambassador "
                       f"({cls}) changed the store again", i)
        if shown != "=":
            cur_obs = shown
            bad_vm = stored_vm_mismatch(shown)
            if bad_vm:
                report("stored-verification-method-id-is-not-its-key-thumbprint",
                       "a resolvable document holds a verification method whose id is not DID#thumbprint(its own key): " + bad_vm, i)
            twice = stored_service_type_twice(shown)
            if twice:
                report("stored-document-has-two-services-of-one-type",
                       "a resolvable document version holds two services with the same type string: " + twice, i)
        if "NOTIFY-MISMATCH" in flags:
            report("notify-mismatch", "network notified of a DID update although the document was rejected (or not notified although accepted)", i)
        if "SIG-NOT-BY-KID-KEY" in flags:
            report("accepted-update-whose-signature-does-not-verify-under-the-kid-key",
                   "update accepted (DAG verifier passed earlier) although the JWS does not verify under the key the kid names", i)
        if "NONDETERMINISTIC" in flags:
            report("nondeterministic-outcome", "the same pair on the same history gave a different outcome on a second store: " + flags, i)
        # ---- entry layer: what the subscription of ambassador.Start may hand to the callback, and how a failing store is answered
        ev = op.get("ev")
        if cls.startswith("retry:") and not (ev and "db" in ev.get("fault", "") and "FAULT-HIT" in flags):
            # store_fault_classification: without a database error at the store NO answer is a bare (retried) error
            report("refused-document-is-retried-instead-of-dropped",
                   f"handleNetworkEvent answered a refusal ({cls}) with a bare error: the notifier would retry it, although no database error occurred", i)
        if ev:
            passes = ev["type"] == "payload" and ev["ptype"] == "application/did+json"
            entry[("payload-event" if ev["type"] == "payload" else "other-event:" + ev["type"],
                   "did+json" if ev["ptype"] == "application/did+json" else "other-type:" + ev["ptype"],
                   ev.get("fault", "").split(":")[0]) + (cls.split(":")[0],)] += 1
            if not passes and cls != "filtered":
                report("event-outside-the-did-document-subscription-reached-the-ambassador",
                       f"a DAG event of type {ev['type']!r} with payload type {ev['ptype']!r} was handed to handleNetworkEvent (outcome {cls})", i)
            if passes and cls == "filtered":
                report("did-document-payload-event-was-filtered", "a payload event of a did+json transaction never reached the ambassador", i)
            fault = ev.get("fault", "")
            if "FAULT-HIT" in flags:
                entry_hits[fault.split(":")[0]] += 1
            if "FAULT-HIT" in flags and cls == "ok" and fault.startswith("lookup"):
                report("accepted-although-a-named-version-could-not-be-looked-up",
                       "an update was accepted although didStore.Resolve failed for a version that one of the transaction's prevs names: "
                       "that version is missing from the 'authorised under every version it succeeds' check (fault " + fault + ")", i)
            elif "FAULT-HIT" in flags and cls == "ok":
                report("accepted-although-the-store-failed", "handleNetworkEvent reported success although didStore.Add failed", i)
            if "FAULT-HIT" in flags and fault.startswith("lookup-db") and not cls.startswith("retry:"):
                report("database-error-at-a-version-lookup-is-not-retried",
                       f"didStore.Resolve failed with a database error in handleUpdateDIDDocument and the answer was {cls}, not a bare (retried) error", i)
            if fault.startswith("lookup") and "FAULT-HIT" not in flags and i < len(model) and "FAULT-HIT" in model[i] \
                    and model[i].split(" ")[2:3] == [cls]:
                report("failing-version-lookup-was-not-executed",
                       "the model executes the failing lookup of a named version, the implementation did not make that call", i)
            if fault == "db" and cls.startswith("err:store:fault"):
                report("database-error-answered-as-fatal",
                       "didStore.Add failed with a database error and handleNetworkEvent answered dag.EventFatal: the document is never retried (lost)", i)
            if fault.endswith("other") and cls.startswith("retry:"):
                report("non-database-error-is-retried", "didStore.Add failed with a non-database error and the answer was a bare (retried) error", i)
        if cls != "ok":
            # rejected => inert: database byte-identical, every Resolve / key resolver answer unchanged
            if "db-same" not in flags:
                report("rejected-document-changed-database", f"delivery rejected with {cls} but the database content changed", i)
            if shown != "=":
                report("rejected-document-changed-resolution", f"delivery rejected with {cls} but Resolve / key resolver answers changed", i)
            continue
        n_ok += 1
        doc = op.get("doc")
        if doc is None:
            report("accepted-unparseable-document", "accepted a payload that does not unmarshal", i)
            continue
        wf = wellformed_nuts(doc)
        if wf:
            report("accepted-ill-formed-document", "accepted a document violating the Nuts method rules at " + wf, i)
        emb = embedded_illformed(doc)
        if emb:
            n_embedded_illformed += 1
            report("accepted-embedded-method-violating-nuts-rules", "accepted a document whose embedded verification method breaks the "
                   "Nuts id/thumbprint rules: " + emb, i)
        tx = op["tx"]
        if not doc["controllers"] and not doc["capInv"]:
            deactivations[tx["ref"]] = doc["id"]
        if tx.get("embedded"):
            created.add(doc["id"])
        elif doc["id"] not in created:
            # a DID becomes resolvable only through an accepted creation (a transaction embedding the key it is derived from)
            report("accepted-update-of-never-created-did",
                   "an update transaction was accepted for a DID for which no creation has been accepted: " + doc["id"], i)
        if tx.get("embedded"):
            if tx["embeddedDid"] != doc["idID"]:
                report("accepted-creation-with-foreign-key", "creation accepted although the DID's id-string is not EXACTLY the thumbprint of the embedded key "
                       f"(DID id {doc['idID']!r}, key thumbprint {tx['embeddedDid']!r})", i)
            if verified and tx["embedded"] != tx["signer"]:
                report("accepted-creation-not-signed-by-embedded-key", "creation accepted although another key signed", i)
        elif verified:
            # the signing key must be listed for capabilityInvocation in some stored version of the DID itself or of a
            # DID that some version of it names as controller (state BEFORE the delivery)
            # ... by a CONTROLLER: an own version counts only if it controls itself (no controller entries, or lists itself)
            docs = stored_docs(prev_obs)
            mine = docs.get(doc["id"], [])
            okk = any(tx["signer"] in keys for ctrl, keys in mine if not ctrl or doc["id"] in ctrl)
            if not okk:
                for ctrl, _ in mine:
                    for cdid in ctrl:
                        if cdid != doc["id"] and any(tx["signer"] in keys for _, keys in docs.get(cdid, [])):
                            okk = True
            # clause "keys of deactivated controllers": every DID that lists the signing key for this update is a foreign
            # controller whose latest version is deactivated at the time of the delivery
            sources = set()
            if any(tx["signer"] in keys for ctrl, keys in mine if not ctrl or doc["id"] in ctrl):
                sources.add(doc["id"])
            for ctrl, _ in mine:
                for cdid in ctrl:
                    if cdid != doc["id"] and any(tx["signer"] in keys for _, keys in docs.get(cdid, [])):
                        sources.add(cdid)
            if sources and doc["id"] not in sources and sources <= latest_deactivated(prev_obs) and \
                    any(deactivations.get(p) in sources for p in tx["prevs"]):
                # causally AFTER the deactivation: the transaction's own prevs name the controller's deactivation transaction
                n_deactivated_after += 1
                report("accepted-update-by-key-of-deactivated-controller-after-its-deactivation",
                       "update accepted although the controller listing the signing key is deactivated AND the transaction's prevs name "
                       "that deactivation transaction (kid resolved through another document, controllers through the signing-time fallback): "
                       + ",".join(sorted(sources)), i)
            elif sources and doc["id"] not in sources and sources <= latest_deactivated(prev_obs):
                n_deactivated_controller += 1
                report("accepted-update-by-key-of-deactivated-controller",
                       "update accepted although every controller that lists the signing key is deactivated at the time of the delivery "
                       "(the transaction's prevs name the controller's pre-deactivation transaction): " + ",".join(sorted(sources)), i)
            bad_version = strict_update_check(prev_obs, cur_refs, doc["id"], tx)
            if bad_version:
                report("accepted-update-not-authorised-under-a-version-its-prevs-name",
                       "update accepted although the signing key is not listed for capabilityInvocation by (a controller pinned by the "
                       "prevs of) " + bad_version + ", which the transaction's prevs name", i)
            if not okk:
                report("accepted-update-by-unlisted-key", "update accepted although the signing key is not listed for capabilityInvocation by a controller: "
                       "neither by a self-controlling stored version of the DID (no controller entries / lists itself) nor by a stored "
                       "version of a DID it names as controller", i)
    ctx.oblige("oracle:rejected-is-inert,accepted-is-authorised-and-well-formed(impl)", not oracle, json.dumps(dict(oracle)))

    # ---- correspondence model vs implementation
    # a delivery that the implementation ACCEPTS while the model (whose acceptance is proved to imply the authorisation
    # predicate and well-formedness) REJECTS it, all earlier lines of the history agreeing, is a concrete failing input
    if bad:
        agree = True   # all outcome classes of the current history agreed so far
        for i in range(min(len(impl), len(model))):
            if impl[i].startswith("hist "):
                agree = True
                continue
            if not impl[i].startswith("pair ") or not agree:
                continue
            ip, mp = impl[i].split(" "), model[i].split(" ")
            ic, mc = ip[2], (mp[2] if len(mp) > 2 else "?")
            if ic != mc:
                agree = False
                if ic == "ok":
                    report("implementation-accepts-what-the-model-rejects:" + re.sub(r"[^a-z:-]", "", mc),
                           f"the implementation accepted a (transaction, document) pair that the model rejects with {mc}", i)
    if oracle:
        ctx.oblige("oracle:accepted-only-if-model-accepts(impl)", False, json.dumps(dict(oracle)))
    if bad:
        i = bad[0]
        detail = f"first differing line {i}\nimpl : {impl[i][:1200] if i < len(impl) else None}\nmodel: {model[i][:1200] if i < len(model) else None}"
        ctx.oblige("correspondence:model=impl", False, f"{len(bad)} of {len(impl)} lines differ; " + detail[:700])
        if not oracle:
            with open(os.path.join(ctx.replay_dir(), "correspondence.jsonl"), "w") as f:
                f.write(history_ops(min(i, len(ops) - 1)))
            ctx.unproved(["correspondence C09 (model.out != impl.out)"], detail + f"\nreplay ops: {ctx.replay_dir()}/correspondence.jsonl")
    else:
        ctx.oblige("correspondence:model=impl", True, f"{len(impl)} lines equal")

    ctx.cov["evaluations"] = n_pairs
    ctx.cov["distinct_nontrivial"] = len(distinct)
    ctx.cov["traces_validated_against_impl"] = len(impl) - len(bad)
    ctx.cov["rule"] = ("histories of 6-20 (transaction, document) pairs with really signed transactions: scripted openings (controller chains of depth 0-6, "
                       "cycles of 1-5, deactivated controller, removed key, every validator rule violated once) followed by random steps (creations, "
                       "foreign-key creations, legitimate updates/forks/deactivations, updates by non-controllers / removed keys / deactivated controllers, "
                       "odd kids, integrity faults, re-deliveries, re-creations); each history is generated adaptively on one real node and replayed on a "
                       "second one, half of the histories through the DAG signature verifier and half straight into ambassador.callback; after every "
                       "delivery: outcome class, raw bbolt content digest, Resolve(nil / allowDeactivated / every time / every source tx / every payload "
                       "hash), didnuts.Resolver verdicts, ConflictedCount, DocumentCount, Conflicted(), key resolver answer per (kid, source tx). "
                       "distinct_nontrivial = distinct (generator kind, outcome class, create/update, several prevs)")
    ctx.cov["input_distribution"] = {"histories": sum(labels.values()), "history_kinds": dict(sorted(labels.items())),
                                     "pair_kinds": dict(sorted(kinds.items())), "outcome_classes": dict(sorted(classes.items())),
                                     "accepted": n_ok, "rejected": n_pairs - n_ok,
                                     "entry_layer_events(event type, payload type, store fault, outcome)": {" | ".join(k): v for k, v in sorted(entry.items())},
                                     "executed_failing_store_calls": dict(sorted(entry_hits.items())),
                                     "manager_update_outcomes": dict(sorted(mgr_classes.items())),
                                     "maintenance_calls(RemoveVerificationMethod, IsCommitted)": dict(sorted(maintain.items())),
                                     "ambassador_verdict_on_published_updates": dict(sorted(published.items())),
                                     "ambassador_verdict_on_own_creations": dict(sorted(own_created.items())),
                                     "reprocess_runs": n_reprocess, "reprocess_runs_that_changed_the_store": n_reprocess_changed,
                                     "delayed_vdr_dag_verdicts": dict(sorted(dag_classes.items())),
                                     "scripted_step_outcomes": dict(sorted(scripted_outcomes.items())),
                                     "accepted_update_by_deactivated_controller_after_its_deactivation(known finding)": n_deactivated_after,
                                     "accepted_with_ill_formed_embedded_method(known finding)": n_embedded_illformed,
                                     "accepted_update_by_key_of_deactivated_controller(known finding)": n_deactivated_controller}
    ctx.cov["samples"] = [impl[1][:300] if len(impl) > 1 else "", impl[2][:300] if len(impl) > 2 else ""]
