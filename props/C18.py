"""C18 — DID resolution binds the document to the identifier and to the right origin.
Lean: NutsProofs.Props.C18 over NutsModel.C18.{Url,DidWeb,Resolve,Policy} + regenerated facts.
Correspondence: in-package harnesses on the real vdr/didweb (DIDToURL, URLToDID, Resolve through the real strict
http client, fake transport and real local TLS/HTTP servers) and on the real vdr.Module (router, local-first chain,
deactivation, did:jwk / did:key)."""
import base64, ipaddress, json, os, re
from collections import Counter
from urllib.parse import unquote_to_bytes, quote_from_bytes

PKG = "vdr/didweb"
HARNESS = ["vdr/didweb/zz_verif_c18_test.go"]
HARNESSES = [("vdr/didweb", ["vdr/didweb/zz_verif_c18_test.go"], "c18"),
             ("vdr", ["vdr/zz_verif_c18_test.go", "vdr/zz_verif_c18jwk_test.go"], "c18vdr"),
             ("http/client", ["http/client/zz_verif_c18hc_test.go"], "c18hc"),
             ("vdr/didx509", ["vdr/didx509/zz_verif_c18x_test.go"], "c18x")]

SET14 = b"~!$&'()*+,;=:@"


def decode14(b):
    """percentDecodeString as the property describes it: only the 14 reserved characters are decoded"""
    out, i = bytearray(), 0
    while i < len(b):
        if b[i] == 0x25 and i + 2 < len(b):
            try:
                v = int(b[i + 1:i + 3].decode("latin1"), 16) if re.fullmatch(rb"[0-9a-fA-F]{2}", b[i + 1:i + 3]) else None
            except ValueError:
                v = None
            if v is not None and v in SET14:
                out.append(v)
                i += 3
                continue
        out.append(b[i])
        i += 1
    return bytes(out)


def expected_origin(idb):
    """host and request path that the identifier encodes (independent of the model and of the implementation)"""
    parts = idb.split(b":")
    host = unquote_to_bytes(parts[0])
    if host.endswith(b":"):
        host = host[:-1]            # an empty port is dropped by net/http
    if len(parts) == 1:
        path = b"/.well-known/did.json"
    else:
        path = unquote_to_bytes(decode14(b"/" + b"/".join(parts[1:]))) + b"/did.json"
    return host, quote_from_bytes(path, safe="-_.~$&+,/:;=@").encode()


def hostname_of(host):
    if host.startswith(b"["):
        i = host.rfind(b"]")
        return host[1:i] if i > 0 else host
    i = host.rfind(b":")
    if i >= 0 and host[i + 1:].isdigit() or (i >= 0 and host[i + 1:] == b""):
        return host[:i]
    return host


def is_ip_literal(h):
    try:
        ipaddress.ip_address(h.decode("latin1"))
        return True
    except ValueError:
        return False


def parse_res(line):
    m = re.fullmatch(r"res reqs=\[(.*)\] out=(.*)", line)
    if not m:
        return None, line
    reqs = []
    for r in filter(None, m.group(1).split(",")):
        sch, host, path, user, q = r.split("|")
        reqs.append((sch, bytes.fromhex(host), bytes.fromhex(path), user == "true", bytes.fromhex(q)))
    return reqs, m.group(2)


def hc_oracle(op, line, opl, violation, outcomes, feats, distinct):
    """stateful response cache (deepening round): the invariants proved of the model (rcache_invariant, rcache_hit_sound,
    rcache_hit_not_expired), evaluated on the REAL cache's dumped state after every step"""
    if not line.startswith("hc ") or line == "hc skipped-after-hang":
        return
    outs = line[3:].split(";")
    ents, nid, linked = {}, 0, False
    distinct.add(("hc", json.dumps(op["steps"]), op["max"]))
    feats[f"hc-steps={min(len(op['steps']), 12)}"] += 1
    for st, o in zip(op["steps"], outs):
        head, _, dump = o.partition(" ")
        outcomes["hc " + re.sub(r"\d+", "", head)] += 1
        k, now = st["k"], st.get("now", 0)
        if head.endswith(":hang"):
            violation("cache-call-does-not-return", f"cache of {op['max']} bytes: {k} {st.get('us', '')} (body of {st.get('sz') or (st.get('ans') or {}).get('sz')} bytes) did not return: the make-room loop of insert spins with the cache's mutex held", opl)
        if not dump:
            break      # hang / bad step: the case ends here
        rq = st.get("u", {}).get("query", "")
        if k in ("ins", "lnk"):
            ents[nid] = (st.get("us"), st.get("m"), rq, st.get("sz", 0), st.get("exp", 0), k)
            nid += 1
            linked = linked or k == "lnk"
        elif k == "rt" and head.startswith("rt:net") and st.get("m") == "GET" and (st.get("ans") or {}).get("ca") is not None:
            ents[nid] = (st.get("us"), "GET", rq, st["ans"]["sz"], min(st["ans"]["ca"], now + 60000), "rt")   # maxCacheTime = 1 h
            nid += 1
        size_s, lst_s, map_s = dump.split("/")
        size = int(size_s)
        lst = [(int(x.split("@")[0]), int(x.split("@")[1])) for x in lst_s.split(".") if x]
        mp = [int(x.split(":")[0]) for x in map_s.split(".") if x]
        what = f"cache of {op['max']} bytes after step {k} {st.get('us', '')}: {o}"
        unk = (None, None, None, 0, 0, "?")
        mh = re.match(r"(get|rt):hit(-?\d+)", head)
        if mh:
            e = ents.get(int(mh.group(2)))
            if e is None or (e[0], e[1], e[2]) != (st.get("us"), st.get("m"), rq):
                violation("cache-hit-for-other-request", f"the cache answered {st.get('m')} {st.get('us')} with the entry stored for {e and e[:3]}; " + what, opl)
            elif e[4] < now:
                violation("cache-expired-entry-served", f"the entry expired at {e[4]} (1/1000 min), the lookup was at {now}; " + what, opl)
            if k == "rt" and st.get("m") != "GET":
                violation("cache-served-non-get", what, opl)
        if head == "rt:net:true" and (st.get("m") != "GET" or (st.get("ans") or {}).get("ca") is None):
            violation("cache-stored-uncacheable-response", what, opl)
        if any(i not in ents for i in mp) or size != sum(ents[i][3] for i in mp if i in ents):
            violation("cache-size-accounting", "currentSizeBytes differs from the bytes held in entriesByURL; " + what, opl)
        if mp and size > op["max"] and not linked:
            violation("cache-over-capacity", "the cache holds more bytes than its limit; " + what, opl)
        if sorted(i for i, _ in lst) != sorted(mp):
            violation("cache-index-and-expiry-list-differ", "an entry is indexed but cannot be reached by expiry / eviction (or the reverse); " + what, opl)
        exps = [ents.get(i, unk)[4] for i, _ in lst]
        if any(a > b for a, b in zip(exps, exps[1:])):
            violation("cache-expiry-list-unordered", what, opl)
        if (k == "get" or (k == "rt" and st.get("m") == "GET")) and any(x < now for x in exps):
            violation("cache-expired-entry-kept-after-prune", "an entry of the expiry list that has expired survived the prune of a lookup; " + what, opl)
        if any(ents.get(i, unk)[5] == "rt" and mins > 60 for i, mins in lst):
            violation("cache-ttl-above-cap", "a response is kept longer than maxCacheTime; " + what, opl)


X5_ALGS = ("sha1", "sha256", "sha384", "sha512")
X5_TABLE = {("san", "otherName"): "other", ("san", "dns"): "dns", ("san", "email"): "email", ("san", "ip"): "ip",
            ("subject", "serialNumber"): "serial", ("subject", "CN"): "cn", ("subject", "L"): "L", ("subject", "C"): "C",
            ("subject", "ST"): "ST", ("subject", "STREET"): "STREET", ("subject", "O"): "O", ("subject", "OU"): "OU"}


def x5_token(s):
    """(cert, alg) named by a hash token H<k><alg>, else None"""
    if len(s) > 2 and s[0] == "H" and s[1].isdigit() and s[2:] in X5_ALGS:
        return int(s[1]), s[2:]
    return None


def x5_policies_hold(idtext, cert):
    """independent reading of the property: every '::name:key:value[:key:value]' element of the identifier names an attribute
    of the certificate (python's own split / unquote, not the model's)"""
    from urllib.parse import unquote_plus
    for pol in idtext.split("::")[1:]:
        parts = pol.split(":")
        if len(parts) < 3 or len(parts) % 2 == 0:
            return False, f"policy {pol!r} is not name:key:value pairs"
        for i in range(1, len(parts), 2):
            field = X5_TABLE.get((parts[0], parts[i]))
            if field is None:
                return False, f"policy {pol!r}: unknown attribute"
            if "%" in parts[i + 1] and re.search(r"%(?![0-9a-fA-F]{2})", parts[i + 1]):
                return False, f"policy {pol!r}: broken escape"
            want = unquote_plus(parts[i + 1])
            have = cert.get(field, [] if field not in ("serial", "cn") else "")
            if (want != have) if isinstance(have, str) else (want not in have):
                return False, f"certificate has {field}={have!r}, identifier demands {want!r}"
    return True, ""


def x5_oracle(op, line, opl, violation, outcomes, feats, distinct):
    kind = op["op"]
    out = line.split(" ", 1)[1] if " " in line else line
    outcomes[kind + " " + ":".join(out.split(":")[:2])[:40]] += 1
    idtext = bytes.fromhex(op.get("id", "")).decode("latin1")
    if out.startswith("panic:") and not (kind == "x5r" and op.get("chain") == "nil" and out == "panic:nil-metadata"):
        violation("panic:" + kind, f"{kind} panicked: {line[:200]}", opl)
        return
    if not out.startswith("ok"):
        return
    distinct.add((kind, op.get("id"), json.dumps(op.get("ids")), op.get("x5t"), op.get("x5s"), op.get("x5tk"), op.get("x5sk"), op.get("chain"), op.get("cert")))
    head = idtext.split("::")[0].split(":")
    if kind in ("x5p", "x5r", "x5v") and (len(head) != 3 or head[0] != "0"):
        violation("x509-identifier-shape-accepted", f"did:x509 identifier {idtext!r} accepted although it is not 0:<alg>:<root hash>[::policy…]", opl)
    if kind == "x5p":
        # the reference that was read is the identifier, piece for piece
        m = re.match(r"ok m=([0-9a-f]*) r=([0-9a-f]*) p=\[(.*)\]$", out)
        if m:
            pols = [tuple(bytes.fromhex(x).decode("latin1") for x in q.split(":")) for q in m.group(3).split(",") if q]
            back = "0:" + bytes.fromhex(m.group(1)).decode("latin1") + ":" + bytes.fromhex(m.group(2)).decode("latin1") + "".join("::" + n + ":" + v for n, v in pols)
            if back != idtext:
                violation("x509-reference-not-the-identifier", f"parsed reference re-assembles to {back!r}, identifier was {idtext!r}", opl)
        return
    certs = op.get("certs") or []
    if kind == "x5v":
        ok, why = x5_policies_hold(idtext, certs[0] if certs else {})
        if not ok:
            violation("x509-policy-not-satisfied", f"validatePolicy accepted {idtext!r}: {why}", opl)
        return
    ids = op.get("ids") or []

    def named(k, key, alg):
        """certificate named by thumbprint header, None if header absent / not a string, -1 if it names nothing in the chain"""
        if op.get(key + "k") != "str":
            return None
        t = x5_token(op.get(key, ""))
        return t[0] if t and t[1] == alg and t[0] in ids else -1
    n1, n2 = named(0, "x5t", "sha1"), named(0, "x5s", "sha256")
    if kind == "x5f":
        got = out.split(":")[1]
        for n in (n1, n2):
            if n is not None and str(n) != got:
                violation("x509-thumbprint-not-matched", f"validation certificate {got} chosen although a thumbprint header names {n} (-1: nothing in the chain)", opl)
        if n1 is None and n2 is None:
            violation("x509-thumbprint-not-matched", "validation certificate chosen without any thumbprint header", opl)
        return
    # x5r: a document was returned
    feats["x509-resolved"] += 1
    if out != "ok:same":
        violation("document-id-differs", f"did:x509 document id / controller differs from {idtext!r}: {out[:80]}", opl)
    if op.get("chain") != "ids":
        violation("x509-resolved-without-chain", f"did:x509 resolved although the x5c header is {op.get('chain')!r}", opl)
        return
    rt = x5_token(head[2])
    if rt is None or rt[1] != head[1].lower() or rt[0] not in ids:
        violation("x509-root-not-in-chain", f"resolved although the root reference {head[2]!r} ({head[1]}) is the hash of no certificate of the chain {ids}", opl)
    if (n1 is None and n2 is None) or -1 in (n1, n2) or (n1 is not None and n2 is not None and n1 != n2):
        violation("x509-thumbprint-not-matched", f"resolved although the thumbprint headers name x5t={n1} x5t#S256={n2} (None absent, -1 nothing in the chain)", opl)
        return
    v = n1 if n1 is not None else n2
    ok, why = x5_policies_hold(idtext, certs[v] if v < len(certs) else {})
    if not ok:
        violation("x509-policy-not-satisfied", f"resolved {idtext!r} against certificate {v}: {why}", opl)
    if not op.get("crl"):
        violation("x509-revoked-chain-resolved", "resolved although the CRL check of the chain failed", opl)


EC_CURVES = {
    "P-256": (2**256 - 2**224 + 2**192 + 2**96 - 1, 0x5ac635d8aa3a93e7b3ebbd55769886bc651d06b0cc53b0f63bce3c3e27d2604b),
    "P-384": (2**384 - 2**128 - 2**96 + 2**32 - 1, 0xb3312fa7e23ee7e4988e056be3f82d19181d9c6efe8141120314088f5013875ac656398d8a2ed19d2a85c8edd3ec2aef),
    "P-521": (2**521 - 1, 0x051953eb9618e1c9a1f929a21a0b68540eea2da725b99b315f3b8b489918ef109e156193951ec7e937b1652c0bd3bb1bf073573df883d2c34f1ef451fd46b503f00),
}
B64STD = set(b"ABCDEFGHIJKLMNOPQRSTUVWXYZabcdefghijklmnopqrstuvwxyz0123456789+/")


def b64u_int(v):
    if not isinstance(v, str) or v == "":
        return None
    try:
        return int.from_bytes(base64.urlsafe_b64decode(v + "=" * (-len(v) % 4)), "big")
    except Exception:
        return None


def jwk_oracle(op, line, opl, rp, violation, outcomes, feats, distinct, digests):
    """did:jwk on the resolver itself (deepening round 3): what `did_jwk_accept_sound` proves of the model, evaluated on the
    implementation's own answer with the identifier decoded HERE (own alphabet check, Python's base64 / json, own curve equation)"""
    m = re.fullmatch(r"jwk (\S+) dec=(\S*)", line)
    if not m:
        return
    cls = m.group(1)
    meth, idb = bytes.fromhex(op.get("m", "")), bytes.fromhex(op.get("id", ""))
    tag = (op.get("tag") or "::").split(":")
    outcomes["jwk " + cls.split(":")[0]] += 1
    feats["jwk-shape=" + (tag[1] if len(tag) > 1 else "?")] += 1
    feats["jwk-key=" + (tag[2] if len(tag) > 2 else "?")] += 1
    distinct.add(("jwk", op.get("m"), op.get("id")))
    if cls.startswith("other:"):
        violation("did-jwk-unclassified-refusal", f"did:jwk refusal that is none of the resolver's documented ones: {cls[:120]}", rp)
    if cls != "ok":
        return
    shown = (b"did:" + meth + b":" + idb)[:90]
    if meth != b"jwk":
        violation("did-jwk-resolver-accepted-other-method", f"didjwk resolved {shown!r}", rp)
    body = idb.replace(b"\r", b"").replace(b"\n", b"")
    if any(c not in B64STD for c in body) or len(body) % 4 == 1:
        violation("did-jwk-accepted-not-base64", f"{shown!r} resolved although its method-specific part is not unpadded standard base64 (pure function of the identifier: one encoding)", rp)
        return
    raw = base64.b64decode(body + b"=" * (-len(body) % 4))
    try:
        # the FIRST JSON value of the text (the jwx parser reads one value from a stream and ignores what follows it)
        j, _ = json.JSONDecoder().raw_decode(raw.decode("utf-8", "replace").lstrip(" \t\r\n"))
    except Exception:
        j = None
    if not isinstance(j, dict) or not isinstance(j.get("kty"), str):
        violation("did-jwk-accepted-not-a-jwk", f"{shown!r} resolved although it decodes to {raw[:60]!r}, which is not a JWK", rp)
        return
    if j["kty"] in ("EC", "OKP", "RSA") and "d" in j:
        violation("did-jwk-accepted-with-private-key", f"{shown!r} resolved although the JWK it encodes carries the private member 'd'", rp)
    if j["kty"] == "EC":
        cv = EC_CURVES.get(j.get("crv"))
        x, y = b64u_int(j.get("x")), b64u_int(j.get("y"))
        if cv is None or x is None or y is None or not (x < cv[0] and y < cv[0]) or (y * y - (x * x * x - 3 * x + cv[1])) % cv[0] != 0:
            violation("did-jwk-accepted-invalid-curve-point", f"{shown!r} resolved although (x, y) of its JWK is not a point of {j.get('crv')}", rp)
    if op.get("keybound") is False:
        violation("key-not-bound-to-identifier:jwk", f"the document returned for {shown!r} does not carry the id / key the identifier encodes", rp)
    if op.get("again") != "same":
        violation("not-a-function-of-the-identifier", f"two resolver instances gave different documents for {shown!r}", rp)
    prev = digests.setdefault(b"did:" + meth + b":" + idb, op.get("digest"))
    if prev != op.get("digest"):
        violation("not-a-function-of-the-identifier", f"two resolutions of {shown!r} gave different documents", rp)


def chain_oracle(op, line, opl, rp, violation, outcomes, feats, distinct):
    """ChainedDIDResolver / DIDResolverRouter with scripted members (deepening round 3): the first member that answers
    anything but NotFound decides and nothing after it is asked; the router hands a DID only to the resolver registered
    (last) under exactly its method"""
    kind = op["op"]
    if kind == "chain":
        m = re.fullmatch(r"chain (\S+) asked=(\S+) isdeact=(\S+)", line)
        if not m:
            return
        outs = op.get("outs") or []
        distinct.add(("chain", tuple(outs)))
        k = next((i for i, o in enumerate(outs) if o not in ("nf", "nfw")), None)
        feats[f"chain-len={len(outs)}"] += 1
        feats[f"chain-answer-at={k}"] += 1
        outcomes["chain " + m.group(1).split(":")[0] + (":" + m.group(1).split(":")[1] if m.group(1).startswith("fail") else "")] += 1
        want_asked = str(len(outs) if k is None else k + 1)
        want = "nf" if k is None else ("ok:%d" % k if outs[k] == "ok" else "fail:" + {"deactw": "deact"}.get(outs[k], outs[k]))
        if m.group(2) != want_asked:
            violation("chain-member-asked-after-the-answer" if k is not None and (not m.group(2).isdigit() or int(m.group(2)) > k + 1) else "chain-member-skipped",
                      f"chain of members answering {outs}: {m.group(2)} member(s) asked, the first answer is at position {k}", rp)
        if m.group(1) != want:
            sig = "chain-result-is-not-the-first-answer"
            if k is not None and outs[k] in ("deact", "deactw", "noctl") and m.group(1).startswith("ok"):
                sig = "deactivated-resolved"
            violation(sig, f"chain of members answering {outs} returned {m.group(1)}, the first answer is {want}", rp)
        if (m.group(3) == "true") != (want in ("fail:deact", "fail:noctl")) and m.group(1) == want:
            violation("deactivated-error-class", f"errors.Is(err, ErrDeactivated) = {m.group(3)} for result {want}", rp)
        return
    m = re.fullmatch(r"router (\S+)(?: asked=\[(.*)\])?", line)
    if not m:
        return
    regs = op.get("regs") or []
    distinct.add(("router", op.get("m", ""), json.dumps(regs)))
    same = [i for i, g in enumerate(regs) if g["m"] == op.get("m", "")]
    outcomes["router " + m.group(1).split(":")[0]] += 1
    feats[f"router-registrations-of-method={min(len(same), 3)}"] += 1
    asked = [int(x) for x in (m.group(2) or "").split(",") if x]
    meth = bytes.fromhex(op.get("m", ""))
    if any(regs[i]["m"] != op.get("m", "") for i in asked if i < len(regs)):
        violation("router-resolver-of-other-method", f"DID of method {meth!r} was handed to the resolver registered for {[bytes.fromhex(regs[i]['m']) for i in asked]}", rp)
    elif (asked != same[-1:]):
        violation("router-registration-not-honoured", f"method {meth!r}: registrations {same} (last wins), resolvers asked {asked}", rp)


def rtime_oracle(op, line, opl, rp, violation, outcomes, feats, distinct):
    """resolution at a point in time (deepening round 3): the newest version that existed at the resolve time decides —
    computed here from the op's version list, independent of model and implementation"""
    vers, at, allow = op.get("vers") or [], op.get("at"), bool(op.get("allow"))
    didb = b"did:web:" + bytes.fromhex(op.get("id", ""))
    distinct.add(("rtime", op.get("id"), json.dumps(vers), at, allow))
    elig = [(i, v) for i, v in enumerate(vers) if at is None or v["t"] <= at]
    newest = elig[-1][1] if elig else None
    feats["rtime-" + ("no-resolve-time" if at is None else "nothing-yet" if newest is None else "historic" if elig[-1][0] < len(vers) - 1 else "latest")] += 1
    outcomes["rtime " + ":".join(line[6:].split(":")[:2] if line.startswith("rtime err") else ["ok"])] += 1
    if line.startswith("rtime ok:"):
        _, idhex, upd, deact = line[6:].split(":")
        if bytes.fromhex(idhex) != didb:
            violation("document-id-differs", f"returned document id {bytes.fromhex(idhex)!r} for {didb!r}", rp)
        if newest is None:
            violation("resolve-time-version-from-the-future", f"{didb!r} resolved at {at} although its first version is stamped {min(v['t'] for v in vers) if vers else None}", rp)
        elif not newest["a"] and not allow:
            violation("deactivated-resolved", f"deactivated {didb!r} (versions {vers}, resolve time {at}) resolved without AllowDeactivated", rp)
        elif int(upd) != newest["t"] or (deact == "true") != (not newest["a"]):
            violation("resolve-time-wrong-version", f"{didb!r} versions {vers} at {at}: answered with the version stamped {upd} (deactivated={deact}), the newest at that time is {newest}", rp)
    elif line == "rtime err:not-found" and newest is not None:
        violation("managed-did-not-found", f"{didb!r} versions {vers} at {at}: not found", rp)
    elif line == "rtime err:deactivated" and (newest is None or newest["a"] or allow):
        violation("active-did-refused-as-deactivated", f"{didb!r} versions {vers} at {at} allow={allow}: refused as deactivated", rp)


def run(ctx):
    ctx.facts()
    thms = ctx.build_and_audit(["NutsProofs.Props.C18"])
    required = ["did_url_roundtrip", "fetch_origin_bound", "redirects_stay_on_origin", "strict_client_https_only",
                "redirect_witness", "id_bound_web", "id_bound", "jwk_key_pure", "local_first_no_network",
                "deactivated_needs_flag", "local_store_fault_no_network", "fact_local_resolver_errors", "fact_local_time_bound", "fact_cache_index", "fact_cache_flow", "rcache_invariant", "rcache_hit_sound", "rcache_hit_same_url", "rcache_round_trip_adds_only_this_cacheable_get", "fact_did_key_table", "did_key_accept_sound", "multicodec_prefix_roundtrip", "rcache_hit_not_expired", "old_cache_defect_witness", "fact_local_lookup_query", "local_lookup_exact", "local_lookup_ignores_other_dids", "local_sql_refines", "local_resolution_independent_of_other_dids", "x509_reference_is_the_identifier", "x509_split_join", "x509_policies_all_enforced", "x509_validation_cert_named_by_every_thumbprint", "x509_accept_sound", "x509_nil_metadata_panics", "fact_x509_tables", "fact_did_jwk_flow", "fact_local_resolve_time", "local_lookup_newest_at_time", "local_lookup_not_found_iff", "deactivated_from_then_on", "fact_chain_router_flow", "chain_first_answer_wins", "chain_stops_at_first_answer", "router_exact_method", "router_last_registration_wins", "resolve_web_is_chain", "did_jwk_accept_sound", "b64_decode_encode", "did_jwk_of_encoded_text", "cache_key_injective", "cache_no_foreign_entry", "fact_sets", "fact_content_types", "fact_redirect_policy", "fact_router",
                "fact_deactivation", "fact_resolve_checks_document_id", "fact_strict_do"]
    for r in required:
        if not any(t.endswith("Props." + r) for t in thms):
            ctx.oblige("thm-present:" + r, False, "theorem missing or its module does not build")
    ctx.trusted += [
        "modelled, not verified (written-down models tied by correspondence): Go net/url (Parse, parseAuthority, parseHost, unescape, escape, EscapedPath, "
        "ResolveReference on dot-free absolute references), net/netip.ParseAddr accept/reject, net/http Client redirect loop, go-did ParseDID regular expression, "
        "UTF-8 decoding of Go's range loop",
        "library verdicts taken as data: mime.ParseMediaType, JSON (un)marshalling of DID documents, base64/jwk/base58/multicodec decoding for did:jwk and did:key, gorm/SQLite",
        "model scope: vdr/didweb/util.go (all), web.go Resolve, http/client StrictHTTPClient.Do + redirect policy, vdr/resolver DIDResolverRouter + ChainedDIDResolver, "
        "vdr/didsubject Resolver (found/absent/deactivated), vdr.go registration order",
    ]
    ctx.assumptions += [
        "DNS: a host name that net.ParseIP rejects is a name, not an address (numeric shapes such as 127.1 or 0x7f.0.0.1 are resolver-dependent: open question, not claimed)",
        "TLS authenticates the host named in the URL (SafeHttpTransport, system roots)",
        "identifiers reach DIDToURL through did.ParseDID (identifier alphabet [A-Za-z0-9._:-] and %HH); hand-built did.DID structs are exercised but not claimed",
    ]
    corpus = os.path.join(os.path.dirname(os.path.dirname(os.path.abspath(__file__))), "harness", "corpus", "C18")

    all_impl, all_model, all_ops, total_bad = [], [], [], 0
    for pkg, files, name in HARNESSES:
        vroot = os.path.dirname(os.path.dirname(os.path.abspath(__file__)))
        if not all(os.path.exists(os.path.join(vroot, "harness", "inpkg", f)) for f in files):
            ctx.oblige("harness-present:" + name, False, "harness file missing")
            continue
        binary = ctx.go_test_binary(pkg, files, name)
        if binary is None:
            ctx.oblige("harness-builds:" + name, False, ctx.harness_error[-1500:])
            continue
        ctx.oblige("harness-builds:" + name, True)
        env = {}
        if ctx.replay:
            env["VERIF_REPLAY"] = os.path.abspath(ctx.replay)
            first = open(ctx.replay).readline()
            is_vdr = '"op":"node"' in first or '"op": "node"' in first
            is_hc = '"op":"hc"' in first or '"op": "hc"' in first
            is_x = '"op":"x5' in first or '"op": "x5' in first
            if name != ("c18vdr" if is_vdr else "c18hc" if is_hc else "c18x" if is_x else "c18"):
                continue
        else:
            env["VERIF_CORPUS"] = os.path.join(corpus, name)
        out_dir = os.path.join(ctx.scratch, "out_" + name)
        rc, log, out = ctx.run_harness(binary, "TestVerifC18", env, outdir=out_dir, timeout=3000)
        if rc != 0:
            ctx.oblige("harness-runs:" + name, False, log[-1500:])
            continue
        ctx.oblige("harness-runs:" + name, True)
        ops_p, impl_p, model_p = (os.path.join(out, x) for x in ("ops.jsonl", "impl.out", "model.out"))
        ok, err = ctx.model("C18", ops_p, model_p)
        ctx.oblige("model-driver-runs:" + name, ok, err[-500:])
        impl, model, bad = ctx.compare(impl_p, model_p)
        ops = ctx.read_lines(ops_p)
        if bad:
            i = bad[0]
            detail = (f"[{name}] first differing line {i}\nop   : {ops[i][:1200] if i < len(ops) else None}\n"
                      f"impl : {impl[i][:1200] if i < len(impl) else None}\nmodel: {model[i][:1200] if i < len(model) else None}")
            ctx.oblige("correspondence:model=impl:" + name, False, f"{len(bad)} of {len(impl)} lines differ; " + detail[:900])
            ctx.corr_fail = getattr(ctx, "corr_fail", []) + [(name, ops[i] if i < len(ops) else "", detail)]
        else:
            ctx.oblige("correspondence:model=impl:" + name, True, f"{len(impl)} lines equal")
        total_bad += len(bad)
        all_impl += impl
        all_model += model
        all_ops += ops[:len(impl)]

    # ---------- direct property oracle on the implementation's own outputs
    tags, outcomes, feats = Counter(), Counter(), Counter()
    distinct = set()
    viol = 0

    best = {}   # signature -> (rank, what, replay text): one report per signature, smallest / real-socket case preferred

    def violation(sig, what, opline):
        nonlocal viol
        viol += 1
        rank = (0 if '"via":"sock"' in opline else 1, len(opline))
        if sig not in best or rank < best[sig][0]:
            best[sig] = (rank, what, opline)

    node_line = None
    digests = {}
    for opl, line in zip(all_ops, all_impl):
        if not opl:
            continue
        op = json.loads(opl)
        kind = op["op"]
        tags[op.get("tag", kind)] += 1
        if kind == "node":
            node_line = opl
            continue
        key = (kind, op.get("m"), op.get("id"), op.get("s"), json.dumps(op.get("resps")), op.get("strict"), op.get("allow"), node_line if kind == "resolve" else None)
        if kind.startswith("x5"):
            x5_oracle(op, line, opl, violation, outcomes, feats, distinct)
            continue
        if line.startswith("panic:") or " panic:" in line:
            violation("panic:" + kind, f"{kind} panicked: {line[:200]}", opl)
            continue
        if kind == "rt":
            outcomes[line.split(":")[0]] += 1
            if not line.startswith("rt err"):
                distinct.add(key)
            if op.get("wf") and line != "rt same":
                violation("roundtrip:" + line.split(":")[0].replace(" ", "-"),
                          f"identifier of the round-trip grammar does not round-trip: did:{bytes.fromhex(op['m']).decode('latin1')}:{bytes.fromhex(op['id']).decode('latin1')} -> {line}", opl)
        elif kind == "res":
            reqs, out = parse_res(line)
            if reqs is None:
                continue
            idb = bytes.fromhex(op.get("id", ""))
            outcomes["res " + out.split(":")[0] + (":" + out.split(":")[1] if out.startswith("err") else "")] += 1
            if reqs:
                distinct.add(key)
            feats[f"requests={min(len(reqs), 4)}{'+' if len(reqs) > 4 else ''}"] += 1
            if op.get("via") == "sock":
                feats["real-sockets"] += 1
            if bytes.fromhex(op.get("m", "")) != b"web":
                if reqs:
                    violation("fetch-for-non-web-method", "outbound request for a DID that is not did:web", opl)
                continue
            host, path = expected_origin(idb)
            if reqs and is_ip_literal(hostname_of(host)):
                violation("ip-literal-fetched", f"did:web with IP literal host {host!r} caused an outbound request", opl)
            for k, (sch, h, p, user, q) in enumerate(reqs):
                if k == 0:
                    if sch != "https" or h != host or p != path or user or q:
                        violation("first-request-off-origin", f"first request {sch}://{h!r}{p!r} user={user} query={q!r}, identifier encodes https://{host!r}{path!r}", opl)
                        break
                elif sch != "https":
                    violation("redirect-followed:to-non-https", f"redirect followed to {sch}://{h.decode('latin1')}{p.decode('latin1')} (strict={op.get('strict', False)}) while resolving did:web:{idb.decode('latin1')}", opl)
                    break
                elif h != reqs[0][1]:   # a redirect may change path / user-info on the SAME origin, never the origin
                    violation("redirect-followed:to-other-host", f"redirect followed to another origin https://{h.decode('latin1')} while resolving did:web:{idb.decode('latin1')}", opl)
                    break
            if out.startswith("ok:") and reqs:
                last = (op.get("resps") or [{}])[min(len(reqs), len(op.get("resps") or [1])) - 1]
                if not 200 <= last.get("st", 0) < 300:
                    violation("document-accepted-from-non-2xx", f"document accepted from a response with status {last.get('st')}", opl)
                if last.get("mt") is None or bytes.fromhex(last["mt"]) not in (b"application/did+ld+json", b"application/did+json", b"application/json"):
                    violation("document-accepted-with-other-content-type", f"document accepted with Content-Type {bytes.fromhex(last.get('ct', ''))!r}", opl)
            if out.startswith("ok:") and bytes.fromhex(out[3:]) != b"did:web:" + idb:
                violation("document-id-differs", f"returned document id {bytes.fromhex(out[3:])!r} for did:web:{idb!r}", opl)
        elif kind == "cache":
            m = re.fullmatch(r"cache inner=\[(.*)\] out=(.*)", line)
            if not m:
                continue
            inner = [bytes.fromhex(x) for x in m.group(1).split(",") if x]
            outs = [o for o in m.group(2).split(";") if o]
            idb = bytes.fromhex(op.get("id", ""))
            distinct.add(key + (json.dumps(op.get("pre")), op.get("cacheable")))
            outcomes["cache " + ("ok" if outs and outs[0].startswith("ok") else "err") + f" pre={len(op.get('pre') or [])}"] += 1
            host, path = expected_origin(idb)
            want = b"https://" + host + path
            if any(o.startswith("ok") for o in outs):
                if want not in inner:
                    violation("document-from-foreign-cache-entry", f"did:web:{idb.decode('latin1')} resolved although {want!r} was never requested over the network: the bytes came from a cache entry of {[x.decode('latin1') for x in inner]}", opl)
                for o in outs:
                    if o.startswith("ok:") and bytes.fromhex(o[3:]) != b"did:web:" + idb:
                        violation("document-id-differs", f"returned document id {bytes.fromhex(o[3:])!r} for did:web:{idb!r}", opl)
        elif kind == "hc":
            hc_oracle(op, line, opl, violation, outcomes, feats, distinct)
        elif kind in ("chain", "router"):
            chain_oracle(op, line, opl, (node_line or '{"op":"node"}') + "\n" + opl, violation, outcomes, feats, distinct)
        elif kind == "rtime":
            rtime_oracle(op, line, opl, (node_line or '{"op":"node"}') + "\n" + opl, violation, outcomes, feats, distinct)
        elif kind == "jwk":
            jwk_oracle(op, line, opl, (node_line or '{"op":"node"}') + "\n" + opl, violation, outcomes, feats, distinct, digests)
        elif kind == "resolve":
            m = re.fullmatch(r"resolve reqs=(\d+) out=(.*)", line)
            if not m:
                continue
            n, out = int(m.group(1)), m.group(2)
            distinct.add(key)
            outcomes["resolve " + ":".join(out.split(":")[:(4 if out.startswith("err:invalid-key") else 2)] if out.startswith("err") else out.split(":")[:1])] += 1
            meth = bytes.fromhex(op.get("m", ""))
            didb = b"did:" + meth + b":" + bytes.fromhex(op.get("id", ""))
            if meth == b"x509" and n:
                violation("network-for-x509", f"{n} outbound request(s) while resolving {didb!r}", node_line + "\n" + opl)
            if meth in (b"jwk", b"key") and out.startswith("ok"):
                if op.get("keybound") is False:
                    violation("key-not-bound-to-identifier:" + meth.decode(), f"the document returned for {didb[:60]!r} does not carry the key the identifier encodes", node_line + "\n" + opl)
                prev = digests.setdefault(didb, op.get("digest"))
                if prev != op.get("digest"):
                    violation("not-a-function-of-the-identifier", f"two resolutions of {didb[:60]!r} (different nodes / times) gave different documents", node_line + "\n" + opl)
            if meth == b"key" and out.startswith("ok") and op.get("mc") is not None:
                mcb = bytes.fromhex(op["mc"])
                code, sh, used = 0, 0, 0
                for used, b in enumerate(mcb[:10], 1):      # unsigned LEB128, read independently of model and implementation
                    code |= (b & 0x7f) << sh
                    sh += 7
                    if b < 0x80:
                        break
                klen = len(mcb) - used
                want = {0xec: 32, 0xed: 32, 0x1200: 33, 0x1201: 49, 0x1202: None, 0x1205: None}
                if not bytes.fromhex(op.get("id", "")).startswith(b"z"):
                    violation("did-key-accepted-without-multibase-prefix", f"{didb[:80]!r} resolved although the identifier does not start with the base58btc prefix 'z'", node_line + "\n" + opl)
                elif code not in want:
                    violation("did-key-accepted-with-unsupported-codec", f"{didb[:80]!r} resolved although its multicodec 0x{code:x} is not a supported public key type", node_line + "\n" + opl)
                elif want[code] is not None and klen != want[code]:
                    violation("did-key-accepted-with-wrong-key-length", f"{didb[:80]!r} resolved: codec 0x{code:x} with a key of {klen} bytes (must be {want[code]})", node_line + "\n" + opl)
                elif code == 0x1205 and op.get("rsa") != "ok":
                    violation("did-key-accepted-weak-or-broken-rsa", f"{didb[:60]!r} resolved although the PKCS#1 verdict on its key is {op.get('rsa')!r}", node_line + "\n" + opl)
                elif code in (0x1200, 0x1201, 0x1202) and not op.get("ecok"):
                    violation("did-key-accepted-invalid-curve-point", f"{didb[:80]!r} resolved although its key bytes are not a point of the curve", node_line + "\n" + opl)
            if meth in (b"jwk", b"key") and n:
                violation("network-for-" + meth.decode(), f"{n} outbound request(s) while resolving {didb!r}", node_line + "\n" + opl)
            if op.get("fault") and meth == b"web" and (n or out.startswith("ok")):
                violation("network-after-storage-fault", f"local store failed while resolving {didb!r} (managed: {op.get('local')}), yet {n} outbound request(s) were made / result {out[:40]}", node_line + "\n" + opl)
            elif op.get("local") in ("active", "deactivated") and n:
                violation("network-for-local-did", f"{n} outbound request(s) while resolving locally managed {didb!r}", node_line + "\n" + opl)
            if meth == b"web" and op.get("local") == "absent" and not op.get("fault") and out.startswith("ok") and n == 0:
                violation("unmanaged-did-answered-locally", f"{didb!r} is not managed by this node (case variants in its store: {[bytes.fromhex(x['did']).decode('latin1') for x in op.get('sib') or []]}) but was answered without a request to its origin: {out[:80]}", node_line + "\n" + opl)
            if op.get("local") == "deactivated" and not op.get("allow") and out.startswith("ok"):
                violation("deactivated-resolved", f"deactivated {didb!r} resolved without AllowDeactivated", node_line + "\n" + opl)
            if out.startswith("ok:"):
                got = bytes.fromhex(out.split(":")[1])
                if got != didb:
                    violation("document-id-differs", f"returned document id {got!r} for {didb!r}", node_line + "\n" + opl)
            if op.get("again") and op["again"] != out:
                violation("not-a-function-of-the-identifier", f"two resolutions of {didb!r} differ", node_line + "\n" + opl)
        else:
            if kind in ("d2u", "u2d", "pd", "up", "wf", "ip"):
                outcomes[kind + " " + (line.split()[1] if len(line.split()) > 1 else "")[:16]] += 1
            if kind in ("d2u", "u2d") and " ok" in line[:8]:
                distinct.add(key)
    for sig, (_, what, opline) in sorted(best.items()):
        ctx.violation("C18:" + sig, what, sig.replace(":", "-") + ".jsonl", opline)
    ctx.oblige("oracle:origin/id/roundtrip/local-first/deactivation(impl)", viol == 0, f"{viol} violating cases, signatures: {sorted(best)}")

    if getattr(ctx, "corr_fail", None) and viol == 0:
        name, opline, detail = ctx.corr_fail[0]
        with open(os.path.join(ctx.replay_dir(), "correspondence.jsonl"), "w") as f:
            f.write(opline + "\n")
        ctx.unproved(["correspondence C18 (model.out != impl.out)"], detail + f"\nreplay ops: {ctx.replay_dir()}/correspondence.jsonl")

    ctx.cov["evaluations"] = len(all_impl)
    ctx.cov["distinct_nontrivial"] = len(distinct)
    ctx.cov["traces_validated_against_impl"] = len(all_impl) - total_bad
    ctx.cov["rule"] = ("grammar-based did:web identifiers (domain / port / 0-3 segments; hostile hosts: IPv4 and IPv6 shapes, brackets, zones, user-info, "
                       "'/', '?', '#', '%', control and non-ASCII bytes, empty / dot / did.json segments, upper- and lower-case escapes, doubly-encoded characters, "
                       "hand-built did.DID structs) through the real DIDToURL, URLToDID, ParseDID, percentEncode/DecodeString, url.Parse, net.ParseIP; "
                       "Resolve through the real StrictHTTPClient with scripted servers (redirect chains to other hosts / http / IP literals, statuses, content types, "
                       "document ids, oversize and broken bodies, transport errors; real local TLS+HTTP servers for the 'sock' family); the real vdr.Module for "
                       "router / local-first / deactivation / did:jwk / did:key. distinct_nontrivial = distinct inputs that got past the syntactic rejections")

    ctx.cov["input_distribution"] = {"by_generator_family": dict(tags.most_common(24)), "outcomes": dict(outcomes.most_common(80)), "features": dict(feats)}
    ctx.cov["samples"] = [all_ops[40][:300] if len(all_ops) > 40 else "", all_impl[40][:300] if len(all_impl) > 40 else ""]
