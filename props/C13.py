"""C13 — subject operations change all DIDs of a subject together or not at all.
Lean: NutsProofs.Props.C13 over NutsModel.C13.Subject + regenerated facts.
Correspondence: external-test-package harness in vdr/didsubject on the real SqlManager (SQLite), the real didweb and
didnuts managers (real didstore, fake network client), every cut point of generated operation sequences."""
import json, os, re
from collections import Counter

PKG = "vdr/didsubject"
HARNESS = ["vdr/didsubject/zz_verif_c13_test.go", "vdr/didsubject/zz_verif_c13_export.go"]
WPKG = "vdr"
WHARNESS = ["vdr/zz_verif_c13w_test.go"]
HARNESSES = [(PKG, HARNESS, "c13"), (WPKG, WHARNESS, "c13w")]

DID_RE = re.compile(r"\[(\w+):d(\d+) v=([\d,]*) top=(\S*) res=(\S+) pub=(\S+)\]")


def parse_line(line):
    """observation line -> (result, log, keys, {subject: {"dids": [(method,label,versions,top,res,pub)], "err": str|None}})"""
    parts = line.split(" || ")
    head = parts[0].split()
    result = head[0]
    log = int(head[1].split("=")[1]) if len(head) > 1 else 0
    keys = int(head[2].split("=")[1]) if len(head) > 2 else 0
    subjects = {}
    for p in parts[1:]:
        name, _, rest = p.partition(" ")
        dids = [(m.group(1), int(m.group(2)), [int(x) for x in m.group(3).split(",") if x], m.group(4), m.group(5), m.group(6))
                for m in DID_RE.finditer(rest)]
        err = rest.split()[0] if rest.startswith("err:") else None
        svc = {}
        m = re.search(r"svc=(\S*)", rest)
        if m and m.group(1):
            for item in m.group(1).split(";"):
                lbl, _, owners = item.partition(":")
                svc[lbl] = owners
        subjects[name] = {"dids": dids, "err": err, "svc": svc}
    lst = head[3].split("=", 1)[1] if len(head) > 3 and head[3].startswith("list=") else "ok"
    return result, log, keys, subjects, lst


def key_labels(obs):
    out = set()
    for s in obs[3].values():
        for d in s["dids"]:
            for part in (d[3], d[5]):
                out.update(re.findall(r"k\d+", part))
    return out


def run(ctx):
    facts = ctx.facts()
    thms = ctx.build_and_audit(["NutsProofs.Props.C13", "NutsProofs.Props.C13Req", "NutsProofs.Props.C13Ctx"])
    required = ["fact_sweep_threshold", "fact_transaction_helper_shape", "fact_rollback_deletes_created_did",
                "fact_nuts_not_found_is_uncommitted", "fact_web_commit_cannot_fail", "fact_version_is_latest_plus_one",
                "fact_sweep_handles_whole_transaction", "fact_deactivation_renders_as_published", "fact_rollback_loop_wiring", "fact_method_manager_wiring",
                "fact_latest_is_highest_version", "fact_create_checks_subject_inside_transaction", "fact_change_records_saved_inside_first_transaction", "fact_create_or_update_always_inserts", "fact_create_stores_final_subject", "old_iscommitted_blocks_sweep", "old_rollback_blocks_retry", "old_sweep_splits_transaction"]
    required += REQUIRED_DEEP
    for r in required:
        if not any(t.endswith("Props." + r) for t in thms):
            ctx.oblige("thm-present:" + r, False, "theorem missing or its module does not build")
    ctx.trusted += [
        "modelled, not verified: gorm/SQLite (transactions atomic, foreign keys cascade), go-did JSON, key store, SHA-256 of the rendered document (model: equality of contents), "
        "the didstore's resolution of the latest published document, uuid/key freshness (model: counter)",
        "model scope: didsubject/manager.go (Create, CreateService, UpdateService, DeleteService, AddVerificationMethod, Deactivate, transactionHelper, "
        "applyToDIDDocuments, deleteUncommittedChange, Rollback, ListDIDs, FindServices), did_document.go (CreateOrUpdate, Latest), did.go (FindBySubject), "
        "resolver.go, didweb/manager.go (Commit, IsCommitted), didnuts/manager.go (Commit: onCreate/onUpdate/onDeactivate incl. duplicate-service validation, IsCommitted)",
        "harness: the did:nuts manager is the REAL didnuts.Manager with the real didstore and didnuts.Resolver; only the network client is a fake that hands the payload to the didstore "
        "(what the ambassador does); the did:web manager is the real one; faults come from a decorator around both",
    ]
    ctx.assumptions += [
        "no operation stays in flight (between its first transaction and its clean-up transaction) across a sweep that already considers it old, i.e. longer than the sweep threshold (60 s): "
        "Rollback would delete the versions and the late Commit would still publish them (witness kept in Props/C13.lean as the last example, not claimed)",
        "after a process stop no new operation is started on a subject while change records of that subject remain (the sweep runs first): otherwise the new version is built on the "
        "uncommitted one (witness: the example before the last in Props/C13.lean, not claimed; the correspondence harness still compares model and code on such 'busy' schedules)",
        "updates are not issued to a deactivated subject (didnuts onUpdate silently skips publishing: 'should not occur'); one DID per method per subject "
        "(Create is the only operation that adds DIDs; migrations are out of scope)",
        "the sweep only runs when vdr.Start starts it, i.e. when did:nuts is enabled (a did:web-only node keeps the change records of a stopped operation; its documents are served from SQL, so nothing diverges)",
        "SQL transactions are atomic and serialised; deleting a did / version row cascades as declared in 003_did.sql",
    ]

    wiring_leg(ctx)
    binary = ctx.go_test_binary(PKG, HARNESS, "c13")
    if binary is None:
        ctx.oblige("harness-builds", False, ctx.harness_error[-1500:])
        return
    ctx.oblige("harness-builds", True)
    if not ctx.replay:
        concurrent_leg(ctx, binary)
    env = {}
    if ctx.replay:
        env["VERIF_REPLAY"] = os.path.abspath(ctx.replay)
    else:
        env["VERIF_CORPUS"] = os.path.join(os.path.dirname(os.path.dirname(os.path.abspath(__file__))), "harness", "corpus", "C13")
        env["VERIF_SEQS"] = 90 if ctx.thorough else 6
    rc, log, out = ctx.run_harness(binary, "TestVerifC13", env, timeout=3000)
    if rc != 0:
        ctx.oblige("harness-runs", False, log[-1500:])
        return
    ctx.oblige("harness-runs", True)
    ops_p, impl_p, model_p = (os.path.join(out, x) for x in ("ops.jsonl", "impl.out", "model.out"))
    ok, err = ctx.model("C13", ops_p, model_p)
    ctx.oblige("model-driver-runs", ok, err[-500:])
    impl, model, bad = ctx.compare(impl_p, model_p)
    ops = [json.loads(l) for l in ctx.read_lines(ops_p) if l.strip()]

    # ---- split into worlds
    worlds = []
    for i, op in enumerate(ops):
        if op["op"] == "cfg":
            worlds.append({"start": i, "ops": [], "tag": op.get("tag", ""), "methods": op.get("methods", [])})
        if worlds:
            worlds[-1]["ops"].append(op)
    for w in worlds:
        w["obs"] = [parse_line(impl[w["start"] + k]) if w["start"] + k < len(impl) else None for k in range(len(w["ops"]))]
    plain = {}
    for w in worlds:
        t = w["tag"].split(":")
        if t[0] == "plain":
            plain[":".join(t[1:])] = w

    # ---- direct property oracle on the implementation's own outputs
    findings = []   # (signature, what, world)
    stats = Counter()
    distinct = set()

    def report(sig, what, w):
        findings.append((sig, what, w))

    for w in worlds:
        tag = w["tag"].split(":")
        kind = tag[0]
        stats["world:" + kind] += 1
        stats["methods:" + "+".join(w["methods"])] += 1
        obs = w["obs"]
        if any(o is None for o in obs):
            continue
        distinct.add(json.dumps([{k: v for k, v in op.items() if k not in ("order", "tag")} for op in w["ops"]], sort_keys=True))
        for k, (op, o) in enumerate(zip(w["ops"], obs)):
            if op["op"] == "do":
                stats["op:" + op["kind"]] += 1
                stats["fault:" + op.get("fault", "none") + (str(op.get("k", 0)) if op.get("fault") in ("stop", "logerr", "logstop") else "")] += 1
                if op.get("kind") == "createleg" and op.get("order"):
                    stats["legacy-create:commit-order-" + "-".join(op["order"])] += 1
                stats["result:" + o[0].split(":")[0] + (":" + o[0].split(":")[1] if ":" in o[0] else "")] += 1
            # O1 all DIDs of a subject move together; O7 one DID per method
            for sname, s in o[3].items():
                if s["dids"]:
                    vs = {tuple(d[2]) for d in s["dids"]}
                    svc = {d[3].split(";")[1] if ";" in d[3] else d[3] for d in s["dids"]}
                    if len(vs) > 1 or len(svc) > 1:
                        report("C13:dids-of-subject-not-uniform", f"subject {sname} event {k}: versions {sorted(vs)} services {sorted(svc)}", w)
                    ms = [d[0] for d in s["dids"]]
                    if len(ms) != len(set(ms)):
                        report("C13:two-dids-of-one-method", f"subject {sname} event {k}", w)
                    # O2 consecutive versions (schedules where the sweep runs before the next operation on the subject)
                    if kind in ("plain", "quiet", "now", "mid", "req", "tx2", "ctx", "names"):
                        for d in s["dids"]:
                            if d[2] != list(range(len(d[2]))):
                                report("C13:versions-not-consecutive", f"subject {sname} event {k}: {d[2]}", w)
        # O8 (clause G, "a subject name maps to at most one set of DIDs" read from the other side): no DID is listed under two
        # subject names; O9 (clause A/B): an operation on one subject changes no DID of any other subject
        for k, (op, o) in enumerate(zip(w["ops"], obs)):
            owner = {}
            for sname, s in o[3].items():
                for d in s["dids"]:
                    if d[1] in owner and owner[d[1]] != sname:
                        report("C13:did-listed-under-two-subjects", f"event {k}: {d[0]}:d{d[1]} is listed under subject {owner[d[1]]!r} and under {sname!r}", w)
                    owner[d[1]] = sname
            if op["op"] == "do" and k > 0 and op.get("fault") != "sweepat" and not o[0].startswith("panic:") and o[0] != "hang":
                for sname, s in o[3].items():
                    if sname == op.get("subj") or sname not in obs[k - 1][3] or "s:" + sname in op.get("opts", []):
                        continue    # (a Create that was stopped does not tell which of the given names it took)
                    b4 = obs[k - 1][3][sname]
                    nz = lambda m: {a: b for a, b in m.items() if b}   # a label nobody has used before is listed without owners
                    if (b4["dids"], b4["err"], nz(b4["svc"])) != (s["dids"], s["err"], nz(s["svc"])):
                        report("C13:operation-changed-another-subject", f"event {k} ({op['kind']} on {op.get('subj')!r} -> {o[0]}): subject {sname!r} before {b4['dids']} after {s['dids']}", w)
        # P2/P3: no panic; List / Exists agree with ListDIDs
        for k, (op, o) in enumerate(zip(w["ops"], obs)):
            if o[0] == "hang":
                report("C13:hang", f"event {k} ({op.get('kind', op['op'])}) did not return within 90 s (fault {w['ops'][k-1].get('fault') if k else None} before it)", w)
            if o[0].startswith("ok:"):
                report("C13:create-" + o[0][3:], f"event {k} ({op.get('kind')}): Create returned DIDs that ListDIDs(returned subject) does not list", w)
            if o[0].startswith("panic:"):
                report("C13:panic", f"event {k} ({op.get('kind', op['op'])}) panicked: {o[0][:120]}", w)
            if o[4] != "ok":
                report("C13:list-exists-inconsistent", f"event {k}: {o[4]}", w)
        # documented assumption: no update is applied to a deactivated subject (didnuts skips the publication silently,
        # SQL and network differ from then on). Such worlds are still compared with the model, but not judged.
        off_from = len(obs)
        for k, (op, o) in enumerate(zip(w["ops"], obs)):
            if op["op"] == "do" and op["kind"] in ("addsvc", "updsvc", "delsvc", "addkey") and o[0] == "ok" and k > 0:
                before = obs[k - 1][3].get(op["subj"], {"dids": []})
                if any(d[4] == "deact" for d in before["dids"]):
                    off_from = min(off_from, k)
        off = off_from < len(obs)
        # P5/P6 (judged up to the first off-assumption event): an operation that completed with an ERROR leaves every DID exactly as it
        # was; no completed operation removes a stored version or a DID ("failed operation leaves every DID at its previous
        # version", "stored versions only grow")
        def full(o):
            return {s: ([(d[0], d[1], tuple(d[2]), d[3], d[4], d[5]) for d in v["dids"]], v["err"]) for s, v in o[3].items()}
        for k in range(1, off_from):
            op, o = w["ops"][k], obs[k]
            if op["op"] != "do" or o[0] == "stopped" or o[0] == "hang" or o[0].startswith("panic:"):
                continue
            if o[0] == "err:db":
                continue    # the clean-up transaction failed: like a stop, versions and change records stay until the sweep ('tx2' worlds judge it)
            fb, fa = full(obs[k - 1]), full(o)
            if o[0].startswith("err:"):
                changed = [s for s in fa if fa[s] != fb.get(s, ([], "err:nosubject"))]
                if changed:
                    s0 = changed[0]
                    report("C13:failed-operation-changed-the-documents", f"event {k} ({op['kind']} -> {o[0]}): subject {s0} before {fb.get(s0)} after {fa[s0]}", w)
            for s0, (dids_b, _) in fb.items():
                after = {d[1]: d for d in fa.get(s0, ([], None))[0]}
                for d in dids_b:
                    if d[1] not in after or not set(d[2]) <= set(after[d[1]][2]):
                        report("C13:stored-version-removed-by-an-operation", f"event {k} ({op['kind']} -> {o[0]}): {d[0]}:d{d[1]} had versions {list(d[2])}, now "
                               f"{list(after[d[1]][2]) if d[1] in after else 'gone'}", w)
        if off:
            stats["world:update-on-deactivated-subject(judged up to it)"] += 1
            continue
        # P1: a successful operation is visible on EVERY DID of the subject (the "together" half), through Resolve and FindServices
        for k, (op, o) in enumerate(zip(w["ops"], obs)):
            if op["op"] != "do" or o[0] != "ok" or k == 0:
                continue
            sub = o[3].get(op["subj"], {"dids": [], "svc": {}})
            prev = obs[k - 1][3].get(op["subj"], {"dids": [], "svc": {}})
            labels = ",".join(sorted("d%d" % d[1] for d in sub["dids"]))
            def svcs(d):
                return [x for x in (d[3].split(";")[1] if ";" in d[3] else "").split(",") if x]
            def nkeys(d):
                return len(re.findall(r"k\d+", d[3]))
            bad_eff = None
            kd, a, b2 = op["kind"], op.get("a", ""), op.get("b", "")
            if kd == "addkeyka":
                kd = "addkey"
            if kd in ("create", "createleg", "createopt"):
                if sorted(d[0] for d in sub["dids"]) != sorted(w["methods"]) or any(d[2] != [0] or d[4] != "ok" or nkeys(d) != 1 for d in sub["dids"]):
                    bad_eff = f"create: {sub['dids']}"
            elif not sub["dids"]:
                bad_eff = f"{kd} ok but the subject has no DIDs"
            elif kd == "addsvc" and (any(a not in svcs(d) for d in sub["dids"]) or sub["svc"].get(a) != labels):
                bad_eff = f"addsvc {a}: tops {[d[3] for d in sub['dids']]} FindServices {sub['svc'].get(a)} DIDs {labels}"
            elif kd == "delsvc" and (any(a in svcs(d) for d in sub["dids"]) or sub["svc"].get(a, "") != ""):
                bad_eff = f"delsvc {a}: tops {[d[3] for d in sub['dids']]} FindServices {sub['svc'].get(a)}"
            elif kd == "updsvc" and (any(b2 not in svcs(d) or (a != b2 and a in svcs(d)) for d in sub["dids"]) or sub["svc"].get(b2) != labels):
                bad_eff = f"updsvc {a}->{b2}: tops {[d[3] for d in sub['dids']]} FindServices {sub['svc'].get(b2)}"
            elif kd == "addkey":
                before = {d[1]: nkeys(d) for d in prev["dids"]}
                if any(nkeys(d) != before.get(d[1], -9) + 1 for d in sub["dids"]):
                    bad_eff = f"addkey: keys before {before} after {[(d[1], nkeys(d)) for d in sub['dids']]}"
            elif kd == "deact" and any(d[4] != "deact" for d in sub["dids"]):
                bad_eff = f"deact: {[(d[1], d[4]) for d in sub['dids']]}"
            if bad_eff:
                report("C13:successful-operation-not-visible-on-every-did", f"event {k}: {bad_eff}", w)
            # P4: a completed operation leaves no change record of its own behind
            # (every world kind: the records a completed operation deletes are its OWN — those of a stopped operation stay for the sweep)
            if op.get("fault") != "sweepat" and o[1] != obs[k - 1][1]:
                report("C13:change-records-left-by-completed-operation", f"event {k} ({kd}): {obs[k - 1][1]} change records before, {o[1]} after", w)
        if kind == "req":
            # request layer: Create with an option list, AddVerificationMethod with a key-agreement usage, PreferredOrder
            pref = pref_of(w["ops"][0].get("pref", ""))
            stats["pref:" + (",".join(pref) or "-")] += 1
            for k, (op, o) in enumerate(zip(w["ops"], obs)):
                # the DIDs of a subject come in the preferred order (ListDIDs, and List agrees: list=ok)
                for sname, s in o[3].items():
                    ms = [d[0] for d in s["dids"]]
                    if ms != sorted(ms, key=lambda m: pref_key(pref, m)):
                        report("C13:listdids-not-in-preferred-order", f"event {k}: subject {sname} lists {ms} with PreferredOrder {pref}", w)
                if op["op"] != "do" or k == 0:
                    continue
                # a refusal (before or inside the first transaction, which is then rolled back as a whole) leaves no row behind
                if o[0] in ("err:validation", "err:exists", "err:keyagreement", "err:nosubject") and (o[1], o[2]) != (obs[k - 1][1], obs[k - 1][2]):
                    report("C13:refused-request-left-rows-behind", f"event {k} ({op['kind']} {op.get('opts', '')} -> {o[0]}): change records {obs[k - 1][1]} -> {o[1]}, "
                           f"key references {obs[k - 1][2]} -> {o[2]}", w)
                if op["kind"] == "addkeyka":
                    stats["req:addkeyka:" + o[0]] += 1
                if op["kind"] != "createopt":
                    continue
                opts = op.get("opts", [])
                names = [x[2:] for x in opts if x.startswith("s:")]
                shape = ",".join("s" if x.startswith("s:") else x for x in opts) or "-"
                stats["req:opts:" + shape] += 1
                stats["req:createopt:" + o[0]] += 1
                illformed = [n for n in names if not re.fullmatch(r"[a-zA-Z0-9._-]+", n)]
                if o[0] == "ok" or o[0] == "stopped":
                    if illformed:
                        report("C13:ill-formed-subject-name-accepted", f"event {k}: Create took the subject name {illformed[0]!r} (allowed: a-z A-Z 0-9 . _ -); names with ':' are the "
                               f"name space of v1-named subjects", w)
                    if any(not x.startswith("s:") and x not in ("enc", "legacy") for x in opts):
                        report("C13:unknown-creation-option-accepted", f"event {k}: Create went ahead with options {opts}", w)
                if o[0] == "ok":
                    legacy = "legacy" in opts and "nuts" in w["methods"]
                    want = op.get("u") if (legacy or not names) else names[-1]
                    if op.get("subj") != want:
                        report("C13:create-under-unexpected-name", f"event {k}: options {opts} created subject {op.get('subj')!r}, expected {want!r}", w)
                    if names and not legacy:
                        stats["req:created-under-given-name"] += 1
                    elif legacy:
                        stats["req:created-under-v1-name"] += 1
        if kind == "sort":
            # the pure sort helpers: the answer is the input ordered by (position in the preferred order, unlisted first by method name);
            # every document comes back at the place of its ID (of several documents with one ID the first one)
            for k, op in enumerate(w["ops"]):
                if op["op"] != "sort":
                    continue
                line = impl[w["start"] + k]
                m = re.search(r"ids=(\S*) docs=(\S*)", line)
                ids_in, ms_in = op.get("ids", []), op.get("methods", [])
                pref = pref_of(op.get("pref", ""))
                stats["sort:n=%d" % len(ids_in)] += 1
                stats["sort:pref-len=%d" % len(pref)] += 1
                if m is None:
                    report("C13:panic", f"event {k} (sort): {line[:160]}", w)
                    continue
                got = [x for x in m.group(1).split(",") if x]
                gotd = [x for x in m.group(2).split(",") if x]
                meth = dict(zip(ids_in, ms_in))
                want = sorted(ids_in, key=lambda i: pref_key(pref, meth[i]))
                if got != want:
                    report("C13:sort-dids-wrong-order", f"event {k}: sortDIDsByMethod({ids_in}, {pref}) = {got}, expected {want}", w)
                wantd = [f"{i}@{ids_in.index(i)}" for i in want]
                if gotd != wantd:
                    report("C13:sort-documents-lost-or-misplaced", f"event {k}: sortDIDDocumentsByMethod({ids_in}, {pref}) = {gotd}, expected {wantd}", w)
        if kind == "tx2":
            # a DB error in the clean-up transaction: the caller is told, the early sweep leaves the young records alone, the sweep past the
            # threshold keeps what every method published and removes (on EVERY DID) what did:nuts did not publish; no record remains
            b = next((k for k, op in enumerate(w["ops"]) if op.get("fault") in ("tx2err", "failtx2")), None)
            if b is not None:
                flavour = w["ops"][b]["fault"]
                stats["cut:cleanup-db-error:" + flavour] += 1
                def view(o):
                    return {s: ([(d[0], d[1], tuple(d[2]), d[3], d[4]) for d in v["dids"]], v["err"]) for s, v in o[3].items()}
                pre, at, early, late = obs[b - 1], obs[b], obs[b + 1], obs[b + 3]
                if at[0] != "err:db":
                    report("C13:cleanup-db-error-not-reported", f"the clean-up transaction of {w['ops'][b]['kind']} failed with a DB error but the caller got {at[0]}", w)
                if at[1] == 0:
                    report("C13:cleanup-db-error-lost-change-records", f"after a failed clean-up of {w['ops'][b]['kind']} no change record is left for the sweep", w)
                if (early[1], view(early)) != (at[1], view(at)):
                    report("C13:sweep-touched-young-change-records", f"a sweep right after the failed clean-up changed the state: {at[1]} -> {early[1]} change records", w)
                if late[1] != 0:
                    report("C13:changelog-remains-after-sweep", f"{late[1]} change records remain after the sweep that follows a failed clean-up ({flavour})", w)
                abandoned = flavour == "failtx2" and "nuts" in w["methods"]
                want = view(pre) if abandoned else view(at)
                if view(late) != want:
                    sig = "C13:abandoned-change-visible-after-sweep" if abandoned else "C13:published-change-rolled-back-by-sweep"
                    report(sig, f"{w['ops'][b]['kind']} with a failed clean-up ({flavour}): after the sweep {view(late)}, expected {want}", w)
        if kind == "plain":
            last = obs[-1]
            if last[1] != 0:
                report("C13:changelog-remains-after-sweep", f"{last[1]} change records after a fault-free run and a sweep", w)
        # a sweep never touches change records younger than the threshold: if less than 60 s have passed since the last
        # operation (and everything older was swept before), the sweep changes nothing
        age = 10 ** 9
        clean_before = True
        for k, (op, o) in enumerate(zip(w["ops"], obs)):
            if op["op"] == "do":
                if age >= 60 and k > 0 and obs[k - 1][1] != 0 and age < 10 ** 9:
                    clean_before = False       # old records not swept yet: a later young sweep may legitimately resolve them
                age = 0
            elif op["op"] == "tick":
                age += op.get("d", 0)
            elif op["op"] == "sweep":
                if age < 58 and clean_before and k > 0 and o[1:] != obs[k - 1][1:]:
                    report("C13:sweep-touched-young-change-records", f"event {k}: a sweep {age} s after the last operation changed the state: "
                           f"{obs[k - 1][1]} -> {o[1]} change records", w)
                if age >= 60:
                    clean_before = True
        if kind == "mid":
            # the rollback loop ticked while the operation was in flight: every observation equals the fault-free run's
            j = int(tag[1])
            sid = ":".join(tag[2:])
            pw = plain.get(sid)
            if pw is not None and all(o is not None for o in pw["obs"]) and w["ops"][j + 1].get("fault") == "sweepat":
                stats["cut:sweep-during-in-flight-operation"] += 1
                for k in range(1, min(len(obs), len(pw["obs"]))):
                    if obs[k] != pw["obs"][k]:
                        report("C13:sweep-during-in-flight-operation-changed-the-outcome", f"event {k} ({w['ops'][k].get('kind', w['ops'][k]['op'])}): "
                               f"{impl[w['start'] + k][:260]}  BUT without the sweep: {impl[pw['start'] + k][:260]}", w)
                        break
        if kind == "ctx":
            # the request context ended right after did:nuts published: the operation completes (nothing after the first
            # transaction depends on the request being alive) and every observation equals the fault-free run's
            j = int(tag[1])
            sid = ":".join(tag[2:])
            pw = plain.get(sid)
            bad_op = w["ops"][j + 1]
            if bad_op.get("fault") == "okctx":
                stats["cut:request-cancelled-after-nuts-published:" + "-".join(bad_op.get("order", []))] += 1
                if pw is not None and all(o is not None for o in pw["obs"]):
                    for k in range(1, min(len(obs), len(pw["obs"]))):
                        if obs[k] != pw["obs"][k]:
                            report("C13:request-cancelled-after-publish-changed-the-outcome", f"event {k} ({w['ops'][k].get('kind', w['ops'][k]['op'])}, commit order "
                                   f"{bad_op.get('order')}, context dead after {bad_op.get('k')} Commit call(s)): {impl[w['start'] + k][:260]}  BUT with a live context: {impl[pw['start'] + k][:260]}", w)
                            break
        if kind == "names":
            stats["names:" + ",".join(sorted({op["subj"] for op in w["ops"] if op["op"] == "do"}))] += 1
            if obs[-1][1] != 0:
                report("C13:changelog-remains-after-sweep", f"{obs[-1][1]} change records at the end of a look-alike-names run", w)
        if kind == "now":
            # the publish failed (request context cancelled or not) and the caller retried at once: everything from the retry on is as
            # in the fault-free run, and at the end no change record is left
            j = int(tag[1])
            sid = ":".join(tag[2:])
            pw = plain.get(sid)
            if w["ops"][j + 1].get("fault", "none") != "none" and pw is not None and all(o is not None for o in pw["obs"]):
                stats["cut:retry-at-once"] += 1
                want = [o[0] for o in pw["obs"][1 + j:]]
                got = [o[0] for o in obs[j + 2:]]
                if want != got:
                    report("C13:retry-at-once-differs-from-fault-free-run", f"results from the retry on {got} but {want} without the fault ({w['ops'][j + 1]['kind']}, fault {w['ops'][j + 1].get('fault')})", w)
            if obs[-1][1] != 0:
                report("C13:changelog-remains-after-sweep", f"{obs[-1][1]} change records at the end of a retry-at-once run", w)
        if kind == "quiet":
            j = int(tag[1])
            sid = ":".join(tag[2:])
            b = j + 1                       # index of the faulty event
            bad_op, bad_obs = w["ops"][b], obs[b]
            sweeps = [k for k in range(b + 1, len(obs)) if w["ops"][k]["op"] == "sweep"]
            if len(sweeps) < 2:
                continue
            pi = sweeps[1]                  # the sweep past the threshold
            pre, post = obs[j], obs[pi]     # before the operation / after that sweep
            if any(op["op"] == "skew" for op in w["ops"]):
                stats["world:quiet+skew"] += 1
            if post[1] != 0 or obs[-1][1] != 0:
                report("C13:changelog-remains-after-sweep", f"{post[1]} change records remain after the rollback sweep (fault {bad_op.get('fault')} k={bad_op.get('k')} on {bad_op['kind']})", w)
            fired = bad_op.get("fault", "none") != "none"
            nuts_enabled = "nuts" in w["methods"]
            order = bad_op.get("order", [])
            published_all = (not nuts_enabled) or (bad_op.get("fault") == "stop" and "nuts" in order[:bad_op.get("k", 0)])
            if bad_op.get("fault") in ("logerr", "logstop"):
                published_all = False   # the first transaction never committed: nothing may remain, whatever the methods
            if fired:
                stats["cut:" + ("kept" if published_all else "abandoned")] += 1
            if fired and published_all and bad_op.get("fault") == "stop":
                # a change that WAS published by every method is never rolled back: after the sweep every DID of the subject
                # shows exactly what it showed right after the stop (the new version), and the real IsCommitted said yes
                def shown(o):
                    return {s: ([(d[0], d[1], d[2], d[3], d[4]) for d in v["dids"]], v["err"]) for s, v in o[3].items()}
                va, vq = shown(bad_obs), shown(post)
                sname = bad_op["subj"]
                if va.get(sname) != vq.get(sname):
                    report("C13:published-change-rolled-back-by-sweep", f"subject {sname}: after the stop {va.get(sname)} after the sweep {vq.get(sname)} "
                           f"({bad_op['kind']}, stop k={bad_op.get('k')}, commit order {order})", w)
                said_no = [op.get("nutsno") for op in w["ops"][b + 1:pi + 1] if op["op"] == "sweep" and op.get("nutsno")]
                if said_no and nuts_enabled:
                    report("C13:published-change-rolled-back-by-sweep", f"did:nuts IsCommitted answered 'not committed' for a change whose did:nuts Commit had returned "
                           f"({bad_op['kind']}, stop k={bad_op.get('k')})", w)
            if fired and not published_all:
                # every DID shows what it showed before; a rolled-back create leaves nothing behind
                def view(o):
                    return {s: ([(d[0], d[1], d[3], d[4]) for d in v["dids"]], v["err"]) for s, v in o[3].items()}
                vp, vq = view(pre), view(post)
                for sname in vq:
                    before = vp.get(sname, ([], "err:nosubject"))
                    if vq[sname] != before:
                        report("C13:abandoned-change-visible-after-sweep", f"subject {sname}: before {before} after sweep {vq[sname]} ({bad_op['kind']}, fault {bad_op.get('fault')} k={bad_op.get('k')})", w)
                # keys of the abandoned version never show up again
                new_keys = key_labels(bad_obs) - set().union(*[key_labels(o) for o in obs[:b]]) if b > 0 else key_labels(bad_obs)
                for k2 in range(pi, len(obs)):
                    seen = new_keys & key_labels(obs[k2])
                    if seen:
                        report("C13:abandoned-key-visible", f"keys {sorted(seen)} of the abandoned version visible at event {k2}", w)
                        break
                # a repeated attempt behaves as the first attempt would have without the fault, and so does the rest
                pw = plain.get(sid)
                if pw is not None and all(o is not None for o in pw["obs"]):
                    want = [o[0] for o in pw["obs"][1 + j:]]
                    got = [o[0] for o in obs[pi + 1:]]
                    if want != got:
                        sig = "C13:retry-fails-after-rollback" if want[:1] != got[:1] else "C13:later-operation-differs-after-rollback"
                        report(sig, f"results after the sweep {got} but {want} without the fault ({bad_op['kind']}, fault {bad_op.get('fault')} k={bad_op.get('k')})", w)

    seen_sig = set()
    for sig, what, w in findings:
        if sig in seen_sig:
            continue
        seen_sig.add(sig)
        text = "\n".join(json.dumps(op) for op in w["ops"]) + "\n"
        pw = plain.get(":".join(w["tag"].split(":")[2:])) if w["tag"].startswith("quiet") else None
        if pw is not None:
            text = "\n".join(json.dumps(op) for op in pw["ops"]) + "\n" + text
        ctx.violation(sig, what, sig.split(":")[1] + ".jsonl", text)
    ctx.oblige("oracle:all-or-nothing/log-empty/retry/consecutive/unique(impl)", not findings, f"{len(findings)} findings: " + "; ".join(sorted(seen_sig)))

    # ---- correspondence model vs implementation
    if bad:
        i = bad[0]
        detail = f"first differing line {i}\nimpl : {impl[i][:700] if i < len(impl) else None}\nmodel: {model[i][:700] if i < len(model) else None}"
        ctx.oblige("correspondence:model=impl", False, f"{len(bad)} of {len(impl)} lines differ; " + detail[:900])
        if not findings:
            w = [x for x in worlds if x["start"] <= i][-1]
            with open(os.path.join(ctx.replay_dir(), "correspondence.jsonl"), "w") as f:
                f.write("\n".join(json.dumps(op) for op in w["ops"]) + "\n")
            ctx.unproved(["correspondence C13 (model.out != impl.out)"], detail + f"\nreplay ops: {ctx.replay_dir()}/correspondence.jsonl")
    else:
        ctx.oblige("correspondence:model=impl", True, f"{len(impl)} lines equal")

    ctx.cov["evaluations"] = len(impl)
    ctx.cov["distinct_nontrivial"] = len(distinct)
    ctx.cov["traces_validated_against_impl"] = len(impl) - len(bad)
    ctx.cov["rule"] = ("operation sequences (create, add/update/delete service, add key, deactivate; 1-2 subjects; methods nuts+web / nuts / web), 3 fixed + random ones; "
                       "for every operation of a sequence and every cut (did:nuts commit fails; stop before the k-th Commit call, k = 0..#methods, the last = before the clean-up transaction; "
                       "DB error / process stop at the k-th did_change_log write inside the first transaction): "
                       "a 'quiet' world (fault, early sweep, +70 s, sweep, retry, rest, sweep) and for stops a 'busy' world (sequence continues at once, sweep last), plus the fault-free world. "
                       "Every event is observed through ListDIDs / Resolve / FindServices / version numbers / did_change_log and key_reference counts / the didstore. "
                       "Request worlds ('req'): Create with option LISTS (given names that are free / taken / ill-formed, v1 naming before and after a name, encryption key, unknown option, "
                       "repeats; fixed + random lists; faults on a Create with options), AddVerificationMethod with a key-agreement usage, on nuts+web / web+nuts / nuts / web with 8 PreferredOrder values. "
                       "Sort world: sortDIDsByMethod / sortDIDDocumentsByMethod on 0-5 DIDs of pairwise different methods out of 5 (+ repeats of one DID), random preferred orders with unlisted / repeated / foreign entries. "
                       "Clean-up-failure worlds ('tx2'): a real DB error at the first DELETE of transactionHelper's second transaction, alone and after a failed did:nuts Commit, for each of the 6 operations "
                       "(+ a no-change operation), early sweep, sweep past the threshold, retry. "
                       "distinct_nontrivial = distinct worlds (event lists without map order)")
    ctx.cov["input_distribution"] = dict(sorted(stats.items()))
    ctx.cov["samples"] = [json.dumps(worlds[1]["ops"][:4])[:400] if len(worlds) > 1 else "", impl[worlds[1]["start"] + 2][:300] if len(worlds) > 1 else ""]


def concurrent_leg(ctx, binary):
    """requests for one subject name interleaved at query granularity (gorm callback gate) + a goroutine variant; real managers.
    Oracle on the implementation's outputs: at most one DID per enabled method, exactly one Create succeeds for a new name (none for an
    existing one), all DIDs of the subject at the same versions, no change record left."""
    rc, log, out = ctx.run_harness(binary, "TestVerifC13Conc", {}, outdir=os.path.join(ctx.scratch, "outc"), timeout=600)
    if rc != 0:
        ctx.oblige("concurrent-leg-runs", False, log[-1200:])
        return
    ctx.oblige("concurrent-leg-runs", True)
    lines = [json.loads(l) for l in ctx.read_lines(os.path.join(out, "conc.jsonl")) if l.strip()]
    bad = []
    fired = 0
    for d in lines:
        what = []
        fired += 1 if d.get("fired") and any(d["fired"]) else 0
        per = d["dids_per_method"]
        if any(v > 1 for v in per.values()):
            what.append(f"the subject maps to {per} DIDs (more than one per method)")
        creates_ok = sum(1 for r, q in zip(d["results"], d["requests"]) if q == "create" and r == "ok")
        want = 0 if d["pre"] else 1
        goroutines = d["scenario"].startswith("goroutines")
        if creates_ok > max(want, 0) or (not goroutines and creates_ok != want):
            what.append(f"{creates_ok} Create requests for one subject name succeeded (results {d['results']})")
        vs = {re.sub(r"^[a-z]+", "", v) for v in d["versions"]}
        if len(vs) > 1:
            what.append(f"DIDs of the subject at different versions: {d['versions']}")
        if d["log"] != 0:
            what.append(f"{d['log']} change records left")
        if what:
            bad.append((d, what))
    ctx.oblige("oracle:concurrent-requests(one DID set per subject name)", not bad, f"{len(bad)} of {len(lines)} scenarios: " + "; ".join(w for _, ws in bad[:2] for w in ws)[:600])
    for d, what in bad[:1]:
        ctx.violation("C13:concurrent:subject-maps-to-more-than-one-did-set", f"{d['scenario']} gates {d.get('gates')}: " + "; ".join(what), "concurrent.jsonl",
                      json.dumps(d) + "\n# TestVerifC13Conc (harness/inpkg/vdr/didsubject/zz_verif_c13_test.go): requests in order; request i+1 starts at the gates[i]-th query of request i "
                      "that is not part of an open SQL transaction (afterwards if there is none); deterministic, ./check C13 re-runs it\n")
    ctx.cov["concurrent_leg_scenarios"] = len(lines)
    ctx.cov["concurrent_leg_interleaved_inside_a_request"] = fired


def wiring_leg(ctx):
    """full-stack leg: real vdr.Module (NewVDR/Configure/Start), real network + ambassador + didstore; every cut of create/addsvc/addkey/deact,
    sweep through Module.rollbackLoop. Oracle on the implementation's outputs only."""
    if ctx.replay:
        return
    wb = ctx.go_test_binary(WPKG, WHARNESS, "c13w")
    if wb is None:
        ctx.oblige("wiring-harness-builds", False, ctx.harness_error[-1200:])
        return
    ctx.oblige("wiring-harness-builds", True)
    rc, log, out = ctx.run_harness(wb, "TestVerifC13W", {}, outdir=os.path.join(ctx.scratch, "outw"), timeout=600)
    if rc != 0:
        ctx.oblige("wiring-harness-runs", False, log[-1200:])
        return
    ctx.oblige("wiring-harness-runs", True)
    lines = [json.loads(l) for l in ctx.read_lines(os.path.join(out, "wiring.jsonl")) if l.strip()]
    bad = []

    def strip_m(states):
        return sorted(states)

    for d in lines:
        what = []
        if d["wiring"] != "nuts:*vdr.c13wDeco,web:*vdr.c13wDeco" and d["wiring"] != "nuts:*didnuts.Manager,web:*didweb.Manager":
            what.append(f"method managers wired as {d['wiring']}")
        if not d["stopped"]:
            what.append("the stop did not fire")
        if not d["loop_swept"] or d["log_after"] != 0:
            what.append(f"Module.rollbackLoop did not clear the change log at start-up ({d['log_before']} -> {d['log_after']}) {d['retry'] if d['retry'].startswith('loop') else ''}")
        published = "nuts" in d["order"][:d["k"]]
        want = d["stop"] if published else d["before"]
        if strip_m(d["after"]) != strip_m(want):
            what.append(f"after the sweep {d['after']} but expected {'the new version (published by every method)' if published else 'the previous state'} {want}")
        parsed = [re.match(r"^(\w+) v=\[([\d ]*)\] (.*)$", x) for x in d["after"] if x != "nosubject"]
        vs = {m.group(2) for m in parsed if m}
        if len(vs) > 1:
            what.append(f"DIDs of the subject at different versions after the sweep: {d['after']}")
        nuts_sql = [m.group(3) for m in parsed if m and m.group(1) == "nuts"]
        if nuts_sql and d["nuts_net"] != nuts_sql[0]:
            what.append(f"did:nuts on the network shows {d['nuts_net']}, SQL shows {nuts_sql[0]}")
        if not published and d["retry"] != "ok":
            what.append(f"retry after the rolled-back attempt: {d['retry']}")
        if what:
            bad.append((d, what))
    ctx.oblige("oracle:wiring-leg(full stack, sweep through Module.rollbackLoop)", not bad, f"{len(bad)} of {len(lines)} scenarios: " + "; ".join(w for _, ws in bad[:2] for w in ws)[:600])
    for d, what in bad[:1]:
        ctx.violation("C13:wiring:" + re.sub(r"[^a-z]+", "-", what[0].lower())[:60], f"{d['kind']} stop k={d['k']} order {d['order']}: " + "; ".join(what),
                      "wiring.jsonl", json.dumps(d) + "\n# full-stack scenario of harness/inpkg/vdr/zz_verif_c13w_test.go: operation kind, stop before Commit call k (k = #methods: before the clean-up transaction); "
                      "the leg is deterministic: ./check C13 re-runs it\n")
    ctx.cov["wiring_leg_scenarios"] = len(lines)


REQUIRED_DEEP = ["uniform_versions", "versions_consecutive", "versions_consecutive_monotone", "subject_unique", "all_or_nothing",
                 "failed_commit_restores", "retry_enabled", "cfgNow_fixed", "stopped_operation_resolved",
                 "abandoned_keys_unpublished_partial", "abandoned_keys_unpublished",
                 "create_check_and_write_are_one_step", "non_atomic_create_breaks_subject_unique",
                 "first_transaction_is_atomic", "versions_without_change_records_are_never_rolled_back",
                 "change_records_name_new_versions", "subject_naming_order_independent", "naming_at_visit_depends_on_order",
                 "sweep_ignores_young_records",
                 # request layer (deepening round 2026-09-28, Props/C13Req.lean)
                 "fact_subject_pattern", "fact_create_option_arms", "fact_create_checks_provisional_name_first",
                 "fact_key_agreement_refused_on_web", "fact_sort_comparator",
                 "create_request_refines", "add_key_request_refines", "create_request_reach", "add_key_request_reach",
                 "key_agreement_on_web_changes_no_did", "create_with_encryption_key_on_web_creates_nothing",
                 "create_request_order_independent", "ill_formed_option_refuses", "option_names_are_not_dids",
                 "list_dids_sorted_permutation", "list_dids_order_unique", "cleanup_failure_reach",
                 "sorted_documents_are_a_permutation", "cleanup_failure_resolved",
                 # round 3 (Props/C13Ctx.lean): request context, subject look-up
                 "fact_request_context_only_reaches_commit", "fact_subject_lookup_is_equality", "commit_loop_ignores_context",
                 "cancelled_request_changes_nothing", "cancelled_request_reach", "web_commit_failing_on_dead_context_breaks_all_or_nothing",
                 "find_services_all_dids_or_none", "find_services_without_type_finds_nothing", "lookup_is_exact", "lookup_by_like_merges_subjects", "other_subjects_untouched", "other_subjects_untouched_by_cancelled_request", "cancelled_and_failed_request_restores"]


def pref_of(s):
    return ["nuts", "web"] if s == "" else ([] if s == "-" else s.split(","))


def pref_key(pref, m):
    """sortDIDsByMethod as documented: position in the preferred order (the last one), unlisted methods first by name"""
    r = max([i for i, v in enumerate(pref) if v == m], default=-1)
    return (r, m if r == -1 else "")
