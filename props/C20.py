"""C20 — strict mode refuses every insecure configuration it documents.
Lean: NutsProofs.Props.C20 over NutsModel.C20.Strict (+ the C18 models of net/url and http/client) + regenerated facts.
Correspondence: in-package harness in /repo/cmd — the REAL assembled node (CreateSystem + Load + System.Configure) for the
full product of the option table, every registered flag on the command line, moved keys, core.ParsePublicURL on a URL
table, and the http/client constructors against real local TLS / HTTP servers."""
import ipaddress, json, os, re
from collections import Counter

PKG = "cmd"
HARNESS = ["cmd/zz_verif_c20_test.go"]

URL_CLASS = {"https://nuts.nl": None, "http://nuts.nl": "url-not-https", "https://127.0.0.1": "url-ip", "https://localhost": "url-reserved",
             "https://node.example.com": "url-reserved", "": "url-missing"}
IAM_ENDPOINTS = ["https://pub-verif.nl:1001/e", "http://pub-verif.nl:1003/e", "https://127.0.0.1:1001/e", "https://[::1]:1001/e", "https://localhost:1001/e",
                 "https://node.local:1001/e", "https://a.test:1001/e", "https://10.0.0.12:1002/e", "https://example.com:1001/e"]
RESERVED_TLDS = {"corp", "example", "home", "host", "invalid", "lan", "local", "localdomain", "localhost", "test"}
RESERVED_L2 = {"example.com", "example.net", "example.org"}
PRODUCT_SIZE = 2 * 6 * 2 * 3 * 3 * 2 * 2 * 2


def insecure_settings(op):
    """the documented insecure settings present in a row of the option table (independent of model and implementation)"""
    s = []
    u = URL_CLASS[op.get("url", "")]
    if u:
        s.append(u)
    parts = op.get("tlsparts")
    tls_on = op.get("tls") if parts is None else ("c" in parts or "k" in parts)   # a trust store alone is not TLS
    if "nuts" in op.get("methods", []) and not tls_on:
        s.append("tls-off")
    if op.get("crypto", "") == "":
        s.append("crypto-implicit")
    if not op.get("sql"):
        s.append("sql-implicit")
    if op.get("irma") != "pbdf":
        s.append("irma-non-production")
    return s


def host_is_ip(host):
    """is the host part (authority minus one trailing :port, brackets stripped — RFC 3986 host[:port]) an IP literal?"""
    h = host
    m = re.fullmatch(r"(.*):(\d*)", h)
    if m and not h.endswith("]"):
        h = m.group(1)
    if h.startswith("[") and h.endswith("]"):
        h = h[1:-1]
    try:
        ipaddress.ip_address(h)
        return True
    except ValueError:
        return False


def run(ctx):
    facts = ctx.facts() or {}
    thms = ctx.build_and_audit(["NutsProofs.Props.C20", "NutsProofs.Props.C20R3"])
    required = ["strict_refuses", "strict_refuses_with_reason", "strict_decision_table", "strict_running", "lenient_accepts", "moved_keys_refused",
                "cli_secrets_refused", "outbound_https_only", "lenient_follows_http", "tls_off_network_disabled", "refusals_independent",
                "fact_default_strict", "fact_parse_public_url", "fact_reserved_lists", "fact_moved_keys", "fact_secret_flag_rule",
                "fact_engine_conditions", "fact_http_client", "fact_iam_strictmode", "fact_iam_method_inventory", "iam_calls_strict", "fact_client_strict_unconditional", "fact_outbound_inventory", "fact_iam_call_sites", "fact_misc_sites", "fact_filter_and_validator_comparisons", "remote_contexts_exact", "remote_context_prefix_witness", "dummy_any_spelling", "fact_redirect_check_reads_global", "early_client_strict", "iam_endpoints_strict", "iam_endpoint_witness", "fact_engine_order", "fact_secret_flags", "fact_flags_resolved", "fact_redacted_keys",
                "fact_response_cap", "response_cap_exact", "response_never_truncated", "reader_limit_witness", "do_bytes_refines", "do_body_bounded", "outbound_https_only_bytes",
                "fact_config_sources", "fact_load_steps", "source_precedence", "strict_only_off_when_told", "command_line_strict_wins", "sources_to_decision",
                "env_key_normal", "env_list_plain", "load_check_order", "load_full_refines_load",
                "fact_crypto_backends_tls_enabled", "crypto_backend_exact", "start_files_refines", "tls_never_half",
                "fact_secret_suffixes", "fact_load_from_flagset_shape", "fact_client_loader", "fact_sql_init", "secret_rule_regenerated", "flagset_refused_iff",
                "flagset_reports_a_set_secret", "flagset_verdict_order_independent", "flagset_refusal_monotone", "load_refines_flagset", "client_token_cli_refused", "client_token_never_from_cli",
                "implicit_sql_refused_any_datadir", "strict_sql_opened_is_configured", "init_sql_outcomes", "lenient_default_sqlite", "start_conn_refines",
                "strict_conn_refuses_implicit", "fact_dummy_guards", "dummy_strict_inert"]
    for r in required:
        if not any(t.endswith("Props." + r) for t in thms):
            ctx.oblige("thm-present:" + r, False, "theorem missing or its module does not build")
    ctx.trusted += [
        "modelled, not verified (tied by correspondence): Go net/url, net.ParseIP, net/http redirect loop (shared with C18); koanf / pflag / YAML loading of the configuration",
        "each engine's Configure is a decision function over its own options; everything an engine does after accepting its configuration (opening databases, "
        "loading certificates, key stores, IRMA) is outside the model",
        "model scope: core/url.go, core/server_config.go Load + ServerURL, core/config.go loadFromFlagSet, crypto.Configure, storage.initSQLDatabase, vdr.Configure (URL), "
        "network.Configure (TLS), auth.Configure (IRMA scheme), notary.Configure (dummy means), jsonld.Configure (remote contexts), http engine (client.StrictMode), http/client, cmd/root.go engine order",
        "deepening round: http/client limitedReadAll + body pipeline of Do (byte level); core/config.go loadFromEnv / splitWithEscaping / loadFromFlagSet and loadConfigMap order; "
        "Load check order; crypto.Configure switch by name; TLSConfig.Enabled / Load over the three tls.* files (vcr, network, GoldenHammer). Contracts tied by correspondence: "
        "koanf/mapstructure conversion of a loaded value (ParseBool table, string -> one-element slice), YAML / pflag parsing, validity of the PEM files (only valid files are generated)",
        "round 3: core/config.go loadFromFlagSet over any flag set + core/client_config.go NewClientConfigForCommand (secret suffixes regenerated from the source expression); "
        "storage/engine.go initSQLDatabase up to the adapter switch (adapter names, default SQLite prefix, statement shape regenerated). Contracts: pflag VisitAll order = sorted names "
        "(the harness passes the real order), goose/gorm/sql drivers behind the adapter switch (only sqlite and unknown adapters are run)",
    ]
    ctx.assumptions += [
        "'network TLS switched off' is an insecure setting only when the network engine is enabled (didmethods contains nuts): theorem tls_off_network_disabled shows the other reading's configuration",
        "secrets on the command line = flags whose name ends in token/password (the code's rule). storage.sql.connection — redacted as a secret when the configuration is printed — "
        "is accepted on the command line: stated limit (fact_redacted_keys), not claimed",
        "crypto.storage backends other than fs (vaultkv, azure-keyvault, external) and the IRMA contract validator need external services and are not started by the harness; "
        "their strict-mode behaviour is covered by the model + facts only",
        "hosts with non-ASCII upper-case letters are outside the generated URL set (the model lower-cases ASCII only)",
    ]
    binary = ctx.go_test_binary(PKG, HARNESS, "c20")
    if binary is None:
        ctx.oblige("harness-builds", False, ctx.harness_error[-1500:])
        return
    ctx.oblige("harness-builds", True)
    env = {}
    if ctx.replay:
        env["VERIF_REPLAY"] = os.path.abspath(ctx.replay)
    else:
        env["VERIF_CORPUS"] = os.path.join(os.path.dirname(os.path.dirname(os.path.abspath(__file__))), "harness", "corpus", "C20")
    rc, log, out = ctx.run_harness(binary, "TestVerifC20", env, timeout=3000)
    if rc != 0:
        ctx.oblige("harness-runs", False, log[-1500:])
        return
    ctx.oblige("harness-runs", True)
    ops_p, impl_p, model_p = (os.path.join(out, x) for x in ("ops.jsonl", "impl.out", "model.out"))
    ok, err = ctx.model("C20", ops_p, model_p)
    ctx.oblige("model-driver-runs", ok, err[-500:])
    impl, model, bad = ctx.compare(impl_p, model_p)
    ops = ctx.read_lines(ops_p)

    # ---------- direct property oracle on the implementation's own outputs
    best, viol = {}, 0
    feats_default = [0, 0]
    feats_src = [0, 0]
    feats_sql, feats_cflag, feats_dummy = [], [], []
    real_cmds = set()
    tags, outcomes = Counter(), Counter()
    distinct = set()
    product_rows = set()
    flag_names, odd_accepted = [], []
    tlds = set(facts.get("reservedTLDs", []))
    l2s = set(facts.get("reservedAddresses", []))

    def violation(sig, what, opline):
        nonlocal viol
        viol += 1
        rank = len(opline)
        if sig not in best or rank < best[sig][0]:
            best[sig] = (rank, what, opline)

    for opl, line in zip(ops, impl):
        if not opl:
            continue
        op = json.loads(opl)
        kind, strict = op["op"], op.get("strict", False)
        tags[op.get("tag", kind)] += 1
        if " panic:" in line:
            violation("panic:" + kind, f"{kind} panicked: {line[:200]}", opl)
            continue
        if kind == "url":
            outcomes["url " + ("strict " if strict else "lenient ") + line.split()[1].split(":")[0] + (":" + line.split(":")[1] if "refuse" in line else "")] += 1
            url = bytes.fromhex(op.get("s", "")).decode("latin1")
            if line.startswith("url ok"):
                distinct.add(("url", url, strict))
                host = bytes.fromhex(line.split("host=")[1]).decode("latin1")
                scheme = url.split(":", 1)[0].lower()
                if strict:
                    # independent of the regenerated lists: RFC 2606 / RFC 6762 names, with or without the root dot
                    name = re.sub(r":\d*$", "", host).lower() if not host.startswith("[") else host
                    bare = name.rstrip(".")
                    labels = bare.split(".")
                    reserved = (labels[-1] in RESERVED_TLDS or ".".join(labels[-2:]) in RESERVED_L2 or bare == "" or
                                name.split(".")[-1] in tlds or ".".join(name.split(".")[-2:]) in l2s)
                    if host_is_ip(re.sub(r"\.(?=(:\d*)?$)", "", host, count=1)) and not host_is_ip(host):
                        violation("strict-accepted:url-ip-trailing-dot", f"strict ParsePublicURL accepted an IP address written with a trailing dot {url!r}", opl)
                        continue
                    if scheme != "https":
                        violation("strict-accepted:url-not-https", f"strict ParsePublicURL accepted {url!r}", opl)
                    elif host_is_ip(host):
                        violation("strict-accepted:url-ip", f"strict ParsePublicURL accepted IP host {url!r}", opl)
                    elif reserved:
                        violation("strict-accepted:url-reserved", f"strict ParsePublicURL accepted reserved host {url!r}", opl)
                elif scheme not in ("http", "https"):
                    violation("lenient-accepted:other-scheme", f"lenient ParsePublicURL accepted {url!r}", opl)
            elif not strict and re.fullmatch(r"https?://[a-z0-9][a-z0-9.-]*(:\d+)?(/[a-z/]*)?", url) and op.get("via") != "wellknown":
                violation("lenient-refused:" + line.split(":")[1], f"lenient ParsePublicURL refused the plain URL {url!r}: {line}", opl)
        elif kind == "flag":
            flag_names.append(op["flag"])
            secret = op["flag"].endswith("token") or op["flag"].endswith("password")
            outcomes["flag " + line.split()[1]] += 1
            distinct.add(("flag", op["flag"]))
            if secret and line != "flag refuse:cli-secret":
                violation("cli-secret-accepted:" + op["flag"], f"--{op['flag']} accepted on the command line: {line}", opl)
            if not secret and line != "flag ok":
                violation("cli-flag-refused:" + op["flag"], f"--{op['flag']}={op.get('value')} not accepted: {line}", opl)
            if not secret and re.search(r"token|password|secret|credential|connection|clientsecret|apikey", op["flag"]):
                odd_accepted.append(op["flag"])
        elif kind == "ctx":
            u = bytes.fromhex(op.get("s", "")).decode("latin1")
            allow = op.get("allow") or []
            outcomes["ctx " + ("strict " if strict else "lenient ") + line.split()[1] + (" listed" if u in allow else " unlisted")] += 1
            distinct.add(("ctx", u, tuple(allow), strict))
            if strict and u not in allow and (op.get("fetches", 0) > 0 or line != "ctx refused"):
                violation("strict-unlisted-remote-context:filter", f"strict loader let the unlisted context URL {u!r} through (allow-list {allow}); outbound fetches attempted: {op.get('fetches', 0)}", opl)
            if u in allow and line != "ctx passed":
                violation("listed-context-refused", f"allow-listed context {u!r} refused: {line}", opl)
            if not strict and line != "ctx passed":
                violation("lenient-refused:remote-context", f"lenient loader refused {u!r}: {line}", opl)
        elif kind == "flags":
            names = [a.split("=", 1)[0] for a in op.get("args", [])]
            secret = [n for n in names if n.endswith("token") or n.endswith("password")]
            outcomes["flags " + line.split()[1] + (" (with secret)" if secret else "")] += 1
            distinct.add(("flags", tuple(op.get("args", []))))
            if secret and line != "flags refuse:cli-secret":
                violation("cli-secret-accepted:combined", f"secret flag {secret} accepted when combined with other flags {names}: {line}", opl)
            if not secret and line != "flags ok":
                violation("cli-flags-refused", f"flags {names} not accepted: {line}", opl)
        elif kind == "load":
            outcomes[line] += 1
            distinct.add(("load", op.get("legacy"), op.get("legacyenv"), op.get("cli"), strict))
            if op.get("cli") and line != "load refuse:load:cli-secret":
                violation("cli-secret-accepted:load", f"command line {op['cli']} accepted (strict={strict}): {line}", opl)
            elif op.get("legacy") and not op.get("cli") and line != "load refuse:load:moved-keys":
                violation("moved-key-accepted:" + op["legacy"], f"moved key {op['legacy']} accepted (strict={strict}, env={op.get('legacyenv', False)}): {line}", opl)
            elif not op.get("legacy") and not op.get("cli") and line != "load ok":
                violation("load-refused", f"clean configuration refused at Load: {line}", opl)
        elif kind == "sys":
            row = (strict, op.get("url", ""), op.get("tls", False), tuple(op.get("methods", [])), op.get("crypto", ""), op.get("sql", False), op.get("dummy", False), op.get("irma"))
            if op.get("tag") == "product":
                product_rows.add(row)
            if op.get("strictunset"):
                feats_default[0] += 1
            distinct.add(("sys",) + row)
            ins = insecure_settings(op)
            outcomes["sys " + ("strict " if strict else "lenient ") + (line.split()[1] if line.startswith("sys refuse") else "ok")] += 1
            half_tls = op.get("tlsparts") not in (None, "", "t", "ckt")   # certificate without key etc.: cannot be loaded, either mode
            malformed = op.get("crypto", "") not in ("", "fs") or op.get("url", "") == "" or half_tls
            conn = op.get("sqlconn")
            if conn is not None:
                # round 3: the connection string itself; a data directory with a history (prior lenient run) changes nothing
                feats_sql.append((strict, op.get("prior", ""), conn.split(":")[0]))
                if conn and not conn.startswith("sqlite:"):
                    malformed = True
                    if line.startswith("sys ok"):
                        violation("sql-unknown-adapter-started:" + conn.split(":")[0], f"storage.sql.connection={conn!r} names no supported database but the node started", opl)
                if line.startswith("sys prior-"):
                    violation("prior-run:" + line.split()[1][:40], f"the lenient run that gives the data directory its history did not work: {line}", opl)
                    continue
                if strict and not conn and op.get("prior") and not line.startswith("sys refuse"):
                    violation("strict-accepted:sql-implicit:used-datadir", "strict node without storage.sql.connection started on a data directory that an earlier "
                              "non-strict run left its sqlite.db in (implicit SQLite must be refused whatever the data directory holds)", opl)
                    continue
            if op.get("tlsparts") is not None:
                feats_src.append(op["tlsparts"])
            if half_tls and line.startswith("sys ok"):
                violation("half-tls-started:" + op["tlsparts"], f"node started with an incomplete TLS configuration (tls.* files set: {op['tlsparts']}): {line}", opl)
            if op.get("tag") == "crypto-names" and line.startswith("sys ok"):
                violation("crypto-backend-name-accepted:" + op.get("crypto", ""), f"crypto.storage={op.get('crypto')!r} is not a back-end name but the node started", opl)
            if strict:
                if (ins or malformed) and not line.startswith("sys refuse"):
                    violation("strict-accepted:" + (ins[0] if ins else "malformed"), f"strict node started with insecure settings {ins}: {line}", opl)
                if line.startswith("sys ok"):
                    pr = dict(kv.split("=", 1) for kv in line.split()[2:])
                    for ent in filter(None, pr.get("iammatrix", "").split(",")):
                        site, cls = ent.split(":", 1)
                        cls = [x for x in cls.split("/") if x]
                        feats_default[1] += len(cls)
                        for k, r in enumerate(cls):
                            if k == 0:
                                continue
                            if r == "sent":
                                violation(("outbound-non-https:iam:" if k == 1 else "outbound-to-non-public-host:iam:") + site,
                                          f"started strict node: IAM client method {site} sent a request to {IAM_ENDPOINTS[k]}", opl)
                            elif r not in ("refused-endpoint",):
                                violation("strict-endpoint-check-disabled:iam-site:" + site, f"started strict node: {site} does not refuse {IAM_ENDPOINTS[k]} as an endpoint ({r})", opl)
                    if pr.get("dummy") != "absent":
                        violation("strict-dummy-means-registered", f"started strict node offers the dummy (test-only) means ({pr.get('dummy')}; configured as {op.get('dummyname') or 'not configured'})", opl)
                    if pr.get("remotectx") != "refused":
                        violation("strict-unlisted-remote-context", "started strict node tried to fetch a JSON-LD context that is not on the allow-list", opl)
                    if pr.get("clientstrict") != "true":
                        violation("strict-client-flag-off", "started strict node: http/client.StrictMode is false", opl)
                    if pr.get("earlyclient") != "refused":
                        violation("outbound-non-https:client-built-before-configure", "started strict node: a client built before the HTTP engine was configured followed an https -> http redirect", opl)
                    if pr.get("iamhttp") == "sent":
                        violation("outbound-non-https:iam", "started strict node: the IAM client sent a request to a plain-HTTP endpoint", opl)
                    elif pr.get("iamvc") == "sent":
                        violation("outbound-non-https:iam-credential-endpoint", "started strict node: credential request sent to a plain-HTTP endpoint", opl)
                    elif pr.get("iamsites") != "same":
                        violation("strict-endpoint-check-disabled:iam-site", f"started strict node: IAM call sites that do not refuse a plain-http endpoint as endpoint: {pr.get('iamsites')}", opl)
                    elif pr.get("iamhttp") != "refused-endpoint" or pr.get("iamip") != "refused-endpoint":
                        violation("strict-endpoint-check-disabled:iam", f"started strict node: the IAM client's endpoint check runs non-strict (http endpoint: {pr.get('iamhttp')}, https://127.0.0.1 endpoint: {pr.get('iamip')})", opl)
                if not ins and not malformed and not line.startswith("sys ok dummy=absent remotectx=refused clientstrict=true "):
                    violation("strict-secure-config:" + line.split()[1][:40], f"secure strict configuration did not start as expected: {line}", opl)
                if len(ins) == 1 and not malformed and line.startswith("sys refuse"):
                    want = {"url-not-https": "url:scheme", "url-ip": "url:ip", "url-reserved": "url:reserved", "tls-off": "tls-off", "crypto-implicit": "crypto-implicit",
                            "sql-implicit": "sql-implicit", "irma-non-production": "irma-scheme"}[ins[0]]
                    if not line.endswith(":" + want):
                        violation("strict-refused-for-other-reason:" + ins[0], f"only insecure setting {ins[0]} but the node says {line}", opl)
            elif not malformed:
                want = f"sys ok dummy={'registered' if op.get('dummy') else 'absent'} remotectx=attempted clientstrict=false earlyclient=followed iamhttp=sent iamip=sent iamsites=same iamvc=sent"
                if line != want and not (op.get("iammatrix") and line.startswith(want + " iammatrix=") and "refused" not in line):
                    violation("lenient-refused:" + (line.split()[1][:40] if line.startswith("sys refuse") else "probe"), f"lenient node with settings {ins}: {line} (expected {want})", opl)
        elif kind == "do":
            m = re.fullmatch(r"do reqs=\[(.*)\] out=(.*)", line)
            if not m:
                continue
            reqs = [r for r in m.group(1).split(",") if r]
            outcomes["do " + ("strict " if strict else "lenient ") + m.group(2).split(":")[0] + (":" + m.group(2).split(":")[1] if m.group(2).startswith("refuse") else "")] += 1
            distinct.add(("do", op.get("ctor"), strict, op.get("late", False), op.get("first"), tuple(op.get("locs") or [])))
            if strict and any(not r.startswith("https://") for r in reqs):
                violation("outbound-non-https:" + op.get("ctor", "") + (":built-before-strict" if op.get("late") else ""), f"strict {op.get('ctor')} client made requests {reqs}", opl)
            if not strict and m.group(2).startswith("refuse:") and "too-many" not in m.group(2):
                violation("lenient-refused:outbound", f"lenient {op.get('ctor')} client refused: {line}", opl)
        elif kind == "src":
            # where the options come from: strict by default, command line > environment > file (judged on the REAL loader's result)
            key, cli, env, fv = op.get("key"), op.get("cli", ""), op.get("env") or [], op.get("fileval")
            outcomes["src " + key + " " + ("refuse" if "refuse" in line else line.split("=", 1)[1][:5] if key == "strictmode" else "value")
                     + (" +configure" if op.get("configure") else "")] += 1
            distinct.add(("src", key, cli, tuple(map(tuple, env)), fv))
            feats_src[0] += 1
            if key != "strictmode":
                if cli and not line.endswith("=" + (cli.split("=", 1)[1].encode().hex() if key == "url" else "[" + "|".join(x.encode().hex() for x in cli.split("=", 1)[1].split(",")) + "]")):
                    violation("source-precedence:cli-lost:" + key, f"{cli} on the command line, loader says {line}", opl)
                continue
            T, F = {"1", "t", "T", "TRUE", "true", "True"}, {"0", "f", "F", "FALSE", "false", "False", ""}
            named = [v for n, v in env if n.startswith("NUTS_") and n.upper() == "NUTS_STRICTMODE"]
            cli_v = None if not cli else (cli.split("=", 1)[1] if "=" in cli else "true")
            says_false = (cli_v in F and cli_v is not None) or any(v.strip() in F for v in named) or fv == "false"
            m = re.fullmatch(r"src strictmode=(true|false)(?: start=(\S+))?", line)
            if not m:
                if not (line == "src refuse:unmarshal" and cli_v is None and named and named[-1].strip() not in T | F):
                    violation("source-load-refused", f"loading strictmode from file={fv} env={env} cli={cli!r}: {line}", opl)
                continue
            feats_src[1] += 1 if m.group(2) else 0
            strict_res = m.group(1) == "true"
            if not strict_res and not says_false:
                violation("strict-off-without-source", f"no source switches strict mode off (file={fv} env={env} cli={cli!r}) but the loaded configuration has strictmode=false", opl)
            if not strict_res and cli_v in T:
                violation("strict-lost:cli-overridden", f"{cli} on the command line but strictmode=false (file={fv} env={env})", opl)
            if not strict_res and cli_v is None and named and named[-1].strip() in T and len(set(v.strip() in T for v in named)) == 1:
                violation("strict-lost:env-overridden", f"environment {env} says strict but strictmode=false (file={fv})", opl)
            if strict_res and cli_v is not None and cli_v in F:
                violation("source-precedence:cli-lost:strictmode", f"{cli} on the command line but strictmode=true", opl)
            if m.group(2):
                if strict_res and m.group(2) == "ok":
                    violation("strict-accepted:url-not-https:via-sources", f"strict mode resolved ON from file={fv} env={env} cli={cli!r} but the node started with a plain-http public URL", opl)
                if not strict_res and m.group(2) != "ok":
                    violation("lenient-refused:via-sources", f"strict mode resolved OFF but the node refused: {line}", opl)
        elif kind == "dummy":
            # the test-only means itself: in strict mode no call may do anything; lenient: it works
            outs = line.split(" ", 1)[1].split(",") if " " in line else []
            outcomes["dummy " + ("strict " if strict else "lenient ") + ("all-refused" if set(outs) == {"not-enabled"} else "acts")] += 1
            distinct.add(("dummy", strict, tuple(op.get("acts", []))))
            feats_dummy.append(strict)
            for a, o in zip(op.get("acts", []), outs):
                if strict and o != "not-enabled":
                    violation("strict-dummy-means-acts:" + a.split(":")[0], f"dummy means in strict mode answered {a} with {o!r} (history {op.get('acts')})", opl)
                    break
                if not strict and (o == "not-enabled" or o.startswith("error:")):
                    violation("lenient-refused:dummy-means:" + a.split(":")[0], f"lenient dummy means answered {a} with {o!r}", opl)
                    break
        elif kind == "cflag":
            # CLI client commands: no option ending in token/password may come from the command line; without one the
            # command must load, and its token is the environment's
            names = [a.split("=", 1)[0] for a in op.get("args", [])]
            secret = [n for n in names if n.endswith("token") or n.endswith("password")]
            outcomes["cflag " + line.split()[1].split(":")[0] + (":cli-secret" if "cli-secret" in line else "") + (" (secret set)" if secret else "")] += 1
            distinct.add(("cflag", tuple(op.get("names", [])), tuple(op.get("args", [])), op.get("envtoken")))
            feats_cflag.append(tuple(names))
            if op.get("cmd"):
                real_cmds.add(op["cmd"])
            if line == "cflag no-such-command":
                violation("client-command-missing:" + op.get("cmd", ""), f"command {op.get('cmd')!r} is not in the tree of CreateCommand any more", opl)
                continue
            if secret and not line.startswith("cflag refuse:cli-secret:"):
                violation(("cli-secret-accepted:client-command:" + op["cmd"].replace(" ", "-")) if op.get("cmd") else ("cli-secret-accepted:client:" + secret[0]), f"CLI client command {op.get('cmd', '(synthetic)')!r} accepted the secret flag(s) {secret} on the command line (flag set {op.get('names')}): {line}", opl)
            elif secret and bytes.fromhex(line.rsplit(":", 1)[1]).decode("latin1") not in secret:
                violation("cli-secret-misreported", f"refusal names a flag that is not a secret set on the command line: {line} (set: {names})", opl)
            elif not secret and not line.startswith("cflag ok token="):
                violation("cli-flags-refused:client", f"CLI client command with flags {names} (no secret among them): {line}", opl)
            elif not secret and bytes.fromhex(line.split("token=", 1)[1]).decode("latin1") != (op.get("envtoken") or ""):
                violation("client-token-not-from-environment", f"no token on the command line, NUTS_TOKEN={op.get('envtoken')!r}, but the client's token is {line.split('token=', 1)[1]!r} (hex)", opl)
        elif kind == "cap":
            # the documented 1 MiB response cap, judged on what the caller of the REAL Do got to read
            n, cap = op.get("body", 0), 1024 * 1024
            m = re.fullmatch(r"cap reqs=(\d+) out=(\S+)(?: len=(\d+) same=(\w+))?", line)
            if not m:
                continue
            res = m.group(2)
            cls = "over" if n > cap else ("at" if n == cap else "under")
            outcomes[f"cap {'strict' if strict else 'lenient'} {cls} {'chunked' if op.get('chunked') else 'content-length'} {res.split(':')[0]}"] += 1
            distinct.add(("cap", n, op.get("chunked", False), strict, op.get("ctor"), len(op.get("locs") or [])))
            feats_default.append(n)
            if res.startswith("ok"):
                if n > cap:
                    violation("response-above-cap-accepted:" + op.get("ctor", ""), f"{op.get('ctor')} client handed out a response of {n} bytes (cap {cap}): {line}", opl)
                elif int(m.group(3)) != n or m.group(4) != "true":
                    violation("response-truncated-silently:" + op.get("ctor", ""), f"server sent {n} bytes, caller of Do read {m.group(3)} (identical={m.group(4)}) without an error", opl)
            elif res == "refuse:too-large":
                if n <= cap:
                    violation("response-within-cap-refused:" + op.get("ctor", ""), f"response of {n} bytes (cap {cap}) refused as too large", opl)
            elif not (strict and (op.get("first", "").startswith("http://") or any(l.startswith("http://") for l in op.get("locs") or []))):
                violation("response-cap-other:" + res[:30], f"unexpected outcome for a {n}-byte response: {line}", opl)
    for sig, (_, what, opline) in sorted(best.items()):
        ctx.violation("C20:" + sig, what, sig.replace(":", "-") + ".jsonl", opline)
    ctx.oblige("oracle:strict-refuses/lenient-accepts/moved-keys/cli-secrets/outbound(impl)", viol == 0, f"{viol} violating cases, signatures: {sorted(best)}")

    # the regenerated flag list is the real one
    if not ctx.replay:
        ff = facts.get("registeredFlags", [])
        ctx.oblige("facts:registered-flags=serverConfigFlags()", sorted(ff) == sorted(set(flag_names)),
                   f"only in facts: {sorted(set(ff) - set(flag_names))[:6]}; only in the binary: {sorted(set(flag_names) - set(ff))[:6]}")
        ctx.oblige("iam-matrix-run", feats_default[1] >= 12 * 9, f"{feats_default[1]} (method, endpoint) calls of the IAM client")
        ctx.oblige("source-rows-run", feats_src[0] >= 100 and feats_src[1] >= 15, f"{feats_src[0]} source combinations, {feats_src[1]} continued into Configure")
        ctx.oblige("tls-file-rows-run", len(set(feats_src[2:])) == 8, f"tls.* subsets run: {sorted(set(feats_src[2:]))}")
        capn = feats_default[2:]
        ctx.oblige("response-cap-rows-run", any(n == 1024 * 1024 for n in capn) and any(n == 1024 * 1024 + 1 for n in capn) and len(capn) >= 30,
                   f"{len(capn)} response-cap cases (sizes incl. exactly 1 MiB and 1 MiB + 1)")
        ctx.oblige("sql-connection-rows-run", len(set(feats_sql)) >= 20 and (True, "lenient", "") in feats_sql,
                   f"{len(feats_sql)} connection-string rows, {len(set(feats_sql))} distinct (mode, data-directory history, adapter) incl. strict + used data directory + no string")
        ctx.oblige("dummy-history-rows-run", feats_dummy.count(True) >= 10 and feats_dummy.count(False) >= 10, f"{len(feats_dummy)} histories on the dummy means")
        ctx.oblige("real-client-commands-run", len(real_cmds) >= 15, f"{len(real_cmds)} commands of the real command tree offer --token; each run with it on the command line")
        ctx.oblige("client-flag-rows-run", len(feats_cflag) >= 50 and ("token",) in feats_cflag and any("token" in f and len(f) > 1 for f in feats_cflag),
                   f"{len(feats_cflag)} CLI-client flag sets incl. --token alone and combined")
        ctx.oblige("default-strict-rows-run", feats_default[0] >= 8, f"{feats_default[0]} configurations without a strictmode key")
        ctx.oblige("exhaustive:option-product", len(product_rows) == PRODUCT_SIZE, f"{len(product_rows)} of {PRODUCT_SIZE} rows of the option product were run")

    if bad:
        i = bad[0]
        detail = f"first differing line {i}\nop   : {ops[i][:1200] if i < len(ops) else None}\nimpl : {impl[i][:1200] if i < len(impl) else None}\nmodel: {model[i][:1200] if i < len(model) else None}"
        ctx.oblige("correspondence:model=impl", False, f"{len(bad)} of {len(impl)} lines differ; " + detail[:900])
        if viol == 0:
            with open(os.path.join(ctx.replay_dir(), "correspondence.jsonl"), "w") as f:
                f.write((ops[i] if i < len(ops) else "") + "\n")
            ctx.unproved(["correspondence C20 (model.out != impl.out)"], detail + f"\nreplay ops: {ctx.replay_dir()}/correspondence.jsonl")
    else:
        ctx.oblige("correspondence:model=impl", True, f"{len(impl)} lines equal")

    ctx.cov["evaluations"] = len(impl)
    ctx.cov["distinct_nontrivial"] = len(distinct)
    ctx.cov["traces_validated_against_impl"] = len(impl) - len(bad)
    ctx.cov["exhaustive"] = (len(product_rows) == PRODUCT_SIZE)
    ctx.cov["rule"] = (f"FULL product of the option table through the real assembled node ({PRODUCT_SIZE} configurations = strictmode(2) x url(6: https domain, http, IP, localhost, "
                       "example.com, unset) x tls(2) x didmethods(3) x crypto.storage(3: unset, fs, invalid) x sql(2) x dummy validator(2) x irma scheme(2)), each followed by per-action "
                       "probes (dummy means, unlisted remote JSON-LD context, client.StrictMode); EVERY registered server flag set on the command line; moved keys via file and "
                       "environment in both modes; ParsePublicURL / IssuerIdToWellKnown on the full (scheme x host) table in both modes plus random decorations; "
                       "New / NewWithCache / NewWithTLSConfig clients against real local TLS+HTTP servers with scripted redirect chains. "
                       "Deepening round: response-cap cases (body sizes around 1 MiB, Content-Length / chunked, behind redirects) through the three constructors; "
                       "strictmode / url / didmethods through the real loader from file x environment (name spellings x raw values) x command line, part continued into Configure; "
                       "all 8 subsets of the tls.* file options x mode x didmethods; spellings of the crypto back-end name. "
                       "Round 3: storage.sql.connection strings (unset, two sqlite files, 4 unknown adapters) x mode x data-directory history (fresh / used by an earlier lenient "
                       "run that left sqlite.db) through the assembled node; core.NewClientConfigForCommand on a real cobra command: every client flag alone, --token combined, "
                       "a command's own flags ending in token/password, NUTS_TOKEN, random flag sets. "
                       "distinct_nontrivial = distinct accepted URLs + flags + option rows + outbound scenarios + source combinations + cap cases")
    ctx.cov["input_distribution"] = {"by_family": dict(tags), "outcomes": dict(outcomes.most_common(60)),
                                     "secret_looking_flags_accepted_on_cli(stated limit)": sorted(set(odd_accepted))}
    ctx.cov["samples"] = [ops[-1][:300] if ops else "", impl[-1][:300] if impl else ""]
