"""C02 — access tokens issued only after the full presentation checks; faithful introspection.
Lean: NutsProofs.Props.C02 over NutsModel.C02.Token + regenerated facts (check chains, TTLs, reserved claims, marshaller).
Correspondence: in-package harness on the real auth/api/iam Wrapper (token endpoint, authorize response, introspection),
real in-memory session store, real local policy backend, real PEX, real PKCE/DPoP; VerifyVP verdicts scripted (gomock).
Direct oracle: every 200 / every introspection answer of the implementation is re-judged from the request material."""
import json, os, re
from collections import Counter

PKG = "auth/api/iam"
# the second file is an add-only exported helper overlaid into package storage (clock control for the in-memory store)
HARNESS = ["auth/api/iam/zz_verif_c02_test.go", "auth/api/iam/zz_verif_c02jar_test.go", "auth/api/iam/zz_verif_c02pol_test.go", "auth/api/iam/zz_verif_c02ro_test.go", "auth/api/iam/zz_verif_c02dpop_test.go", "storage/zz_verif_c02_export.go"]

REQUIRED = [
    "s2s_token_only_if", "s2s_defect_combination_rejected", "claims_cannot_override", "claims_cannot_override_today",
    "authorize_request_only_if", "authorize_response_only_if", "authresp_nonce_at_most_once", "race_at_most_one_accepted", "code_token_only_if", "code_token_independent_of_extra_parameters", "code_token_scope_is_session_scope", "fact_request_members_read", "code_redeemed_at_most_once", "nonce_covers_window",
    "nonce_covers_window_today", "s2s_nonce_store_fault_fails_closed", "introspect_active_only_if_issued", "introspect_faithful",
    "introspect_depends_on_token_store_only", "s2s_all_required_definitions_fulfilled_false", "plain_introspection_members",
    "fact_s2s_chain", "fact_code_token_chain", "fact_authorize_response_chain", "fact_introspect_chain",
    "fact_reserved_covers_fields", "fact_empty_vp_checked", "fact_nonce_ttl_covers_window", "fact_ttls",
    "jar_parse_only_if", "jar_parse_remote_calls", "authorize_endpoint_only_if", "authorize_endpoint_error_leaves_state",
    "token_endpoint_only_if", "token_endpoint_other_grant_rejected",
    "every_session_stems_from_a_signed_request", "code_token_traces_back_to_a_signed_request",
    "request_object_served_only_if", "request_object_burned_by_any_fetch", "leg_request_object_carries_its_nonce", "fact_request_object_endpoints",
    "policy_load_exact", "s2s_scope_comes_from_a_policy_file", "policy_load_error_kinds", "fact_policy_loader",
    "fact_jar_parse_shape", "fact_jar_validate_shape", "fact_params_get", "fact_authorize_dispatch", "fact_token_dispatch", "fact_oauth_names",
    "dpop_valid_only_if", "dpop_not_valid_leaves_state", "dpop_proof_accepted_at_most_once", "dpop_binding_end_to_end", "fact_dpop_validate_shape", "fact_once_only_store_keys", "fact_get_store_shares_database_mutex",
    "fact_verifyvp_args", "fact_audience_exact", "fact_deciding_conditions", "fact_windows", "fact_store_prefixes_distinct", "fact_introspection_fields", "fact_access_token_init", "fact_introspection_init",
]

STD = ["active", "aud", "client_id", "cnf", "exp", "iat", "iss", "presentation_definitions", "presentation_submissions", "scope", "vps"]


def parse_kv(line):
    """'ok k=v k=v' -> dict (values are compact JSON without spaces, except strings, which the generator keeps space-free)"""
    d = {}
    for part in line.split(" ")[1:]:
        if "=" in part:
            k, v = part.split("=", 1)
            d[k] = v
    return d


class Oracle:
    """re-judges the implementation's own answers from the request material (no model involved)"""

    def __init__(self, facts):
        self.f = facts
        ns = 1000000  # operation times and presentation time stamps are in ns
        # the windows the property speaks of are SPEC values (Nuts RFC021 / documented), not whatever the source says today:
        # a changed constant must show up as a violation, not move the expectation (fact_windows pins them too)
        self.max_validity = 5000 * ns
        self.skew = 5000 * ns
        self.validity = 900000 * ns
        self.flow = 60000 * ns
        self.findings = []  # (signature, text, op indexes)
        self.reset(None)

    def reset(self, cfg):
        self.cfg = cfg
        self.cfg_i = None
        self.tokens = {}     # name -> (op index, op, flow)
        self.accepted = {}   # nonce -> list of (op index, t, vp)
        self.sessions = {}   # state -> {"spec", "t" (last put), "fulfilled", "nonces": {name: put time}, "i"}
        self.nonce_used = set()
        self.codes = {}      # code name -> {"session", "t", "redeemed", "i"}
        self.legs = {}       # request object name -> the leg that announced it
        self.jtis = {}       # jti of a proof of possession answered valid -> (op index, t)
        self.tok_exp = {}    # token name -> (op index, exact expiry instant of the stored record) after a tokskew fixture

    def policy(self, scope):
        for p in self.cfg.get("policy", []):
            if p["scope"] == scope:
                return p["defs"]
        return None

    def vp_time_ok(self, vp, t):
        if vp.get("untimed"):
            return True
        c, e = vp.get("created"), vp.get("expires")
        if c is not None and c > t + self.skew:
            return False
        if e is not None and e + self.skew < t:
            return False
        return True

    def bad(self, sig, text, idx):
        self.findings.append(("C02:" + sig, text, idx))

    def judge_s2s(self, i, op, line):
        if not line.startswith("200 "):
            return
        t = op["t"]
        issuer = self.cfg["publicURL"] + "/oauth2/" + op.get("subject", "")
        why = []
        if op.get("subject") not in self.cfg["subjects"]:
            why.append("unknown-subject")
        if not op.get("params") or not op.get("envelope_ok") or not op.get("submission_ok"):
            why.append("malformed-request")
        if (op.get("dpop") or {}).get("kind") == "invalid":
            why.append("invalid-dpop")
        signers = set()
        for vp in (op.get("vps") or []):
            c, e = vp.get("created"), vp.get("expires")
            if c is None or e is None or e - c > self.max_validity:
                why.append("validity-window")
            if not vp.get("verifies") or not self.vp_time_ok(vp, t):
                why.append("presentation-does-not-verify")
            if issuer not in vp.get("aud", []):
                why.append("audience")
            if not vp.get("nonce"):
                why.append("missing-nonce")
            sg = vp.get("signer")
            signers.add(sg)
            if sg is None or any(s != sg for s in (vp.get("subjects") or [])):
                why.append("signer-is-not-subject-of-all-credentials")
        if len(signers) > 1:
            self.bad("s2s-token-for-presentations-of-different-subjects",
                     f"op {i}: 200 although the presentations are signed by {sorted(map(str, signers))}", [i])
        nonces = [vp.get("nonce") for vp in (op.get("vps") or [])]
        if len(set(nonces)) != len(nonces):
            why.append("nonce-used-twice-in-request")
        # replay: a presentation with this nonce was accepted before and that presentation is still inside the
        # verifier's acceptance window now
        for vp in (op.get("vps") or []):
            for (j, t1, v1) in self.accepted.get(vp.get("nonce"), []):
                if self.vp_time_ok(v1, t) and abs((v1.get("expires") or 0) + self.skew - t) > 200e6:
                    self.bad("s2s-presentation-nonce-accepted-twice-within-validity-window",
                             f"ops {j} and {i}: nonce {vp.get('nonce')} accepted at t and t+{(t - t1) // 10**6} ms; the first presentation "
                             f"(created t{(v1['created'] - t1) // 10**6:+d} ms, expires t{(v1['expires'] - t1) // 10**6:+d} ms) is still accepted by the verifier "
                             f"until expires+{self.skew // 10**6} ms", [j, i])
        defs = self.policy(op.get("scope"))
        if defs is None:
            why.append("scope-not-configured")
        else:
            target = [d for d in defs if d["id"] == op.get("def_id")]
            if not target:
                why.append("definition-not-configured-for-scope")
            elif target[0]["key"] not in (op.get("pex") or []) or op.get("pex_expected") is False:
                # real PEX verdict, or the generator's ground truth where it knows (a PEX engine that accepts too much)
                why.append("submission-does-not-validate")
            if len(defs) > 1 and target:
                self.bad("s2s-token-with-unfulfilled-required-definition",
                         f"op {i}: scope {op.get('scope')} requires {[d['owner'] + ':' + d['id'] for d in defs]}, token issued on {op.get('def_id')} alone", [i])
        for wname in sorted(set(why)):
            self.bad("s2s-token-issued-despite:" + wname, f"op {i}: 200 for a request with defect {wname} ({op.get('defects')})", [i])
        got_scope = dict(x.split("=", 1) for x in line.split()[1:] if "=" in x).get("scope")
        if got_scope != op.get("scope"):
            self.bad("s2s-token-scope-differs-from-requested-scope", f"op {i}: requested {op.get('scope')!r}, token response says {got_scope!r} (extra parameters {op.get('extra_form')})", [i])
        name = line.split()[1].split("=", 1)[1]
        self.tokens[name] = (i, op, "s2s")
        for vp in (op.get("vps") or []):
            self.accepted.setdefault(vp.get("nonce"), []).append((i, t, vp))

    def judge_authresp(self, i, op, line):
        if not line.startswith("200 "):
            return
        t = op["t"]
        flow = self.flow
        why = []
        sess = self.sessions.get(op.get("state"))
        if sess is None:
            self.bad("authresp-accepted-without-session", f"op {i}: 200 for state {op.get('state')!r} that no authorization request created", [i])
            return
        spec = sess["spec"]
        if t > sess["t"] + flow:
            why.append("session-expired")
        if op.get("subject") != spec["own_subject"]:
            why.append("other-tenant")
        if not op.get("vp_token") or not op.get("envelope_ok") or not op.get("submission") or not op.get("submission_ok"):
            why.append("malformed-request")
        issuer = self.cfg["publicURL"] + "/oauth2/" + spec["own_subject"]
        vps = op.get("vps") or []
        if not vps:
            why.append("no-presentation")
        signers, challenges = set(), set()
        for vp in vps:
            if not vp.get("verifies") or not self.vp_time_ok(vp, t):
                why.append("presentation-does-not-verify")
            if issuer not in (vp.get("aud") or []):
                why.append("audience")
            sg = vp.get("signer")
            signers.add(sg)
            if sg is None or any(x != sg for x in (vp.get("subjects") or [])):
                why.append("signer-is-not-subject-of-all-credentials")
            challenges.add(vp.get("challenge") or vp.get("nonce") or "")
        if len(signers) > 1:
            why.append("presentations-of-different-subjects")
        if len(challenges) != 1 or "" in challenges:
            why.append("nonce-missing-or-not-unique")
        else:
            n = next(iter(challenges))
            if n not in sess["nonces"]:
                why.append("nonce-not-bound-to-this-state")
            elif t > sess["nonces"][n] + flow:
                why.append("nonce-expired")
            if (op.get("state"), n) in self.nonce_used:
                why.append("nonce-used-before")
            self.nonce_used.add((op.get("state"), n))
        target = [d for d in spec["required"] if d["id"] == op.get("def_id")]
        if not target:
            why.append("definition-not-required")
        else:
            if target[0]["key"] not in (op.get("pex") or []) or op.get("pex_expected") is False:
                why.append("submission-does-not-validate")
            if op.get("def_id") in sess["fulfilled"]:
                why.append("definition-already-fulfilled")
        done = set(sess["fulfilled"]) | {op.get("def_id")}
        complete = all(d["id"] in done for d in spec["required"])
        if line.startswith("200 code=") and not complete:
            self.bad("authorization-code-issued-with-unfulfilled-definition", f"op {i}: code issued, fulfilled {sorted(done)} of {[d['id'] for d in spec['required']]}", [sess["i"], i])
        if line.startswith("200 next=") and complete:
            why.append("no-code-although-complete")
        for wname in sorted(set(why)):
            self.bad("authresp-accepted-despite:" + wname, f"op {i}: {line[:60]} for an authorization response with defect {wname} ({op.get('defects')})", [sess["i"], i])
        sess["fulfilled"].append(op.get("def_id"))
        sess["t"] = t
        sess.setdefault("trail", []).append(i)
        if line.startswith("200 code="):
            name = line.split()[1].split("=", 1)[1]
            self.codes[name] = {"session": sess, "t": t, "redeemed": False, "i": i}
        else:
            sess["nonces"][line.split()[2].split("=", 1)[1]] = t

    def judge_code(self, i, op, line):
        if not line.startswith("200 "):
            return
        import hashlib, base64
        t = op["t"]
        flow = self.flow
        c = self.codes.get(op.get("code"))
        if c is None:
            self.bad("token-for-unknown-authorization-code", f"op {i}: 200 for code {op.get('code')!r} that was never issued", [i])
            return
        spec = c["session"]["spec"]
        why = []
        if c["redeemed"]:
            why.append("code-redeemed-twice")
        if t > c["t"] + flow:
            why.append("code-expired")
        if op.get("client_id") != spec["client_id"]:
            why.append("client_id-mismatch")
        v = op.get("verifier")
        digest = base64.urlsafe_b64encode(hashlib.sha256((v or "").encode()).digest()).decode().rstrip("=")
        if v is None or spec["method"] != "S256" or digest != spec["challenge"]:
            why.append("pkce-verifier-mismatch")
        if op.get("subject") not in self.cfg["subjects"]:
            why.append("unknown-subject")
        if (op.get("dpop") or {}).get("kind") == "invalid":
            why.append("invalid-dpop")
        for wname in sorted(set(why)):
            self.bad("code-token-issued-despite:" + wname, f"op {i}: 200 for a token request with defect {wname} ({op.get('defects')})",
                     [c["session"]["i"]] + c["session"].get("trail", []) + [i])
        got_scope = dict(x.split("=", 1) for x in line.split()[1:] if "=" in x).get("scope")
        if got_scope != spec["scope"]:
            self.bad("code-token-scope-differs-from-authorized-scope",
                     f"op {i}: the authorization request (and the fulfilled definitions) were for scope {spec['scope']!r}, the token response says {got_scope!r} "
                     f"(extra token-request parameters {op.get('extra_form')})", [c["session"]["i"]] + c["session"].get("trail", []) + [i])
        c["redeemed"] = True
        name = line.split()[1].split("=", 1)[1]
        op["_session"] = spec
        self.tokens[name] = (i, op, "code")

    def expected_std(self, name):
        i, op, flow = self.tokens[name]
        t = op["t"]
        exp = {"active": "true", "iat": str(t // 10**9), "exp": str((t + self.validity) // 10**9)}
        if flow == "s2s":
            exp["iss"] = json.dumps(self.cfg["publicURL"] + "/oauth2/" + op["subject"])
            exp["client_id"] = json.dumps(op["client_id"])
            exp["scope"] = json.dumps(op["scope"])
        else:
            s = op["_session"]
            exp["iss"] = json.dumps(self.cfg["publicURL"] + "/oauth2/" + s["own_subject"])
            exp["client_id"] = json.dumps(s["client_id"])
            exp["scope"] = json.dumps(s["scope"])
        d = op.get("dpop") or {}
        if d.get("kind") == "valid":
            exp["cnf"] = '{"jkt":"%s"}' % d["jkt"]
        return exp, t

    def judge_introspect(self, i, op, line):
        tok = op.get("token", "")
        if tok not in self.tokens:
            if line != "ok active=false":
                self.bad("introspection-active-for-unknown-token", f"op {i}: token {tok!r} was never issued, answer: {line[:120]}", [i])
            return
        exp, t0 = self.expected_std(tok)
        j = self.tokens[tok][0]
        t = op["t"]
        if tok in self.tok_exp:
            # the record's Expiration was moved (fixture): active => now <= expiration, at exact instants
            k, e = self.tok_exp[tok]
            if t > e and line != "ok active=false":
                self.bad("introspection-active-after-expiry", f"ops {j},{k},{i}: the record expired {(t - e) / 10**6:.3f} ms before the introspection, answer: {line[:120]}", [j, k, i])
            return
        if abs(t - (t0 + self.validity)) < 1000:
            return  # within a microsecond of the expiry instant
        if t > t0 + self.validity:
            if line != "ok active=false":
                self.bad("introspection-active-after-expiry", f"ops {j},{i}: token issued at t answered at t+{(t - t0) // 10**6} ms: {line[:120]}", [j, i])
            return
        if line.startswith("err:reserved-claim:"):
            return  # the call errors: allowed by the property ("or the call errors")
        if not line.startswith("ok "):
            self.bad("introspection-fails", f"ops {j},{i}: {line[:160]}", [j, i])
            return
        got = parse_kv(line)
        std_names = sorted(set(STD) | set(self.f["introspectionFields"]))
        for k in std_names:
            want = exp.get(k)
            if op.get("extended") and k in ("vps", "presentation_definitions", "presentation_submissions"):
                continue  # judged by the correspondence (digests)
            if got.get(k) != want:
                self.bad("introspection-standard-field-differs-from-issuance:" + k,
                         f"ops {j},{i}: member {k!r} is {got.get(k)!r}, established at issuance: {want!r}", [j, i])

    def judge_authreq(self, i, op, line):
        if line.startswith("302 "):
            f = dict(x.split("=", 1) for x in line.split()[1:])
            why = []
            if op.get("aud") != self.cfg["publicURL"] + "/oauth2/" + op.get("subject", ""):
                why.append("request-addressed-to-another-server")
            if not op.get("challenge") or op.get("method") != "S256":
                why.append("no-S256-pkce-challenge")
            if self.policy(op.get("scope")) is None:
                why.append("scope-not-configured")
            if not op.get("redirect_uri"):
                why.append("missing-redirect_uri")
            for wname in why:
                self.bad("authorization-request-accepted-despite:" + wname, f"op {i}: {line[:60]} ({op.get('defects')})", [i])
            spec = {"client_id": op.get("client_id"), "scope": op.get("scope"), "own_subject": op.get("subject"),
                    "challenge": op.get("challenge"), "method": op.get("method"), "client_state": op.get("client_state"),
                    "required": self.policy(op.get("scope")) or []}
            self.sessions[f["state"]] = {"spec": spec, "t": op["t"], "fulfilled": [], "nonces": {f["nonce"]: op["t"]}, "i": i}

    # spec values of RFC 6749 / Nuts RFC021 (a changed constant must show up as a violation)
    GRANT = {"s2s": "vp_token-bearer", "code": "authorization_code"}

    def judge_grant(self, i, op, line):
        g = op.get("grant_type")
        if g is not None and line.startswith("200 ") and g != self.GRANT[op["op"]]:
            self.bad("token-issued-for-another-grant_type", f"op {i}: a {op['op']} request sent with grant_type {g!r} was answered {line[:50]}", [i])

    def judge_authz(self, i, op, line):
        """a request at the authorization endpoint: 302 only for a request object that is (1) the only one given, (2) retrievable by the
        announced method, (3) signed - untampered, inside its validity - by the key the client's DID document AND the client's OpenID
        configuration list under the kid, (4) naming the client_id of the query; the session is then built from the SIGNED parameters only"""
        m = re.match(r"calls=\[(.*?)\] (.*)$", line)
        if not m:
            return
        calls, res = m.group(1).split(), m.group(2)
        q = op.get("q") or {}
        req, uri, meth, qcid = q.get("request", ""), q.get("request_uri", ""), q.get("request_uri_method", ""), q.get("client_id", "")
        toks = {t["raw"]: t for t in op.get("tokens") or []}
        # no remote call for an unauthenticated / unusable request: at most one fetch, at the announced URI, and the client configuration
        # only for the client_id the signed object names
        for c in calls:
            if c.startswith(("get(", "post(")) and c[c.index("(") + 1:-1] != uri:
                self.bad("authorization-endpoint-fetches-foreign-uri", f"op {i}: {c} but request_uri={uri!r}", [i])
            if c.startswith("post-with-foreign-metadata("):
                self.bad("request-object-post-with-foreign-metadata", f"op {i}: {c}", [i])
            if c.startswith("RESOLVED-WITH-RELATION"):
                self.bad("request-object-key-resolved-for-other-relation", f"op {i}: {c}", [i])
        if not res.startswith("302 "):
            return
        why = []
        if not op.get("enabled"):
            why.append("endpoint-disabled")
        if op.get("subject") not in self.cfg["subjects"]:
            why.append("unknown-subject")
        raw = None
        if req and uri:
            why.append("request-and-request_uri-both-given")
            raw = req  # (what follows is judged on the object given by value)
        elif req:
            raw = req
        elif uri:
            table = []
            if meth in ("", "get"):
                table = op.get("get") or []
            elif meth == "post":
                table = op.get("post") or []
            else:
                why.append("unsupported-request_uri_method")
            for e in table:
                if e["in"] == uri:
                    raw = e.get("out") if e.get("ok") else None
                    break
            if raw is None:
                why.append("request-object-not-retrievable")
        else:
            why.append("no-signed-request-object")
        tok = toks.get(raw) if raw is not None else None
        spec = {}
        if raw is not None and tok is None:
            why.append("request-object-is-not-a-jwt")
        if tok is not None:
            spec = tok.get("claims_spec") or {}
            resolver = {}
            for e in reversed(op.get("resolver") or []):
                resolver[e["kid"]] = e["key"]
            if tok.get("tamper"):
                why.append("request-object-" + tok["tamper"])
            if not tok.get("kid") or resolver.get(tok["kid"]) != tok["signer"]:
                why.append("request-object-not-signed-by-the-resolved-key")
            if spec.get("client_id") != qcid or not isinstance(spec.get("client_id"), str):
                why.append("client_id-differs-from-signed-claim")
            cfgs = [c for c in op.get("configs") or [] if c["client"] == qcid]
            if not cfgs or not cfgs[0].get("ok"):
                why.append("client-configuration-unavailable")
            else:
                keys = [k for k in cfgs[0].get("keys") or [] if k["kid"] == tok.get("kid")]
                if not keys:
                    why.append("client-does-not-own-signer-key")
                elif keys[0]["key"] != tok["signer"]:
                    why.append("signer-key-differs-from-client-configuration")
            if spec.get("response_type") != "code":
                why.append("response_type-not-code")
        for wname in why:
            self.bad("authorization-request-accepted-despite:" + wname, f"op {i}: {res[:60]} (jar defects {op.get('jar_defects')}, calls {calls})", [i])

        def s(k):
            v = spec.get(k)
            if isinstance(v, list) and len(v) == 1 and k == "aud":
                v = v[0]
            return v if isinstance(v, str) else ""
        # the session must be the one the SIGNED parameters describe (unsigned look-alikes in the query are ignored)
        signed = {"op": "authreq", "t": op["t"], "subject": op.get("subject"), "aud": s("aud"), "client_id": s("client_id"), "scope": s("scope"),
                  "challenge": s("code_challenge"), "method": s("code_challenge_method"), "client_state": s("state"),
                  "redirect_uri": s("redirect_uri"), "defects": op.get("jar_defects")}
        self.judge_authreq(i, signed, res)

    def note_legs(self, i, op, line):
        """every OpenID4VP leg announces one request object, named after the leg's nonce"""
        toks = re.split(r"[ \[\]]+", line)
        for k, x in enumerate(toks):
            if not x.startswith("nonce=on#"):
                continue
            owner, state = None, None
            if k > 0 and toks[k - 1].startswith("next="):
                owner, state = toks[k - 1][5:], op.get("state")
            else:
                if k > 0 and toks[k - 1].startswith("state="):
                    state = toks[k - 1][6:]
                if k + 1 < len(toks) and toks[k + 1].startswith("owner="):
                    owner = toks[k + 1][6:]
            subject = op.get("subject")
            if op.get("op") in ("authresp", "race") and state in self.sessions:
                subject = self.sessions[state]["spec"].get("own_subject", subject)
            self.legs["ro:" + x[6:]] = {"subject": subject, "owner": owner, "state": state, "nonce": x[6:], "t": op["t"], "i": i, "attempts": []}

    def judge_reqobj(self, i, op, line):
        """a request object is handed out (signed) only to the first fetch, under the tenant that opened the leg, by the method the
        leg announced (user wallet: post, organization wallet: get), and it carries exactly the leg's nonce and state"""
        leg = self.legs.get(op.get("id"))
        if line.startswith("ok "):
            got = dict(x.split("=", 1) for x in line.split(" ")[1:] if "=" in x)
            if "SIGNED-WITH-KEY-OF" in line:
                self.bad("request-object-signed-with-foreign-key", f"op {i}: {line[-80:]}", [i])
            if leg is None:
                self.bad("request-object-served-for-unknown-id", f"op {i}: id {op.get('id')!r}", [i])
            else:
                idx = [leg["i"]] + leg["attempts"] + [i]
                if leg["attempts"]:
                    self.bad("request-object-served-twice", f"ops {leg['attempts']} and {i}: request object {op.get('id')} was already fetched", idx)
                if op.get("subject") != leg["subject"]:
                    self.bad("request-object-served-under-another-tenant", f"op {i}: leg of {leg['subject']!r}, fetched under {op.get('subject')!r}", idx)
                want = "post" if leg["owner"] == "user" else "get"
                if op.get("method") != want:
                    self.bad("request-object-served-by-the-other-method", f"op {i}: announced {want}, fetched by {op.get('method')}", idx)
                if got.get("nonce") != leg["nonce"] or got.get("state") != leg["state"]:
                    self.bad("request-object-carries-another-nonce-or-state", f"op {i}: leg nonce/state {leg['nonce']}/{leg['state']}, object {got.get('nonce')}/{got.get('state')}", idx)
                if op["t"] > leg["t"] + self.validity:
                    self.bad("request-object-served-after-expiry", f"op {i}", idx)
        if leg is not None:
            leg["attempts"].append(i)

    @staticmethod
    def url_core(u):
        """host (without port) + path of a URL: what a DPoP proof binds (RFC 9449: htu without query and fragment)"""
        u = re.sub(r"^[A-Za-z][A-Za-z0-9+.-]*://", "", u)
        u = re.split(r"[?#]", u, 1)[0]
        host, slash, path = u.partition("/")
        return host.split(":")[0] + slash + path

    def judge_dpopval(self, i, op, line):
        """ValidateDPoPProof: `valid` only for a well-formed proof signed by the key whose thumbprint the caller named (the
        cnf.jkt established at issuance), for this method, this URL and this access token, and used for the first time"""
        if line != "valid":
            return
        d = op["dpv"]
        t = op["t"]
        if d.get("broken") or not d.get("htm") or not d.get("htu") or not d.get("jti"):
            self.bad("dpop-proof-valid-despite:unparseable-or-unsigned", f"op {i}: proof {d.get('broken') or 'without htm/htu/jti'} answered valid", [i])
        if d.get("thumb_from"):
            # the thumbprint came from the real introspection of that token: the proof must be by the key the token was bound to at
            # issuance, and the token must still be active
            src = self.tokens.get(d["thumb_from"])
            bound = ((src[1].get("dpop") or {}) if src else {})
            if src is None or bound.get("kind") != "valid" or bound.get("idx", 0) % 3 != d["key"] % 3:
                self.bad("dpop-proof-valid-despite:signed-by-another-key-than-the-bound-one",
                         f"op {i}: proof signed by key {d['key']}, token {d['thumb_from']!r} bound at issuance to {bound or 'no key'}", [src[0], i] if src else [i])
            elif t > src[1]["t"] + self.validity + 1000:
                self.bad("dpop-proof-valid-for-expired-token", f"ops {src[0]},{i}: key binding of a token issued {(t - src[1]['t']) // 10**6} ms ago", [src[0], i])
        elif d["key"] % 3 != d["thumb_key"] % 3 or d.get("thumb_var"):
            self.bad("dpop-proof-valid-despite:signed-by-another-key-than-the-bound-one",
                     f"op {i}: proof signed by key {d['key']}, thumbprint supplied: key {d['thumb_key']} {d.get('thumb_var', '')}", [i])
        if d["method"] != d["htm"]:
            self.bad("dpop-proof-valid-despite:another-method", f"op {i}: proof for {d['htm']!r}, request {d['method']!r}", [i])
        if self.url_core(d["htu"]) != self.url_core(d["url"]) or "%zz" in d["htu"] + d["url"]:
            self.bad("dpop-proof-valid-despite:another-url", f"op {i}: proof for {d['htu']!r}, request {d['url']!r}", [i])
        if d.get("ath_kind") or (d.get("ath_of") and d["ath_of"] != d["token"]):
            self.bad("dpop-proof-valid-despite:not-bound-to-this-access-token",
                     f"op {i}: ath {d.get('ath_kind') or 'of ' + d.get('ath_of', '')}, token under validation {d['token']!r}", [i])
        if op.get("fault") == "jti-get":
            self.bad("dpop-proof-valid-despite:jti-store-failure", f"op {i}: the read of the jti entry failed, answer valid", [i])
        prev = self.jtis.get(d["jti"])
        if prev is not None and t - prev[1] < self.validity - 10**9:
            self.bad("dpop-proof-accepted-twice-within-token-lifetime",
                     f"ops {prev[0]} and {i}: jti {d['jti']!r} answered valid at t and t+{(t - prev[1]) // 10**6} ms", [prev[0], i])
        self.jtis[d["jti"]] = (i, t)

    def judge_polload(self, i, op, line):
        """policy directory -> mapping: judged from the generated files only (suffix .json, not a directory)"""
        loaded = [e for e in op.get("entries") or [] if not e.get("is_dir") and e["name"].endswith(".json")] if op.get("dir") == "present" else []
        invalid = [e["name"] for e in loaded if not e.get("ok")]
        owners = {}
        for e in loaded:
            for sc in e.get("scopes") or []:
                owners.setdefault(sc["scope"], []).append((e["name"], sc))
        twice = sorted(k for k, v in owners.items() if len(v) > 1)
        if line.startswith("ok"):
            if op.get("dir") == "unreadable":
                self.bad("policy-loaded-from-unreadable-directory", f"op {i}", [i])
            if invalid:
                self.bad("policy-loaded-despite-invalid-file", f"op {i}: {invalid}", [i])
            if twice and not invalid:
                self.bad("policy-loaded-despite-scope-defined-twice", f"op {i}: scopes {twice}", [i])
            got = dict(x.split("=", 1) for x in line.split(" ")[1:] if "=" in x)
            if not invalid and not twice:
                for scope in op.get("probes") or []:
                    exp = "-"
                    if scope in owners:
                        exp = ",".join(sorted(d["owner"] + ":" + d["id"] for d in owners[scope][0][1]["defs"]))
                    if got.get(scope) != exp:
                        self.bad("policy-definitions-differ-from-the-files", f"op {i}: scope {scope!r}: configured {exp!r}, answered {got.get(scope)!r}", [i])
        elif line.startswith("err:") and op.get("dir") != "unreadable" and not invalid and not twice:
            self.bad("policy-load-refused-a-valid-directory", f"op {i}: {line} ({[e['name'] for e in op.get('entries') or []]})", [i])

    def feed(self, i, op, line):
        self.feed1(i, op, line)
        if op.get("op") in ("authreq", "authz", "authresp", "race"):
            self.note_legs(i, op, line)

    def feed1(self, i, op, line):
        kind = op.get("op")
        if kind == "cfg":
            self.reset(op)
            self.cfg_i = i
        elif kind == "s2s":
            self.judge_grant(i, op, line)
            self.judge_s2s(i, op, line)
        elif kind == "introspect":
            self.judge_introspect(i, op, line)
        elif kind == "authreq":
            self.judge_authreq(i, op, line)
        elif kind == "authz":
            self.judge_authz(i, op, line)
        elif kind == "polload":
            self.judge_polload(i, op, line)
        elif kind == "reqobj":
            self.judge_reqobj(i, op, line)
        elif kind == "dpopval":
            self.judge_dpopval(i, op, line)
        elif kind == "tokskew":
            if line == "skewed":
                self.tok_exp[op["token"]] = (i, op["t"] - op["ms"] * 10**6)
        elif kind == "onceonly":
            m = re.match(r"once-only max-fresh=(\d+)$", line)
            if m and int(m.group(1)) > 1:
                self.bad("once-only-registration-granted-to-concurrent-requests", f"op {i}: {op.get('ms')} concurrent requests registered the same fresh s2s nonce, {m.group(1)} were told it was fresh", [i])
        elif kind == "seed":
            self.sessions[op["state"]] = {"spec": op["session"], "t": op["t"], "fulfilled": [], "nonces": {op["nonce"]: op["t"]}, "i": i}
        elif kind == "authresp":
            self.judge_authresp(i, op, line)
        elif kind == "race":
            # two overlapping posts of ONE presentation / nonce under a forced schedule: at most one may be accepted
            m = re.match(r"race A\[(.*)\] B\[(.*)\]$", line)
            outs = list(m.groups()) if m else []
            accepted = [o for o in outs if o.startswith("200 ")]
            if len(accepted) > 1:
                self.bad("authorization-response-accepted-twice-for-one-nonce",
                         f"op {i}: schedule {op.get('schedule')} (steps {op.get('trace')}): both overlapping posts of the same presentation were accepted: {outs}", [i])
            order = outs if (op.get("schedule") or [0])[0] == 0 else outs[::-1]
            for o in order:
                self.judge_authresp(i, op, o)
        elif kind == "code":
            self.judge_grant(i, op, line)
            self.judge_code(i, op, line)


def world_slices(ops):
    """index ranges [cfg, next cfg)"""
    starts = [i for i, o in enumerate(ops) if o.get("op") == "cfg"] + [len(ops)]
    return [(starts[k], starts[k + 1]) for k in range(len(starts) - 1)]


def run(ctx):
    facts = ctx.facts()
    thms = ctx.build_and_audit(["NutsProofs.Props.C02"])
    for r in REQUIRED:
        if not any(t.endswith("Props." + r) for t in thms):
            ctx.oblige("thm-present:" + r, False, "theorem missing or its module does not build")
    ctx.trusted += [
        "modelled, not verified: Verifier.VerifyVP (verdict is data; its JSON-LD time window is modelled from ProofOptions.ValidAt and the verifier's maxSkew), "
        "PEX PresentationSubmission.Validate and constraint-id resolution (verdict/claims are data; C12), dpop.Parse, go-did parsing of presentations, "
        "SHA-256/base64 of the PKCE verifier (digests are data), crypto.GenerateNonce (fresh names), encoding/json",
        "model scope: api.go HandleTokenRequest / introspectAccessToken / IntrospectAccessToken(Extended), s2s_vptoken.go, validation.go, session.go (PEXConsumer), "
        "access_token.go, openid4vp.go (handleAuthorizeResponseSubmission, validatePresentationNonce, handleAccessTokenRequest), pkce_util.go, "
        "storage/session.go (Get/Put/Delete/GetAndDelete on the in-memory store), generated MarshalJSON of the introspection response",
        "deepening 2026-09-28, model scope added: jar.go Parse / validate / compareThumbprint, params.go get, api.go HandleAuthorizeRequest / handleAuthorizeRequest (response_type switch) / "
        "HandleTokenRequest (grant_type switch), first three checks of handleAuthorizeRequestFromVerifier, policy/local.go Configure / loadFromDirectory / loadFromFile; "
        "modelled, not verified there: crypto.ParseJWT / jwx (signature verdict of a request object = generator ground truth, claim types from the real parser), key thumbprints (abstract key index), "
        "IAMClient and key resolver (scripted), JSON-schema validation of policy files (generator ground truth)",
        "harness: VerifyVP is a gomock stub with scripted verdicts that also evaluates the real ProofOptions.ValidAt on a virtual clock; "
        "clock advance is realised by ageing every stored session entry (time translation); JSON-LD presentations only",
    ]
    ctx.assumptions += [
        "DIDs that parse are non-empty (go-did): no presentation signer / credential subject is the empty DID",
        "token and code identifiers from crypto.GenerateNonce are fresh (model: consecutive numbers)",
        "the in-memory session store is used (entry visible while now <= put time + ttl); per-operation atomicity only (races are C05)",
        "interpretation: maximum validity and unseen nonce are enforced in the vp_token-bearer grant only; in the authorization-code flow the nonce is "
        "server-issued, bound to the state and burned, and NO maximum validity is checked (visible in the theorem statements)",
    ]
    ctx.notes += [
        "defects repaired: 637a39a (claims named cnf/aud/vps/presentation_definitions/presentation_submissions overrode introspection members), "
        "375d6d0 (s2s nonce TTL 10 s < acceptance window 15 s: presentation replay; also confirmed on the real clock with TestVerifC02RealTime), "
        "6c1cde3 (credential-less presentation reset the expected subject). Open: s2s grant fulfils one of two configured definitions.",
        "not covered: the real verifier (VerifyVP is scripted; C01), JWT presentations get the JSON-LD window rule from the stub (wider than the real nbf/exp check), "
        "memcached session store, "
        "concurrent requests other than two overlapping posts of one authorization response (C05), HTTP routing/binding of the generated server wrapper (handlers are called through the StrictServerInterface methods), "
        "legacy v1 auth/services/oauth/authz_server.go (JWT-bearer grant of the n2n flow) is outside the model",
    ]
    if facts is None:
        return
    import vlib
    binary = ctx.go_test_binary(PKG, HARNESS, "c02")
    if binary is None:
        ctx.oblige("harness-builds", False, ctx.harness_error[-1500:])
        return
    ctx.oblige("harness-builds", True)
    env = {"VERIF_C02_SKEW_MS": facts["verifierMaxSkewMs"], "VERIF_C02_FIELDS": ",".join(facts["introspectionFields"])}
    corpus = os.path.join(vlib.ROOT, "harness", "corpus", "C02")
    if ctx.replay:
        env["VERIF_REPLAY"] = os.path.abspath(ctx.replay)
    else:
        env["VERIF_CORPUS"] = corpus
        env["VERIF_WORLDS"] = 10000 if ctx.thorough else 400
    rc, log, out = ctx.run_harness(binary, "TestVerifC02", env, timeout=3000)
    if rc != 0:
        ctx.oblige("harness-runs", False, log[-1500:])
        return
    ctx.oblige("harness-runs", True)
    ops_p, impl_p, model_p = (os.path.join(out, x) for x in ("ops.jsonl", "impl.out", "model.out"))
    ok, err = ctx.model("C02", ops_p, model_p)
    ctx.oblige("model-driver-runs", ok, err[-500:])
    impl, model, bad = ctx.compare(impl_p, model_p)
    op_lines = ctx.read_lines(ops_p)
    ops = [json.loads(l) for l in op_lines if l]

    # ---- direct property oracle on the implementation's own outputs
    orc = Oracle(facts)
    for i, (op, line) in enumerate(zip(ops, impl)):
        orc.feed(i, op, line)
    slices = world_slices(ops)

    def world_of(i):
        for a, b in slices:
            if a <= i < b:
                return a, b
        return 0, len(ops)

    def clean(o):
        return json.dumps({k: v for k, v in o.items() if not k.startswith("_")})

    seen = set()
    new_sigs = []
    for sig, text, idx in orc.findings:
        if sig in seen:
            continue
        seen.add(sig)
        a, b = world_of(idx[0])
        # replay = the world's configuration + every state-changing op up to the last op involved (time advances included)
        keep = [a] + [k for k in range(a + 1, idx[-1] + 1)
                      if k in idx or ops[k].get("op") in ("advance", "seed", "authresp", "authreq", "authz", "race", "reqobj", "tokskew") or (ops[k].get("op") == "dpopval" and impl[k] == "valid") or (ops[k].get("op") in ("s2s", "code") and impl[k].startswith("200"))]
        replay = "\n".join(clean(ops[k]) for k in keep) + "\n"
        if ctx.violation(sig, text, re.sub(r"[^A-Za-z0-9_.-]+", "_", sig.split(":", 1)[1])[:80] + ".jsonl", replay):
            new_sigs.append(sig)
    ctx.oblige("oracle:every-200-and-every-introspection-answer-justified(impl)", not new_sigs,
               f"{len(orc.findings)} unjustified answers, {len(seen)} distinct signatures, not known: {sorted(new_sigs)[:6]}")
    if seen - set(new_sigs):
        ctx.notes.append(f"known findings observed by the oracle: {sorted(seen - set(new_sigs))} ({len(orc.findings)} answers)")

    # generator ground truth vs the real PEX engine (keeps the harness-supplied verdicts honest)
    pex_mismatch = []
    for i, op in enumerate(ops):
        if op.get("op") in ("s2s", "authresp") and op.get("pex_expected") is not None and orc is not None:
            defs = None
            # find the key of the definition named by def_id in this world
            a, _ = world_of(i)
            for p in ops[a].get("policy", []):
                for d in p["defs"]:
                    if d["id"] == op.get("def_id") and (op.get("op") == "authresp" or p["scope"] == op.get("scope")):
                        defs = d["key"]
            if defs is not None and ((defs in (op.get("pex") or [])) != op["pex_expected"]):
                pex_mismatch.append(i)
    ctx.oblige("generator-ground-truth=real-PEX-verdict", not pex_mismatch, f"ops {pex_mismatch[:5]}")

    # ---- correspondence model vs implementation
    if bad:
        i = bad[0]
        detail = f"first differing line {i}\nop   : {op_lines[i][:600] if i < len(op_lines) else None}\nimpl : {impl[i][:600] if i < len(impl) else None}\nmodel: {model[i][:600] if i < len(model) else None}"
        ctx.oblige("correspondence:model=impl", False, f"{len(bad)} of {len(impl)} lines differ; " + detail[:900])
        if not orc.findings:
            a, b = world_of(i)
            with open(os.path.join(ctx.replay_dir(), "correspondence.jsonl"), "w") as f:
                f.write("\n".join(clean(ops[k]) for k in range(a, i + 1)) + "\n")
            ctx.unproved(["correspondence C02 (model.out != impl.out)"], detail + f"\nreplay ops: {ctx.replay_dir()}/correspondence.jsonl")
    else:
        ctx.oblige("correspondence:model=impl", True, f"{len(impl)} lines equal")

    # ---- coverage
    kinds = Counter(o.get("op") for o in ops)
    outcomes = Counter()
    defect_sizes = Counter()
    defect_kinds = Counter()
    distinct = set()
    for o, l in zip(ops, impl):
        if o.get("op") in ("s2s", "code", "authresp", "authreq"):
            cls = "200" if l.startswith("200") else l.split(" ")[0]
            outcomes[o["op"] + ":" + cls] += 1
            ds = o.get("defects") or []
            defect_sizes[len(ds)] += 1
            for d in ds:
                defect_kinds[d] += 1
            distinct.add((o["op"], tuple(ds), cls, len(o.get("vps") or []), o.get("grant_type")))
            if o.get("grant_type") is not None:
                outcomes[o["op"] + "@grant_type=" + o["grant_type"][:24] + ":" + cls] += 1
        elif o.get("op") == "authz":
            cls = re.sub(r"^calls=\[[^\]]*\] ", "", l).split(" ")[0]
            outcomes["authz:" + cls] += 1
            jd = o.get("jar_defects") or []
            for d in jd:
                defect_kinds["jar:" + d] += 1
            q = o.get("q") or {}
            delivery = "both" if q.get("request") and q.get("request_uri") else "request" if q.get("request") else ("uri-" + (q.get("request_uri_method") or "default")) if q.get("request_uri") else "none"
            distinct.add(("authz", tuple(jd), cls, delivery))
        elif o.get("op") == "reqobj":
            cls = l.split(" ")[0]
            outcomes["reqobj:" + (o.get("method") or "") + ":" + cls] += 1
            distinct.add(("reqobj", o.get("method"), tuple(o.get("defects") or []), cls, o.get("wallet_nonce") is not None, o.get("wallet_issuer")))
        elif o.get("op") == "dpopval":
            d = o["dpv"]
            outcomes["dpopval:" + l] += 1
            distinct.add(("dpopval", tuple(o.get("defects") or []), l, d.get("htm"), d.get("htu"), d.get("url")))
        elif o.get("op") == "polload":
            cls = l.split(" ")[0]
            outcomes["polload:" + o.get("dir", "") + ":" + cls] += 1
            distinct.add(("polload", o.get("dir"), cls, tuple(sorted(e.get("kind") or ("dir" if e.get("is_dir") else "") for e in o.get("entries") or []))))
        elif o.get("op") == "introspect":
            cls = "active" if "active=true" in l else ("inactive" if l == "ok active=false" else l.split(":")[0] + ":" + l.split(":")[1] if l.startswith("err") else l[:20])
            outcomes["introspect:" + cls] += 1
            distinct.add(("introspect", cls, bool(o.get("extended"))))
    ctx.cov["evaluations"] = len(impl)
    ctx.cov["distinct_nontrivial"] = len(distinct)
    ctx.cov["traces_validated_against_impl"] = len(impl) - len(bad)
    ctx.cov["rule"] = ("worlds = generated policy (3 scopes, 3-5 presentation definitions with id'd constraint fields incl. standard claim names, sometimes organization+user) "
                       "+ 12-36 operations on one real Wrapper: vp_token-bearer requests built from a valid one by every subset (<=3) of 22 single defects, verbatim replays, "
                       "nonce reuse, authorization-code flow (seeded session, authorize response with defects, token request with wrong client/verifier/code reuse), "
                       "introspection (plain/extended, issued/unknown/empty token), clock advances across the nonce/code/token expiry boundaries, store probes; "
                       "every output line compared with the Lean model; every 200 and every introspection answer re-judged by the direct oracle. "
                       "distinct_nontrivial = distinct (operation, defect set, outcome class, #presentations)")
    ctx.cov["input_distribution"] = {"worlds": len(slices), "ops": dict(kinds), "outcomes": dict(outcomes.most_common(40)),
                                     "defects_per_request": dict(sorted(defect_sizes.items())), "defect_kinds": dict(defect_kinds)}
    ctx.cov["samples"] = [op_lines[1][:300] if len(op_lines) > 1 else "", impl[1][:200] if len(impl) > 1 else ""]
