"""C04 — Internal API auth cannot be bypassed; internal routes stay off the public port.
Lean: NutsProofs.Props.C04 over NutsModel.C04.{HttpGuard,Token} + regenerated facts.
Correspondence: (1) real http.Engine on ephemeral ports, canary handlers, RAW TCP request lines from a grammar;
(2) real tokenV2 middleware on generated bearer tokens (claims / header shapes / hostile structural variants)."""
import json, os, re
from collections import Counter

HARNESSES = [("http", ["http/zz_verif_c04_test.go"], "c04http"),
             ("http/tokenV2", ["http/tokenV2/zz_verif_c17_test.go", "http/tokenV2/zz_verif_export.go"], "c04tok"),
             ("http/cmd", ["http/cmd/zz_verif_c04cfg_test.go"], "c04cfg")]
PKG, HARNESS = HARNESSES[0][0], HARNESSES[0][1]

INTERNAL_BINDS = {"internal", "status", "metrics", "health"}
VALID_CREDS = {"valid0": "alice@verif", "valid1": "bob@verif", "valid-lowercase-scheme": "alice@verif"}
VALID_CREDS_E = {"valid-aud-hostname": "alice@verif"}   # engine E has no audience configured: only the host name is accepted

# token classes the property's text obliges the middleware to refuse (class names of the harness generator)
TOKEN_MUST_REJECT = {
    "expired": "outside its lifetime", "not-yet-valid": "outside its lifetime",
    "lifetime-unbounded": "no bounded lifetime (exp = 0 never expires)", "lifetime-too-long": "lifetime not bounded by 24.5 h",
    "wrong-aud": "audience is not the configured one", "iss-not-key-owner": "issuer is not the key owner's name",
    "empty-sub": "no subject", "jti-not-uuid": "token id is not a UUID", "missing-claim": "a mandatory claim is missing",
    "no-credential": "no bearer credential", "garbage": "not a token", "truncated": "no signature",
    "alg-none": "not signed", "alg-hmac": "not signed by an authorised key (MAC with public material)",
    "alg-mismatch": "signature does not fit the declared algorithm", "forged": "signed by an unauthorised key",
    "key-weak-rsa": "signed by an RSA key below 2048 bits (not an authorised key)", "key-no-comment": "signed by a key without user name (not authorised)",
    "key-commented-out": "signed by a key that is commented out in authorized_keys",
    "key-weak-rsa+iss-alice": "signed by a weak key", "key-no-comment+iss-alice": "signed by a key without user name",
    "key-commented-out+iss-alice": "signed by a commented-out key",
    "key-weak-rsa+iss-empty": "signed by a weak key", "key-no-comment+iss-empty": "signed by a key without user name (empty issuer)",
    "key-commented-out+iss-empty": "signed by a commented-out key",
    "tampered": "protected bytes altered", "zero-sig": "no signature", "other-party": "issuer is not the key owner's name",
}


# what uuid.Parse (google/uuid v1.6.0) accepts — an independent re-statement for the oracle (bytes; `.` = any byte, DOTALL)
_C = rb"[0-9a-fA-F]{8}-[0-9a-fA-F]{4}-[0-9a-fA-F]{4}-[0-9a-fA-F]{4}-[0-9a-fA-F]{12}"
JTI_RE = re.compile(rb"\A(?:" + _C + rb"|[uU][rR][nN]:[uU][uU][iI][dD]:" + _C + rb"|\{" + _C + rb"\}|[0-9a-fA-F]{32})\Z", re.DOTALL)


def run_model(ctx, ops_p, model_p):
    """the compiled model on the ops. When the driver does not exist (a regenerated fact no longer elaborates, so nm_C04 cannot be
    built) the implementation-side oracles must still judge the implementation's outputs: an empty model.out, a failed obligation"""
    try:
        return ctx.model("C04", ops_p, model_p)
    except OSError as e:
        open(model_p, "w").close()
        ctx._c04_nodriver = True
        return False, f"model driver nm_C04 is not available ({e}); implementation-side oracles only"


def rsa_modulus(blob):
    """modulus of an "ssh-rsa" key blob (RFC 4253: string "ssh-rsa", mpint e, mpint n), None for any other blob"""
    fields = []
    while len(blob) >= 4 and len(fields) < 3:
        ln = int.from_bytes(blob[:4], "big")
        if ln > len(blob) - 4:
            return None
        fields.append(blob[4:4 + ln])
        blob = blob[4 + ln:]
    if len(fields) < 3 or fields[0] != b"ssh-rsa":
        return None
    return int.from_bytes(fields[2], "big", signed=True)


def first_seg(path):
    return path.strip("/").split("/")[0]


def target_form(show):
    t = show.strip('"')
    if t == "*":
        return "asterisk"
    if t.startswith("//"):
        return "origin-double-slash"
    if t.startswith("/"):
        return "origin+query" if "?" in t else "origin"
    m = re.match(r"^([A-Za-z][A-Za-z0-9+.\-]*):(.*)$", t)
    if m:
        rest = m.group(2)
        if rest.startswith("//"):
            return "absolute"
        if rest.startswith("/"):
            return "scheme-rooted"
        return "opaque-or-authority"
    return "other"


def run(ctx):
    facts = ctx.facts()
    ctx._c04_facts = facts or {}
    thms = ctx.build_and_audit(["NutsProofs.Props.C04", "NutsProofs.Props.C04L", "NutsProofs.Props.C04J", "NutsProofs.Props.C04C", "NutsProofs.Props.C04K", "NutsProofs.Props.C04H"])
    required = ["no_bypass", "granted_sound", "denied_is_401_no_effect", "denied_guarded_runs_nothing", "internal_never_public",
                "same_address_shared", "configured_binds", "requestURI_selector_admits_bypass", "requestURI_selector_admits_query_bypass",
                "without_exp_check_zero_exp_never_expires", "atLeastOne_rule_admits_two_signatures",
                "fact_auth_selector_is_url_path", "fact_auth_skipper_negated", "fact_auth_path", "fact_auth_installed_with_use",
                "fact_internal_binds", "fact_policy", "fact_best_practices_conditions", "fact_acceptable_algs_asymmetric",
                "fact_registered_first_segments", "fact_route_first_segments_ast", "fact_default_addresses_differ", "fact_auth_types", "configure_auth_sound",
                "fact_authorized_keys", "authorized_keys_sound", "commented_out_line_is_dead", "text_after_hash_is_ignored",
                "fact_middleware_stateless", "decision_independent_of_history", "fact_middleware_order",
                "fact_middleware_handler_is_a_fresh_closure", "fact_matches_path_is_a_plain_prefix_test",
                # deepening round 2026-09-28: the rate limiter behind the guard, the jti grammar, the RSA strength rule
                "fact_limiter_condition", "fact_limiter_params", "fact_limiter_skipper", "fact_limited_routes_are_guarded", "fact_limiter_methods",
                "limiter_engages_only_behind_guard", "denied_keeps_budget", "denied_keeps_budget_facts", "too_many_only_when_authenticated",
                "limiter_refines_guard", "limiter_transparent_with_budget", "no_bypass_limited", "budget_spent_le_granted",
                "anonymous_history_cannot_drain", "limiter_enabled_iff",
                "fact_jti_check", "fact_uuid_module_version", "fact_rsa_strength_is_modulus_bit_length", "jti_accepted_shapes",
                "uuid_with_extra_text_rejected", "byte_rounded_strength_rule_admits_weak_keys",
                # configuration text -> policy
                "fact_config_load_order", "fact_env_constants", "fact_env_key_and_flag_load", "fact_http_flags_match_config_tags", "fact_auth_config_keys",
                "command_line_wins", "environment_beats_file", "unmentioned_key_is_empty", "policy_no_auth_only_if_type_is_empty",
                "token_auth_on_the_command_line_is_enforced", "config_text_to_no_bypass", "config_text_to_listener_separation",
                # round 3: the strength rule on the bytes of the key blob
                "fact_rsa_measure_is_bit_length", "bitLen_spec", "bitLen_ge_iff", "sizeBits_bounds", "secure_blob_kinds", "rsa_blob_secure_iff",
                "size_rule_admits_weak_modulus", "authorized_blob_keys_sound",
                # round 3: header block -> Header.Get("Authorization") -> decision
                "headerGet_first", "headerGet_none", "later_authorization_lines_are_ignored", "no_authorization_line_is_denied",
                "header_block_granted_sound", "no_bypass_header_block", "malformed_block_runs_nothing", "fact_authentication_credential"]
    for r in required:
        if not any(t.endswith("Props." + r) for t in thms):
            ctx.oblige("thm-present:" + r, False, "theorem missing or its module does not build")
    ctx.trusted += [
        "modelled, not verified (written-down contracts, exercised by the raw-TCP differential on the generated grammar only): net/http request-line parsing, "
        "net/url.ParseRequestURI (authority validity is supplied per request by the real parser), echo v4 Router.Find (static/:param/* segments, "
        "priority static>param>any, leaf params), echo middleware order (Use = after routing); HTTP/2 is not exercised",
        "modelled, not verified: jwx JWS parsing / key-set verification / claim parsing and uuid.Parse — their verdicts on each generated credential are data "
        "computed by the harness with the real libraries and fed to the decision model",
        "model scope: http/engine.go (Configure binds, matchesPath, applyAuthMiddleware skipper), http/echo.go (Bind, addFn, getBindFromPath), "
        "http/tokenV2/middleware.go (checkConnectionAuthorization, authenticationCredential, credentialIsSecure, bestPracticesCheck, key loop)",
    ]
    ctx.assumptions += [
        "'registered under /internal' = the echo pattern's first segment is the literal `internal` (case-sensitive, as the router matches)",
        "the clock is not before 1970 (0 <= now) — used for nbf <= now when nbf = 0",
        "route paths are ASCII (getBindFromPath's strings.ToLower is modelled for ASCII only)",
    ]
    here = os.path.dirname(os.path.dirname(os.path.abspath(__file__)))

    replay_kind = None
    if ctx.replay:
        txt = open(ctx.replay).read()
        replay_kind = "tok" if ('"apitoken"' in txt or '"akeys"' in txt) else ("cfg" if '"cfgload"' in txt else "http")

    # ------------------------------------------------------------------ (1) raw TCP against the real engine
    total_lines = total_bad = 0
    distinct = set()
    dist = {}
    if replay_kind in (None, "http"):
        binary = ctx.go_test_binary(*HARNESSES[0])
        if binary is None:
            ctx.oblige("harness-builds:http", False, ctx.harness_error[-1500:])
        else:
            ctx.oblige("harness-builds:http", True)
            env = {}
            if ctx.replay:
                env["VERIF_REPLAY"] = os.path.abspath(ctx.replay)
            else:
                env["VERIF_CORPUS"] = os.path.join(here, "harness", "corpus", "C04")
            rc, log, out = ctx.run_harness(binary, "TestVerifC04", env, outdir=os.path.join(ctx.scratch, "out-http"), timeout=1500)
            if rc != 0:
                ctx.oblige("harness-runs:http", False, log[-1500:])
            else:
                ctx.oblige("harness-runs:http", True)
                n, bad, d, dn = http_part(ctx, out)
                total_lines += n
                total_bad += bad
                dist["http"] = d
                distinct |= dn

    # ------------------------------------------------------------------ (2) bearer-token decision differential
    if replay_kind in (None, "tok"):
        binary = ctx.go_test_binary(*HARNESSES[1])
        if binary is None:
            ctx.oblige("harness-builds:tokenV2", False, ctx.harness_error[-1500:])
        else:
            ctx.oblige("harness-builds:tokenV2", True)
            env = {}
            if ctx.replay:
                env["VERIF_REPLAY"] = os.path.abspath(ctx.replay)
            rc, log, out = ctx.run_harness(binary, "TestVerifC04Tok", env, outdir=os.path.join(ctx.scratch, "out-tok"), timeout=1500)
            if rc != 0:
                ctx.oblige("harness-runs:tokenV2", False, log[-1500:])
            else:
                ctx.oblige("harness-runs:tokenV2", True)
                n, bad, d, dn = token_part(ctx, out)
                total_lines += n
                total_bad += bad
                dist["token"] = d
                distinct |= dn

    # ------------------------------------------------------------------ (3) configuration text -> http.Config -> Configure
    if replay_kind in (None, "cfg"):
        binary = ctx.go_test_binary(*HARNESSES[2])
        if binary is None:
            ctx.oblige("harness-builds:http/cmd", False, ctx.harness_error[-1500:])
        else:
            ctx.oblige("harness-builds:http/cmd", True)
            env = {}
            if ctx.replay:
                env["VERIF_REPLAY"] = os.path.abspath(ctx.replay)
            rc, log, out = ctx.run_harness(binary, "TestVerifC04Cfg", env, outdir=os.path.join(ctx.scratch, "out-cfg"), timeout=1500)
            if rc != 0:
                ctx.oblige("harness-runs:http/cmd", False, log[-1500:])
            else:
                ctx.oblige("harness-runs:http/cmd", True)
                n, bad, d, dn = config_part(ctx, out, facts or {})
                total_lines += n
                total_bad += bad
                dist["config"] = d
                distinct |= dn

    ctx.cov["evaluations"] = total_lines
    ctx.cov["distinct_nontrivial"] = len(distinct)
    ctx.cov["traces_validated_against_impl"] = total_lines - total_bad
    ctx.cov["rule"] = ("(1) request lines METHOD SP target SP HTTP/1.1 written byte-for-byte over TCP to the real http.Engine (4 engines: two listeners+token auth, "
                       "one shared listener+token auth, two listeners without auth, two listeners+token auth with a seed-dependent RANDOM table of 14 routes "
                       "(static/:param/* segments, depth 2-4) and request paths instantiating them; 19 fixed canary routes incl. static, :param, leaf/non-leaf params, *, exact /internal, "
                       "mixed-case first segments, CONNECT); targets from a grammar: origin-form, absolute-form (9 schemes x 14 authorities incl. invalid ones), "
                       "scheme-rooted, opaque, authority-form (CONNECT), '*', relative, leading '//' and ':'; 33 base paths mutated by percent-encoding (both hex cases), "
                       "encoded '/', '.', NUL, '%', '?', '#', duplicate slashes, dot segments, case flips, malformed escapes, control bytes/space, non-ASCII bytes, "
                       "deletions, truncation; 8 query shapes; 12 credential kinds; observed (status, canary id, UserContextKey) vs model, per listener; plus "
                       "matchesPath/getBindFromPath differentials. (2) the real tokenV2 middleware on 49 claim mutations + 13 Authorization-header shapes + ~120 hostile "
                       "structural variants per key (Ed25519, P-256, RSA-2048) per round; granted/denied(401, next not called, nothing written)/user vs model. "
                       "distinct_nontrivial = distinct (engine, listener, method, target, credential kind) that were routed to a handler or stopped by the guard "
                       "(status 200/204/401/405) + distinct token variant names")
    ctx.cov["input_distribution"] = dist


def http_part(ctx, out):
    ops_p, impl_p, model_p = (os.path.join(out, x) for x in ("ops.jsonl", "impl.out", "model.out"))
    ok, err = run_model(ctx, ops_p, model_p)
    ctx.oblige("model-driver-runs:http", ok, err[-500:])
    impl, model, bad = ctx.compare(impl_p, model_p)
    ops = ctx.read_lines(ops_p)
    cfg = json.loads(ops[0]) if ops and ops[0] else {}
    routes = {r["id"]: r for rs in cfg.get("routesets", {}).values() for r in rs}   # ids are unique across route sets
    internal_ids = {i for i, r in routes.items() if first_seg(r["p"]) == "internal"}
    bound_internal_ids = {i for i, r in routes.items() if first_seg(r["p"]).lower() in INTERNAL_BINDS}
    engines = cfg.get("engines", {})

    forms, statuses, creds, methods = Counter(), Counter(), Counter(), Counter()
    hshapes = Counter()
    distinct = set()
    seen_sig = set()
    bursts = {}
    n_req = o_bypass = o_401 = o_public = o_abort = o_429 = 0
    o_cfg = n_overlap = o_overlap = 0
    o_lim = n_lim = n_lim_void = o_drain = 0
    lim_legs = {}            # engine -> ops of its rate limiter leg (for replays: the bucket is engine-wide state)
    lim_good = Counter()     # engine -> requests with a valid credential to a listed route seen so far
    lim_tbl = getattr(ctx, "_c04_facts", {}).get("limiterTable") or {}
    for i, line in enumerate(impl):
        if i >= len(ops) or not ops[i]:
            continue
        op = json.loads(ops[i])
        if op.get("op") == "configure":
            # O4: an auth type the engine does not know, or an unusable authorized_keys file, must make Configure fail
            typ, kf = op.get("a", ""), op.get("b", "")
            if line == "ok" and (typ not in ("", "token_v2") or (typ == "token_v2" and kf in ("missing", "garbage"))):
                o_cfg += 1
                ctx.violation("C04:configure:silently-unauthenticated", f"Configure accepted auth type {typ!r} with authorized_keys '{kf}' without error: "
                              "the internal API would run without (working) authentication", "configure-silently-unauthenticated.jsonl", ops[i])
            continue
        if op.get("op") == "skipped":
            n_lim_void += 1
            continue
        if op.get("op") == "lim":
            # O8 (in-process, the real applyRateLimiterMiddleware): in strict mode (or with the flag) and did:nuts enabled the limiter IS
            # installed; once installed it only ever refuses calls on a (method, path) pair of the source's table, and never one of the
            # first 30 (the burst) of those
            n_lim += 1
            must_on = (op.get("strict", False) or op.get("flag", False)) and "nuts" in (op.get("dm") or [])
            what = None
            if line == "skipped":
                n_lim_void += 1
            elif (line == "off") == must_on:
                what = f"rate limiter {'not ' if must_on else ''}installed for strictmode={op.get('strict', False)} internalratelimiter={op.get('flag', False)} didmethods={op.get('dm')}"
            elif line != "off":
                res = line.split(",")
                listed_seen = 0
                for c, rr in zip(op.get("calls", []), res):
                    pth = bytes.fromhex(c["p"]).decode("latin-1")
                    listed = pth in lim_tbl.get(c["m"], [])
                    if rr not in ("ok", "429"):
                        what = f"call {c['m']} {pth!r} -> {rr}"
                    elif rr == "429" and not listed:
                        what = f"{c['m']} {pth!r} is not a rate-limited route of engine.go's table but was refused 429"
                    elif rr == "429" and listed_seen < 30:
                        what = f"{c['m']} {pth!r} refused 429 after only {listed_seen} rate-limited calls (burst is 30)"
                    elif rr == "ok" and listed and listed_seen >= 30:
                        what = f"{c['m']} {pth!r} served although the budget of 30 was used up ({listed_seen} rate-limited calls before it)"
                    if listed and rr == "ok":
                        listed_seen += 1
                    if what:
                        break
            if what:
                o_lim += 1
                if "C04:limiter:wiring" not in seen_sig:
                    seen_sig.add("C04:limiter:wiring")
                    ctx.violation("C04:limiter:wiring", "internal rate limiter (applyRateLimiterMiddleware / newInternalRateLimiter): " + what,
                                  "limiter-wiring.jsonl", ops[i])
            continue
        if op.get("op") == "overlap":
            # O7 two requests in flight at the same time: each is answered by its own handler, on its own listener, with its own user
            n_overlap += 1
            eng = engines.get(op["eng"], {})
            for tag, half, txt in (("A", op["ra"], line.split(" | ")[0][2:]), ("B", op["rb"], line.split(" | ")[-1][2:])):
                mm = re.match(r"^(-?\d+) ran=(\S+) (.*)$", txt)
                if not mm:
                    continue
                ran_id = None if mm.group(2) == "-" else int(mm.group(2))
                owner = VALID_CREDS.get(half["cred"])
                what = None
                if ran_id in internal_ids and owner is None:
                    what = "handler registered under /internal ran for a request without an acceptable bearer token"
                elif ran_id in internal_ids and mm.group(3) != "user:" + owner:
                    what = f"handler under /internal saw {mm.group(3)}, the request's token owner is {owner}"
                elif half["lis"] == "pub" and eng.get("int") != eng.get("pub") and ran_id in bound_internal_ids:
                    what = "the public listener answered with a handler bound to the internal interface"
                elif ran_id is not None and routes[ran_id]["p"].split("/")[1].split(":")[0] not in half["show"]:
                    what = f"answered by the handler of route {routes[ran_id]['p']}, which the request does not address"
                if what:
                    o_overlap += 1
                    sig = "C04:overlap:handler-of-another-request"
                    if sig not in seen_sig:
                        seen_sig.add(sig)
                        ctx.violation(sig, f"{what}: request {tag} = {half['m']} {half['show']} on {op['eng']}/{half['lis']} with credential '{half['cred']}', "
                                      f"in flight together with the other request of the pair -> {line}", "overlap-handler-of-another-request.jsonl", ops[i])
            continue
        if op.get("op") != "req":
            continue
        n_req += 1
        m = re.match(r"^(-?\d+) ran=(\S+) (.*)$", line)
        if not m:
            ctx.oblige("harness-output-wellformed", False, line[:200])
            continue
        status, ran, user = int(m.group(1)), m.group(2), m.group(3)
        ran_id = None if ran == "-" else int(ran)
        form = target_form(op.get("show", ""))
        forms[form] += 1
        statuses[status] += 1
        creds[op["cred"]] += 1
        methods[op["m"]] += 1
        if op.get("hbk"):
            hshapes[op["hbk"]] += 1
        if status in (200, 204, 401, 405):
            distinct.add((op["eng"], op["lis"], op["m"], op["t"], op["cred"], op.get("hbk", "")))
        eng = engines.get(op["eng"], {})

        if op.get("tag") == "burst":
            bursts.setdefault(op["eng"], []).append(ops[i])
        if op.get("tag") == "lim":
            # O9 failures have NO side effect on the limiter's budget: on an engine with token auth, however many failed requests came
            # before, the first 30 requests that carry a valid credential are never refused 429 (and O6: a failure is never a 429)
            lim_legs.setdefault(op["eng"], []).append(ops[i])
            if eng.get("auth") and VALID_CREDS.get(op["cred"]) is not None:
                lim_good[op["eng"]] += 1
                if status == 429 and lim_good[op["eng"]] <= 30:
                    o_drain += 1
                    sig = "C04:limiter:budget-used-by-failed-requests"
                    if sig not in seen_sig:
                        seen_sig.add(sig)
                        ctx.violation(sig, f"request #{lim_good[op['eng']]} with a valid credential on engine {op['eng']} ({op['m']} {op.get('show')}) was refused 429: "
                                      "fewer than 30 requests with a valid credential were served before it, so the limiter's budget (burst 30) was spent on requests that failed "
                                      "authentication (a failure must have no side effect) or is smaller than the documented burst",
                                      "limiter-budget-used-by-failed-requests.jsonl", "\n".join(lim_legs[op["eng"]]))

        def report(kind, what):
            sig = f"C04:{kind}:{form}"
            if sig in seen_sig:
                return
            seen_sig.add(sig)
            if kind == "auth-failure-answered-429":   # needs the requests that exhausted the limiter before it
                before = lim_legs.get(op["eng"], []) if op.get("tag") == "lim" else bursts.get(op["eng"], []) + ([] if op.get("tag") == "burst" else [ops[i]])
                ctx.violation(sig, f"{what}: {op['m']} {op.get('show')} on engine {op['eng']}/{op['lis']} with credential '{op['cred']}' -> {line}",
                              f"{kind}-{form}.jsonl", "\n".join(before))
                return
            if op.get("tag") == "lim":                # the bucket is engine-wide state: replay the leg up to here
                ctx.violation(sig, f"{what}: {op['m']} {op.get('show')} on engine {op['eng']}/{op['lis']} with credential '{op['cred']}' -> {line}",
                              f"{kind}-{form}.jsonl", "\n".join(lim_legs.get(op["eng"], [])))
                return
            shape = f" (header block '{op['hbk']}': {[bytes.fromhex(h)[:40] for h in op.get('hb', [])]})" if op.get("hbk") else ""
            ctx.violation(sig, f"{what}: {op['m']} {op.get('show')} on engine {op['eng']}/{op['lis']} with credential '{op['cred']}'{shape} -> {line}",
                          f"{kind}-{form}.jsonl", ops[i])

        # O1 no_bypass: an /internal canary ran although the request carried no acceptable token (or saw another user)
        if eng.get("auth") and ran_id in internal_ids:
            owner = (VALID_CREDS_E if op["eng"] == "E" else VALID_CREDS).get(op["cred"])
            if owner is None:
                o_bypass += 1
                report("bypass", "handler registered under /internal ran without an acceptable bearer token")
            elif user != "user:" + owner:
                o_bypass += 1
                report("wrong-user", f"handler under /internal saw {user}, token owner is {owner}")
        # O6 an authentication failure is answered 401, never by a later stage (429 of the rate limiter …): a request without a
        # valid credential whose target is a guarded route must not consume rate-limiter budget
        if eng.get("auth") and status == 429 and (VALID_CREDS_E if op["eng"] == "E" else VALID_CREDS).get(op["cred"]) is None:
            o_429 += 1
            report("auth-failure-answered-429", "a request without a valid credential was answered 429 by the internal rate limiter "
                   "(it ran before authentication and its budget was used up by unauthenticated requests) instead of 401")
        # O5 every request gets an HTTP answer: a connection that is aborted without a status line means the server
        # panicked (net/http recovers per connection) — "every failure is answered 401"
        if status <= 0:
            o_abort += 1
            report("connection-aborted", "no HTTP response (connection aborted: handler panic) instead of an answer")
        # O2 failures are 401 with no side effect: a 401 never comes with a handler run
        if status == 401 and ran_id is not None:
            o_401 += 1
            report("401-with-effect", "401 answered but a handler ran")
        # O3 internal_never_public: the public listener (distinct address) never serves /internal,/status,/metrics,/health routes
        if op["lis"] == "pub" and eng.get("int") != eng.get("pub") and ran_id in bound_internal_ids:
            o_public += 1
            report("internal-on-public", "public listener served a handler bound to the internal interface")
    ctx.oblige("oracle:no-internal-handler-without-token(impl, raw TCP)", o_bypass == 0, f"{o_bypass} requests")
    ctx.oblige("oracle:401-has-no-effect(impl)", o_401 == 0, f"{o_401} requests")
    ctx.oblige("oracle:unknown-auth-type-or-bad-keys-file-is-an-error(impl)", o_cfg == 0, f"{o_cfg} configurations")
    ctx.oblige("oracle:every-request-is-answered(impl)", o_abort == 0, f"{o_abort} aborted connections")
    ctx.oblige("oracle:auth-failures-are-401-not-429(impl)", o_429 == 0, f"{o_429} requests")
    ctx.oblige("oracle:overlapping-requests-answered-as-if-alone(impl)", o_overlap == 0, f"{o_overlap} of {2 * n_overlap} request halves")
    ctx.oblige("oracle:internal-routes-never-on-public-listener(impl)", o_public == 0, f"{o_public} requests")
    ctx.oblige("oracle:limiter-installed-iff-configured-and-refuses-only-listed-routes-after-the-burst(impl)", o_lim == 0, f"{o_lim} of {n_lim} configurations")
    ctx.oblige("oracle:failed-requests-do-not-use-the-limiter-budget(impl)", o_drain == 0, f"{o_drain} requests")
    if n_lim_void:
        ctx.cov.setdefault("notes", []).append(f"{n_lim_void} rate limiter ops voided (leg took longer than 20 s)")

    correspondence(ctx, "http", impl, model, bad, ops, o_bypass + o_401 + o_public + o_cfg + o_abort + o_429 + o_overlap + o_lim + o_drain)
    d = {"requests": n_req, "target_forms": dict(forms), "status": {str(k): v for k, v in sorted(statuses.items())},
         "credential_kinds": dict(creds), "methods": dict(methods), "header_block_shapes": dict(hshapes), "other_differential_lines": len(impl) - n_req}
    ctx.cov["samples"] = [ops[1][:300] if len(ops) > 1 else "", impl[1][:100] if len(impl) > 1 else ""]
    return len(impl), len(bad), d, distinct


def token_part(ctx, out):
    ops_p, impl_p, model_p = (os.path.join(out, x) for x in ("ops.jsonl", "impl.out", "model.out"))
    ok, err = run_model(ctx, ops_p, model_p)
    ctx.oblige("model-driver-runs:tokenV2", ok, err[-500:])
    impl, model, bad = ctx.compare(impl_p, model_p)
    ops = ctx.read_lines(ops_p)
    classes, results = Counter(), Counter()
    distinct = set()
    seen_sig = set()
    o_bad = 0
    n_uuid = n_akeys = n_moduli = 0
    for i, line in enumerate(impl):
        if i >= len(ops) or not ops[i]:
            continue
        op = json.loads(ops[i])
        if op.get("op") == "akeys":
            # O11 "signed by an authorised key": an entry whose key is an RSA key with a modulus below 2^2047 never becomes an authorised
            # key. The modulus is read from the entry's key blob here (ssh wire format), independently of harness and model.
            n_akeys += 1
            got = [] if line in ("parse-error", "") else line.split("|")
            strong = Counter()
            weak = {}
            for ln in op.get("lines") or []:
                v = ln.get("v") or {}
                if v.get("err") or not v.get("comment"):
                    continue
                n = rsa_modulus(bytes.fromhex(v.get("blob", "")))
                if n is not None and n < 2 ** 2047:
                    weak[v["comment"]] = n
                else:
                    strong[v["comment"]] += 1
            n_moduli += len(weak) + sum(strong.values())
            for name, n in weak.items():
                if got.count(name) > strong[name]:
                    o_bad += 1
                    sig = "C04:token:authorized-keys-weak-rsa-modulus"
                    if sig not in seen_sig:
                        seen_sig.add(sig)
                        ctx.violation(sig, f"authorized_keys file '{op['file']}': the entry of user '{name}' carries an RSA key whose modulus has {n.bit_length()} bits "
                                      f"(below 2^2047) and became an authorised key: {line[:200]}", "token-authorized-keys-weak-rsa-modulus.jsonl",
                                      json.dumps({"c": "akeys", "name": op["file"]}))
            continue
        if op.get("op") == "uuid":
            n_uuid += 1
            continue
        cls = op["class"]
        res = line.split(" ")[0]
        classes[cls] += 1
        results[res] += 1
        distinct.add(("tok", op["name"]))
        why = None
        if res not in ("granted", "denied"):
            why = f"the middleware neither granted nor answered a clean 401 ({line[:80]})"
            cls_sig = "unclean-" + res.split(":")[0]
        elif res == "granted" and cls in TOKEN_MUST_REJECT:
            why = "granted although " + TOKEN_MUST_REJECT[cls]
            cls_sig = cls
        elif res == "granted" and (op["tok"]["claims"].get("exp") is None or not (op["now"] < op["tok"]["claims"]["exp"])):
            why = f"granted although now ({op['now']}) is not before exp ({op['tok']['claims'].get('exp')}): the token has no bounded lifetime"
            cls_sig = "lifetime-unbounded"
        elif res == "granted" and (op["tok"]["claims"].get("iat") is None or op["tok"]["claims"]["exp"] - op["tok"]["claims"]["iat"] > 1470 * 60):
            why = f"granted although exp - iat = {op['tok']['claims']['exp'] - op['tok']['claims']['iat']} s exceeds 24.5 h"
            cls_sig = "lifetime-too-long"
        elif res == "granted" and op["tok"]["claims"].get("jtis") is not None and not JTI_RE.match(bytes.fromhex(op["tok"]["claims"]["jtis"])):
            why = (f"granted although its token id {bytes.fromhex(op['tok']['claims']['jtis'])[:80]!r} is not a UUID "
                   "(canonical 8-4-4-4-12, urn:uuid: + canonical, {canonical}, or 32 hex digits)")
            cls_sig = "jti-not-uuid"
        elif res == "granted" and 0 < op.get("kbits", 0) < 2048:
            why = f"granted although the signing key is an RSA key with a {op['kbits']}-bit modulus (authorised RSA keys have at least 2048 bits)"
            cls_sig = "key-weak-rsa"
        elif res == "granted" and op.get("by") not in ("signer",):
            why = f"granted although no authorised key owned by the issuer signed it (signed by: {op.get('by')})"
            cls_sig = "not-signed-by-owner"
        elif res == "granted" and not line.endswith("user:" + (op["tok"]["claims"].get("iss") or "")):
            why = "user in context differs from the token issuer"
            cls_sig = "wrong-user"
        if why:
            o_bad += 1
            sig = "C04:token:" + cls_sig
            if sig not in seen_sig:
                seen_sig.add(sig)
                ctx.violation(sig, f"bearer token variant '{op['name']}' (class {cls}): {why}", f"token-{cls_sig}.jsonl",
                              json.dumps({"c": "apitoken", "name": op["name"], "class": cls}))
    ctx.oblige("oracle:granted-only-for-tokens-the-property-allows(impl)", o_bad == 0, f"{o_bad} variants")
    ctx.oblige("non-vacuous:some-valid-token-granted(impl)", ctx.replay is not None or results["granted"] > 0, str(dict(results)))
    correspondence(ctx, "tokenV2", impl, model, bad, ops, o_bad)
    return len(impl), len(bad), {"variants": len(impl), "classes": dict(classes), "results": dict(results), "uuid_grammar_differential": n_uuid,
                                      "authorized_keys_files": n_akeys, "authorized_keys_entries_measured": n_moduli}, distinct


def _env_value(raw):
    """core.loadFromEnv: split on commas not escaped by a backslash, trim; one piece = scalar, more = list (None here)"""
    parts = [p.replace("\x00", ",").strip() for p in raw.replace("\\,", "\x00").split(",")]
    return parts[0] if len(parts) == 1 else None


def _effective(op, key, defaults):
    """value that wins for `key`: command line, environment, file, flag default; (value, source); value None = a list"""
    for k, v in op.get("flags") or []:
        if k == key:
            return v, "flag"
    for name, v in op.get("env") or []:
        if name.startswith("NUTS_") and name[len("NUTS_"):].lower().replace("_", ".") == key:
            return _env_value(v), "env"
    if op.get("hasfile"):
        for leaf in op.get("file") or []:
            if leaf["k"] == key:
                return (leaf["s"], "file") if "s" in leaf else (None, "file")
    if key in defaults:
        return defaults[key], "default"
    return "", "absent"


def config_part(ctx, out, facts):
    ops_p, impl_p, model_p = (os.path.join(out, x) for x in ("ops.jsonl", "impl.out", "model.out"))
    ok, err = run_model(ctx, ops_p, model_p)
    ctx.oblige("model-driver-runs:http/cmd", ok, err[-500:])
    impl, model, bad = ctx.compare(impl_p, model_p)
    ops = ctx.read_lines(ops_p)
    defaults = {f[0]: f[2] for f in facts.get("httpFlags", []) if not str(f[2]).startswith("=")}
    winners, outcomes = Counter(), Counter()
    distinct = set()
    seen = set()
    o_bad = 0
    for i, line in enumerate(impl):
        if i >= len(ops) or not ops[i]:
            continue
        op = json.loads(ops[i])
        if op.get("op") != "cfgload":
            continue
        typ, src = _effective(op, "http.internal.auth.type", defaults)
        keys, _ = _effective(op, "http.internal.auth.authorizedkeyspath", defaults)
        winners[src] += 1
        fields = dict(kv.split("=", 1) for kv in line.split(" ")) if line.startswith("type=") else {}
        outcomes[line.split(" ")[-1] if fields else line] += 1
        distinct.add(("cfg", src, typ, line.split(" ")[-1]))
        got_type = bytes.fromhex(fields["type"]).decode("latin-1") if fields else None
        what = None
        # O10 the internal interface is left WITHOUT authentication only when the value that wins the precedence
        # (command line > environment > file > default) for http.internal.auth.type is the empty string
        if fields and fields.get("configure") == "ok" and typ not in ("", "token_v2"):
            what = f"Configure succeeded although the winning value of http.internal.auth.type ({src}) is {typ!r}: neither token_v2 nor empty"
        elif fields and typ is not None and got_type != typ:
            what = f"the engine's auth type is {got_type!r} but the winning source ({src}) says {typ!r}"
        elif fields and fields.get("configure") == "ok" and typ == "token_v2" and keys not in (op.get("okpaths") or []):
            what = f"Configure succeeded with token_v2 although the winning authorized_keys path {keys!r} is not a usable file"
        elif typ is None and fields:
            what = f"a list value for http.internal.auth.type ({src}) was accepted: type={got_type!r}"
        if what:
            o_bad += 1
            sig = "C04:config:auth-setting-not-enforced"
            if sig not in seen:
                seen.add(sig)
                ctx.violation(sig, what + f" -> {line[:160]}", "config-auth-setting-not-enforced.jsonl", ops[i])
    ctx.oblige("oracle:winning-auth-setting-is-enforced-or-startup-fails(impl)", o_bad == 0, f"{o_bad} configurations")
    correspondence(ctx, "http/cmd", impl, model, bad, ops, o_bad)
    return len(impl), len(bad), {"configurations": len(impl), "auth_type_decided_by": dict(winners), "outcomes": dict(outcomes)}, distinct


def correspondence(ctx, name, impl, model, bad, ops, oracle_bad):
    if getattr(ctx, "_c04_nodriver", False):
        # no model output at all: already a failed obligation (driver build); the oracles above have judged the implementation alone
        ctx.oblige(f"correspondence:{name}:model=impl", False, "model driver not available")
        return
    if bad:
        i = bad[0]
        detail = (f"first differing line {i}\nop   : {ops[i][:600] if i < len(ops) else None}\nimpl : {impl[i][:300] if i < len(impl) else None}\n"
                  f"model: {model[i][:300] if i < len(model) else None}")
        ctx.oblige(f"correspondence:{name}:model=impl", False, f"{len(bad)} of {len(impl)} lines differ; " + detail[:900])
        if oracle_bad == 0 and i < len(ops):
            with open(os.path.join(ctx.replay_dir(), f"correspondence-{name.replace('/', '-')}.jsonl"), "w") as f:
                f.write(ops[i] + "\n")
            ctx.unproved([f"correspondence C04/{name} (model.out != impl.out)"], detail + f"\nreplay ops: {ctx.replay_dir()}/correspondence-{name.replace('/', '-')}.jsonl")
    else:
        ctx.oblige(f"correspondence:{name}:model=impl", True, f"{len(impl)} lines equal")
