"""C17 — Signed tokens need exactly one allowed asymmetric signature by the right key.
Lean: NutsProofs.Props.C17 over NutsModel.C17.TokenPolicy (+ C04.Token) + regenerated facts.
Correspondence: ONE generator of hostile variants applied to a valid token of every cheap consumer
(crypto.ParseJWT, crypto.ParseJWS, dpop.Parse, dag.ParseTransaction + signature verifier, tokenV2 middleware)."""
import json, os, re
from collections import Counter

HARNESSES = [("http/tokenV2", ["http/tokenV2/zz_verif_c17_test.go", "http/tokenV2/zz_verif_export.go"], "c17"),
             ("auth/api/iam", ["auth/api/iam/zz_verif_c17_test.go", "http/tokenV2/zz_verif_export.go"], "c17jar"),
             ("vcr/verifier", ["vcr/verifier/zz_verif_c17_test.go", "vcr/verifier/zz_verif_c17fold_test.go", "http/tokenV2/zz_verif_export.go"], "c17vc"),
             ("auth/services/oauth", ["auth/services/oauth/zz_verif_c17_test.go", "http/tokenV2/zz_verif_export.go"], "c17az"),
             ("vcr/signature/proof", ["vcr/signature/proof/zz_verif_c17_test.go"], "c17ld"),
             ("network/dag", ["network/dag/zz_verif_c17_test.go"], "c17dag")]
TESTS = {"c17": "TestVerifC17", "c17jar": "TestVerifC17Jar", "c17vc": "TestVerifC17VcJwt", "c17az": "TestVerifC17AuthzV1", "c17ld": "TestVerifC17LdProof", "c17dag": "TestVerifC17Dag"}
PKG, HARNESS = HARNESSES[0][0], HARNESSES[0][1]

# classes of the generator for which NOTHING made a valid signature over the exact bytes, whatever the consumer
NOBODY_SIGNED = {"alg-none": "alg none / missing", "alg-hmac": "MAC keyed with public material", "alg-mismatch": "declared algorithm does not fit the signature",
                 "tampered": "a protected byte was altered", "truncated": "signature removed", "zero-sig": "no signature",
                 "split-confusion": "the payload is not covered by any signature", "forged": "signed by a key the protocol's source does not know"}


def verdict(c, cls, halg, by, res, allowed, env=None):
    """None if the outcome is compatible with the property, else (kind, reason). Only 'accept' can violate."""
    if res == "panic":
        return None  # C19's property; reported there
    if res != "accept":
        return None
    if c == "jar" and env != "client-publishes-signer-key":
        return ("client-key-set-ignored", f"request object accepted although the client does not vouch for the signer key ({env})")
    if cls == "alg-curve-mismatch":
        return ("alg-curve-mismatch", f"an ECDSA signature made with algorithm {halg!r} on a key of another curve was accepted "
                "(the algorithm does not fit the verification key)")
    if cls == "multi-sig":
        return ("multi-sig", "a token with two signatures was accepted (exactly one is required)")
    if cls in NOBODY_SIGNED:
        return (cls, "accepted although " + NOBODY_SIGNED[cls])
    if cls.startswith("embed-jwk-priv") and c in ("dpop", "dagtx", "apitoken"):
        return ("embedded-private-jwk", "a token carrying a PRIVATE key in its jwk header was accepted")
    if by == "attacker" and c in ("vcjwt", "vcld", "jar", "authzv1"):
        return ("key-not-of-issuer", f"accepted although signed only by another party's key under that party's kid ({cls}): "
                "the key does not come from the issuer's / client's own key material")
    if by == "attacker" and c == "dpop" and cls == "kid-jwk-confusion":
        return None   # a DPoP proof is a proof of possession of the embedded key, whoever holds it; the kid header plays no role
    if by == "attacker" and not (c in ("dpop", "dagtx") and cls == "embed-jwk-pub-attacker"):
        return ("key-from-header", f"signed only by a key unknown to the protocol's key source ({cls}) and accepted")
    if by == "nobody":
        return ("unsigned", f"nothing made a valid signature over the bytes ({cls}) and it was accepted")
    if cls == "kid-other" and c != "dpop":
        return ("kid-other", "kid names another party's key but the token was accepted")
    if halg not in allowed.get(c, []):
        return ("alg-not-allowed", f"algorithm {halg!r} is not on the consumer's allow-list {allowed.get(c)}")
    if halg in ("none", "", "HS256", "HS384", "HS512"):
        return ("alg-symmetric", f"algorithm {halg!r} accepted")
    return None


def jarset_verdict(op, line):
    """jar.validate against the client's published key SET (independent of the model): an accepted request object was verified with the
    key the DID resolver returned for its kid, and the client named by client_id publishes that very key (same thumbprint) under that kid"""
    if line != "accept":
        return None
    vv = op.get("v", {})
    sigs = (op.get("info") or {}).get("sigs") or []
    if len(sigs) != 1:
        return ("multi-sig", f"a request object with {len(sigs)} signatures was accepted")
    kid = sigs[0].get("kid", "")
    if not vv.get("keyfound") or not vv.get("verified") or not vv.get("fits"):
        return ("unsigned", "accepted although the signature does not verify with the key the DID resolver returns for the kid")
    if not vv.get("clientid"):
        return ("client-id-mismatch", "accepted although the client_id claim is not the client_id of the request")
    under_kid = [e for e in vv.get("set", []) if e.get("kid") == kid]
    if not any(e.get("tp") and e.get("tp") == vv.get("signertp") for e in under_kid):
        return ("client-key-set-ignored", f"request object signed by {kid!r} accepted although the client's published key set "
                f"({[(e.get('kid'), e.get('tp')) for e in vv.get('set', [])]}) does not hold the signer key (thumbprint {vv.get('signertp')}) under that kid: "
                + ("the kid is not published at all" if not under_kid else "another key is published under the kid"))
    return None


def jwk_object_verdict(c, vv, line):
    """clause (e) on the embedded JWK OBJECT (independent of the model): a jwk with secret material (`d` member, or an octet key)
    is never accepted; the DAG parser refuses every one of them at its type switch, dpop's probe every RSA / EC / octet / Ed25519 one"""
    test, _, res = line.partition(" ")
    secret = bool(vv.get("jhasd")) or vv.get("jkty") == "oct"
    if not secret:
        return None
    if res == "accept":
        return ("embedded-secret-jwk", f"a token whose jwk header holds secret key material (kty {vv.get('jkty')}, crv {vv.get('jcrv')!r}) was accepted")
    if test == "passed" and (c == "dagtxj" or vv.get("jkty") in ("EC", "RSA", "oct") or vv.get("jcrv") == "Ed25519"):
        return ("secret-jwk-not-refused", f"the private-key test let a jwk with secret key material through (kty {vv.get('jkty')}, crv {vv.get('jcrv')!r}); "
                "the token was rejected only by a later check")
    return None


GO_SPACE = set([9, 10, 11, 12, 13, 32, 0x85, 0xA0, 0x1680, 0x2028, 0x2029, 0x202F, 0x205F, 0x3000] + list(range(0x2000, 0x200B)))
B64URL = set(b"ABCDEFGHIJKLMNOPQRSTUVWXYZabcdefghijklmnopqrstuvwxyz0123456789-_")


def py_canonical(seg):
    """independent statement of 'the one spelling': alphabet only, no lone character, unused trailing bits zero"""
    import base64
    if any(ch not in B64URL for ch in seg) or len(seg) % 4 == 1:
        return False
    dec = base64.urlsafe_b64decode(seg + b"=" * (-len(seg) % 4))
    return base64.urlsafe_b64encode(dec).rstrip(b"=") == seg


def py_json_lead(b):
    """first rune after Go's unicode.IsSpace runes is `{` (invalid UTF-8 is no space)"""
    i = 0
    while i < len(b):
        for n in (1, 2, 3):
            try:
                ch = b[i:i + n].decode("utf-8")
            except UnicodeDecodeError:
                continue
            if len(ch) == 1 and ord(ch) in GO_SPACE:
                i += n
                break
            return n == 1 and ch == "{"
        else:
            return False
    return False


def bytes_oracle(op, line, derived):
    """direct oracles of the byte-level legs, on the implementation's own outputs; None or (kind, reason)"""
    o = op["op"]
    if o == "sigalg":
        want = {"P-256": "ES256", "P-384": "ES384", "P-521": "ES512"}
        if line not in derived + ["error"] or line in ("none", "", "HS256", "HS384", "HS512"):
            return ("derived-alg-not-listed", f"SignatureAlgorithm({op['name']}) = {line!r}")
        if op.get("kind") == "ecdsa" and op.get("curve") in want and line != want[op["curve"]]:
            return ("derived-alg-curve", f"SignatureAlgorithm of a {op['curve']} key is {line!r}, RFC 7518 says {want[op['curve']]}")
        if op.get("kind") in ("nil", "other") and line != "error":
            return ("derived-alg-for-no-key", f"SignatureAlgorithm({op['name']}) = {line!r}")
        if op.get("kind") == "rsa" and not line.startswith("PS") or op.get("kind") == "ed25519" and line != "EdDSA":
            return ("derived-alg-family", f"SignatureAlgorithm({op['name']}) = {line!r}")
        return None
    b = bytes.fromhex(op.get("hex", ""))
    if o == "b64" and line.endswith("canonical=true") and not py_canonical(b):
        return ("segment-second-spelling", f"segment {b!r} passes decode + re-encode-and-compare but is not the canonical spelling")
    compact_ok = b.count(b".") == 2 and all(py_canonical(x) for x in b.split(b"."))
    if o == "framing" and line == "true" and not py_json_lead(b) and not compact_ok:
        return ("non-canonical-bytes", f"isJWSSerialization({b[:80]!r}) = true: neither a JSON object nor three canonical base64url segments")
    if o == "framingtx" and line == "pass" and not py_json_lead(b) and not compact_ok:
        return ("non-canonical-bytes", f"ParseTransaction let {op['name']} through its framing test although the bytes are not the canonical compact "
                "serialisation (padding / CR / LF / other alphabet / trailing bits / extra segment): the same signed transaction gets a second reference")
    if o == "framingtx" and op.get("accepted") and op.get("same_content") and not op.get("identical") and py_json_lead(b):
        return ("json-serialisation-second-reference", f"ParseTransaction ACCEPTED {op['name']}: the JSON serialisation of an already signed transaction (any white space / member "
                "order gives other bytes): the same signed transaction gets any number of references")
    if o == "framingtx" and op.get("accepted") and op.get("same_content") and not op.get("identical") and not py_json_lead(b):
        return ("non-canonical-bytes", f"ParseTransaction ACCEPTED {op['name']}: a re-encoding of a signed transaction, other bytes hence another reference")
    return None


def run(ctx):
    facts = ctx.facts() or {}
    thms = ctx.build_and_audit(["NutsProofs.Props.C17", "NutsProofs.Props.C17Framing", "NutsProofs.Props.C17Fold", "NutsProofs.Props.C17Kid", "NutsProofs.Props.C17LdBytes", "NutsProofs.Props.C17Jar", "NutsProofs.Props.C17CaseVar"])
    required = ["allowed_lists_asymmetric", "accept_parseJWT", "accept_parseJWS", "accept_dpop", "accept_dagTx", "accept_dagTx_partial", "accept_dagTx_of_fact",
                "fact_dag_rejects_private_jwk", "fact_dag_framing_body", "fact_dag_kid_xor_jwk", "fact_alg_fits_key", "fits_is_the_algorithm_of_the_curve", "fact_verifiers_hold_no_key_state", "key_is_current_resolution",
                "accept_apiToken", "accept_jar", "accept_vcJwt", "accept_vcJsonLd", "fact_vcJsonLd", "fact_wiring", "accept_authzV1", "accept_ldProof", "fact_authzV1",
                "authzV1_without_kid_check_accepts_foreign_key", "header_keys_ignored", "apiToken_key_header_rejected",
                "parseJWS_splitCompact_mode_accepts_two_uncovered", "dagTx_without_private_check_accepts_private_jwk",
                "apiToken_atLeastOne_rule_accepts_two_signatures",
                "accept_ldProof_bytes", "xph_single_signature", "xph_agrees_with_parseJWT", "fact_extractProtectedHeaders", "fact_resolveSigningKey", "kid_issuer_test_exact", "kid_issuer_test_complete", "resolved_kid_is_issuers", "vcJwtSignatureK_refines", "accept_vcJwtK",
                "fact_fold_guard", "fact_caseVariantMember", "fold_s_k_orbits", "fold_ascii", "toLower_misses_long_s", "ambiguousMember_refuses_every_conflated_pair",
                "accept_vcJsonLdDoc", "toLower_guard_accepts_conflated_pair",
                "fact_dag_framing_consts", "fact_alphabet", "fact_signatureAlgorithm", "rawurl_roundtrip", "encode_is_canonical", "canonical_segment_unique",
                "canonical_segment_alphabet", "compact_shape", "compact_reference_unique", "compact_reference_unique_ref", "canonical_compact_passes",
                "json_form_admits_whitespace_variants", "parseTxFraming_pass", "accept_dagTx_bytes", "accepted_dagTx_one_reference", "derived_alg_listed", "derived_alg_fits_nist", "accept_ldProof_derived",
                "fact_parseJWT", "fact_parseJWS", "fact_dpopParse", "fact_dagTx", "fact_apiToken", "fact_jar_ldproof",
                "fact_dpop_private_probes", "dag_refuses_exactly_the_secret_jwks", "dpop_private_test_exact", "dpop_private_test_misses_other_okp_curves",
                "accept_dpopJ", "accept_dagTxJ",
                "fact_jar_keyset", "accept_jarSet", "jarSet_unpublished_kid_rejected", "jarSet_first_entry_decides", "jarValidateSet_refines",
                "jarSet_exit_ok_iff", "loopNoFound_accepts_every_unpublished_kid",
                "fact_caseVariant_loop", "fact_cvSep", "structLoop_none_iff", "structLoop_sound", "caseVariant_verdict_order_independent",
                "clean_document_decodes_exact_names", "vcJsonLdDocS_refines", "accept_vcJsonLdDocS", "exact_compare_misses_case_variant",
                "accepted_jsonld_reads_what_was_signed", "fact_ldProof_alg_source", "header_alg_rule_accepts_rs256", "ldProof_rsa_key_only_ps256"]
    for r in required:
        if not any(t.endswith("Props." + r) for t in thms):
            ctx.oblige("thm-present:" + r, False, "theorem missing or its module does not build")
    # the DAG statement is proved at full strength exactly when the parser refuses embedded private keys (regenerated fact)
    dag_full = bool(facts.get("dagRejectsPrivateJwk"))
    ctx.notes.append("dagTxStmt (full statement incl. 'embedded private key refused') is " +
                     ("PROVED: accept_dagTx_of_fact applies, the parser rejects private jwk headers" if dag_full else
                      "NOT proved: network/dag does not look at the kind of the embedded jwk (open finding C17:dagtx:embedded-private-jwk); "
                      "accept_dagTx_partial proves every other conjunct"))
    ctx.trusted += [
        "modelled, not verified: lestrrat-go/jwx (JWS parsing of both serialisations, what Signatures()/ProtectedHeaders() return, signature verification "
        "with (alg, key) incl. the alg/key-type fit, JWT claim parsing). Its verdicts on every generated token are data computed by the harness with the "
        "real library; the acceptance functions are the nuts-node code around it. 'verified over the exact bytes received' lives in that contract: the "
        "flipped-byte variants exercise it; jwx accepts non-canonical base64 (padding, std alphabet, unused trailing bits, a 4th segment) and verifies "
        "over the canonical re-encoding — same decoded content, counted in the evidence, not treated as a violation",
        "model scope: crypto/jwx.go (JWTKidAlg, ParseJWT, ParseJWS), crypto/dpop/dpop.go (Parse up to the claim checks), network/dag/parser.go "
        "(ParseTransaction signature discipline; the other header steps are one verdict) + verifier.go (NewTransactionSignatureVerifier), "
        "http/tokenV2/middleware.go (whole decision), auth/api/iam/jar.go (validate), vcr/verifier/signature_verifier.go (jwtSignature), and vcr/signature/proof/jsonld.go (LDProof.Verify) — the last one "
        "is harnessed in-package with its own variant list (detached JWS header / signature / document / proof options / key handed in)",
    ]
    ctx.assumptions += [
        "SupportedAlgorithms is the default build's list (the jwx_es256k build tag appends ES256K at init)",
        "jwx contract used by accept_dpop: an asymmetric algorithm never verifies with an octet (symmetric) jwk",
        "crypto.SignatureAlgorithm returns only the jwa constants that occur in its source (regenerated list keyDerivedAlgs)",
    ]

    allowed = {"parsejwt": facts.get("supportedAlgs", []), "parsejws": facts.get("supportedAlgs", []), "dpop": facts.get("supportedAlgs", []),
               "jar": facts.get("supportedAlgs", []), "vcjwt": facts.get("supportedAlgs", []),
               "authzv1": facts.get("supportedAlgs", []), "introspect": facts.get("supportedAlgs", []),
               "ldproof": facts.get("keyDerivedAlgs", []), "vcld": facts.get("keyDerivedAlgs", []), "vcldfold": facts.get("keyDerivedAlgs", []),
               "dagtx": facts.get("dagAllowedAlgs", []), "apitoken": (facts.get("apiPolicy") or {}).get("acceptableAlgs", [])}
    table = {}
    distinct = set()
    seen_sig = {}
    accepted_valid = Counter()
    jwk_tests = {"dpopj": Counter(), "dagtxj": Counter()}
    jarset_exits = Counter()
    casevar = Counter()
    reenc = Counter()
    total = total_bad = 0
    samples = []
    replay_c = None
    if ctx.replay:
        txt = open(ctx.replay).read()
        replay_c = ("c17dag" if ('"hex"' in txt or '"sigalg"' in txt) else "c17jar" if ('"jar"' in txt or '"jarset"' in txt) else "c17vc" if ('"vcjwt"' in txt or '"vcld"' in txt or '"vcldfold"' in txt or '"ambig"' in txt or '"casevar"' in txt or '"resolvekid"' in txt or '"xph"' in txt) else
                    "c17az" if ('"authzv1"' in txt or '"introspect"' in txt) else "c17ld" if '"ldproof"' in txt else "c17")
    for (pkg, files, name) in HARNESSES:
        if replay_c and replay_c != name:
            continue
        binary = ctx.go_test_binary(pkg, files, name)
        if binary is None:
            ctx.oblige("harness-builds:" + name, False, ctx.harness_error[-1500:])
            continue
        ctx.oblige("harness-builds:" + name, True)
        env = {}
        if ctx.replay:
            env["VERIF_REPLAY"] = os.path.abspath(ctx.replay)
        rc, log, out = ctx.run_harness(binary, TESTS[name], env, outdir=os.path.join(ctx.scratch, "out-" + name), timeout=2400)
        if rc != 0:
            ctx.oblige("harness-runs:" + name, False, log[-1500:])
            continue
        ctx.oblige("harness-runs:" + name, True)
        ops_p, impl_p, model_p = (os.path.join(out, x) for x in ("ops.jsonl", "impl.out", "model.out"))
        ok, err = ctx.model("C17", ops_p, model_p)
        ctx.oblige("model-driver-runs:" + name, ok, err[-500:])
        impl, model, bad = ctx.compare(impl_p, model_p)
        ops = ctx.read_lines(ops_p)
        total += len(impl)
        total_bad += len(bad)
        samples += [ops[0][:300] if ops else "", impl[0] if impl else ""]
        o_bad = o_unsuppressed = 0
        for i, line in enumerate(impl):
            if i >= len(ops) or not ops[i]:
                continue
            op = json.loads(ops[i])
            if op.get("op") == "xph":
                table.setdefault("xph", Counter())[f"{op.get('class')}:{line.split(':')[0]}"] += 1
                distinct.add(("xph", op["name"].split("-", 2)[-1]))
                sigs = (op.get("info") or {}).get("sigs") or []
                # headers are handed to the key resolver only for a token with exactly one signature, and they are that signature's protected ones
                if line.startswith("headers:") and line != "headers:," and (len(sigs) != 1 or line != f"headers:{sigs[0].get('alg', '')},{sigs[0].get('kid', '')}"):
                    o_bad += 1
                    sig = "C17:vcjwt:headers-of-another-signature"
                    if sig not in seen_sig:
                        seen_sig[sig] = 1 if ctx.violation(sig, f"ExtractProtectedHeaders('{op['name']}') = {line!r} for a token with {len(sigs)} signatures "
                                                           f"({[(x.get('alg'), x.get('kid')) for x in sigs][:3]}): the resolver's metadata is not the verified signature's protected header",
                                                           "xph-headers-of-another-signature.jsonl", json.dumps({"c": "vcjwt", "name": op["name"], "class": op.get("class")})) else 0
                    o_unsuppressed += seen_sig[sig]
                continue
            if op.get("op") == "resolvekid":
                table.setdefault("resolvekid", Counter())["asked-differs-from-kid" if line != op["kid"] else "asked-kid"] += 1
                distinct.add(("resolvekid", op["kid"][:12], op["issuer"][:12]))
                # whenever the kid <-> issuer test lets the token through, the key asked from the resolver must be one of the ISSUER's DID
                if op.get("passes_issuer_test") and "#" not in op["issuer"] and line.split("#")[0] != op["issuer"]:
                    o_bad += 1
                    sig = "C17:vcjwt:resolved-kid-not-of-issuer"
                    if sig not in seen_sig:
                        seen_sig[sig] = 1 if ctx.violation(sig, f"resolveSigningKey(kid={op['kid']!r}, issuer={op['issuer']!r}) asked the resolver for {line!r}, which is not a key id of the issuer's DID",
                                                           "resolvekid-not-of-issuer.jsonl", ops[i]) else 0
                    o_unsuppressed += seen_sig[sig]
                # the resolver is asked for exactly the token's kid (the issuer when absent); only a did:jwk DID without fragment is completed with #0
                want = op["kid"] or op["issuer"]
                if want.startswith("did:jwk:") and "#" not in want:
                    want += "#0"
                if line != want:
                    o_bad += 1
                    sig = "C17:vcjwt:resolved-kid-altered"
                    if sig not in seen_sig:
                        seen_sig[sig] = 1 if ctx.violation(sig, f"resolveSigningKey(kid={op['kid']!r}, issuer={op['issuer']!r}) asked the resolver for {line!r} instead of {want!r}: "
                                                           "the verification key is not the one the token's kid names", "resolvekid-altered.jsonl", ops[i]) else 0
                    o_unsuppressed += seen_sig[sig]
                continue
            if op.get("op") == "ambig":
                table.setdefault("ambig", Counter())[f"{line}:conflated={op.get('conflated')}"] += 1
                distinct.add(("ambig", line, op.get("conflated")))
                if line == "clean" and op.get("conflated"):
                    o_bad += 1
                    sig = "C17:vcld:conflated-members-not-refused"
                    if sig not in seen_sig:
                        seen_sig[sig] = 1 if ctx.violation(sig, f"ambiguousMember found nothing in {json.dumps(op['doc'], ensure_ascii=True)[:400]} although one object holds two members "
                                                           "that encoding/json reads as the same member (names equal under Unicode simple case folding)", "ambig-conflated-members-not-refused.jsonl", ops[i]) else 0
                    o_unsuppressed += seen_sig[sig]
                continue
            if op.get("op") == "casevar":
                table.setdefault("casevar", Counter())[f"{line}:{op['ty'].get('kind')}:variant={op.get('variant')}:conflated={op.get('conflated')}"] += 1
                distinct.add(("casevar", op["name"].split("-", 2)[-1], line, op.get("variant"), op.get("conflated")))
                casevar[line + (":variant" if op.get("variant") else "")] += 1
                # what the node reads must be what was signed: a top-level member that encoding/json stores in a field of the decoded struct
                # although it is not spelt like the field's JSON name (so the canonicalisation dropped it), or two conflated members anywhere
                if line == "clean" and (op.get("variant") or op.get("conflated")):
                    o_bad += 1
                    sig = "C17:vcld:case-variant-of-field-not-refused" if op.get("variant") else "C17:vcld:conflated-members-not-refused"
                    if sig not in seen_sig:
                        seen_sig[sig] = 1 if ctx.violation(sig, f"caseVariantMember({json.dumps(op['doc'], ensure_ascii=True)[:300]}, {op['name'].split('-', 2)[-1]} json tags {op['ty'].get('tags')}) found nothing "
                                                           "although " + ("a top-level member differs only by case from the JSON name of a field of the decoded type: encoding/json stores it in that field, "
                                                                          "the JSON-LD canonicalisation does not know it (unsigned content is read)" if op.get("variant") else
                                                                          "one object holds two members that encoding/json reads as the same member"),
                                                           "casevar-not-refused.jsonl", ops[i]) else 0
                    o_unsuppressed += seen_sig[sig]
                continue
            if op.get("op") in ("b64", "framing", "framingtx", "sigalg"):
                table.setdefault(op["op"], Counter())[line.split(":")[0] if op["op"] == "b64" else line] += 1
                distinct.add((op["op"], op["name"].split("-", 1)[-1]))
                if op["op"] == "framingtx" and op.get("accepted"):
                    accepted_valid["framingtx-json" if py_json_lead(bytes.fromhex(op["hex"])) else "framingtx"] += 1
                v = bytes_oracle(op, line, facts.get("keyDerivedAlgs", []))
                if v:
                    o_bad += 1
                    sig = f"C17:{'dagtx' if op['op'].startswith('framing') else op['op']}:{v[0]}"
                    if sig not in seen_sig:
                        seen_sig[sig] = 1 if ctx.violation(sig, f"{op['op']} '{op['name']}': {v[1]}", f"{op['op']}-{v[0]}.jsonl", ops[i]) else 0
                    o_unsuppressed += seen_sig[sig]
                continue
            if op.get("op") == "algfits":
                # direct oracle on the helper: a NIST-curve key fits exactly the algorithm of its curve (RFC 7518 3.4)
                want = {"P-256": "ES256", "P-384": "ES384", "P-521": "ES512"}.get(op["shape"].get("curve"))
                if op["shape"].get("kind") == "ecdsa" and want and (line == "true") != (op["alg"] == want):
                    sig = "C17:algfits:curve-algorithm-binding"
                    if sig not in seen_sig:
                        seen_sig[sig] = 1 if ctx.violation(sig, f"jwx.AlgorithmFitsKey({op['alg']!r}, {op['name']}) = {line}: the algorithm of {op['shape']['curve']} is {want}",
                                                           "algfits-curve-algorithm-binding.jsonl", ops[i]) else 0
                    o_bad += 1
                    o_unsuppressed += seen_sig[sig]
                continue
            c, cls = op["c"], op["class"]
            table.setdefault(c, Counter())[f"{cls}:{line}"] += 1
            distinct.add((c, op["name"]))
            if cls == "valid" and line == "accept":
                accepted_valid[c] += 1
            if cls == "reencoded" and line == "accept":
                reenc[c] += 1
            halg = op.get("halg", "") if c != "ldproof" else op.get("v", {}).get("keyalg", "")
            if c in ("dpopj", "dagtxj"):
                v = jwk_object_verdict(c, op.get("v", {}), line)
                jwk_tests[c][line] += 1
            elif c == "jarset":
                v = jarset_verdict(op, line)
                jarset_exits[line] += 1
            else:
                v = verdict(c, cls, halg, op.get("by", ""), line, allowed, op.get("env"))
            # DAG transactions are content-addressed by their bytes: what is accepted must be a JSON serialisation or
            # byte-identical to the canonical compact serialisation (verdict computed by the harness's own re-encode-and-compare)
            # JSON-LD: what the node READS must be what was SIGNED. A member that encoding/json reads as another member but that the
            # canonicalisation dropped (undefined term) is attacker-chosen content under the issuer's signature
            if not v and c == "vcldfold" and line == "accept" and (op.get("reads_differ") or op.get("conflated")):
                v = ("unsigned-member-read", "a JSON-LD document was accepted in which an object holds two members that encoding/json conflates (names equal under Unicode "
                     f"simple case folding, e.g. U+017F / U+212A); the node reads another value than the signed one: {bool(op.get('reads_differ'))}")
            # JSON-LD proof: the signature was really MADE with `signedalg` (hand-built by the harness). An accepted one must be made with an
            # algorithm on the shared allow-list AND with the one the resolved key determines (crypto.SignatureAlgorithm), never one a header names
            if not v and c == "ldproof" and line == "accept" and op.get("signedalg"):
                sa = op["signedalg"]
                if sa not in facts.get("supportedAlgs", []):
                    v = ("alg-not-allowed", f"a JSON-LD proof whose signature was made with {sa!r} (header alg {op.get('halg')!r}) was accepted: {sa} is not on the allow-list {facts.get('supportedAlgs')}")
                elif sa != op.get("v", {}).get("keyalg"):
                    v = ("alg-not-of-key", f"a JSON-LD proof made with {sa!r} was accepted although the key determines {op.get('v', {}).get('keyalg')!r}: the algorithm came from the proof's own header")
            if not v and c == "vcld" and line == "accept" and op.get("v", {}).get("nproofs") != 1:
                v = ("proof-set", f"a JSON-LD document with {op['v'].get('nproofs')} proofs was accepted (exactly one signature is required)")
            # the verification key is what the protocol's key source returns NOW: an accept although the (current) lookup failed means a
            # key remembered from an earlier request was used (long-lived verifier / middleware / server objects)
            if not v and line == "accept" and op.get("v", {}).get("keyfound") is False and c in ("dagtx", "jar", "vcjwt", "authzv1", "introspect", "parsejwt"):
                v = ("stale-key", f"accepted although the key source has no key for this kid now ({cls}): a key resolved earlier was reused")
            if not v and c == "introspect" and line == "accept" and not op.get("v", {}).get("ownkey"):
                v = ("foreign-key", "an access token whose kid is not one of this node's own keys was accepted by introspection")
            if not v and c == "dagtx" and line == "accept" and op.get("v", {}).get("framing") is False:
                v = ("non-canonical-bytes", "transaction bytes that are not a canonical compact serialisation (padding / CR / LF / other alphabet / "
                     "extra segment) were accepted: the same signed transaction gets a second reference")
            if v:
                o_bad += 1
                sig = f"C17:{c}:{v[0]}"
                if sig not in seen_sig:
                    seen_sig[sig] = 1 if ctx.violation(sig, f"consumer {c}, variant '{op['name']}' (class {cls}, header alg {op.get('halg')!r}, signed by {op.get('by')}): {v[1]}",
                                                       f"{c}-{v[0]}.jsonl", json.dumps({"c": c, "name": op["name"], "class": cls})) else 0
                o_unsuppressed += seen_sig[sig]
        ctx.oblige(f"oracle:accepted-tokens-obey-the-discipline(impl):{name}", o_unsuppressed == 0,
                   f"{o_bad} accepted hostile variants, {o_unsuppressed} not covered by an open known finding")
        if bad:
            i = bad[0]
            detail = (f"first differing line {i}\nop   : {ops[i][:900] if i < len(ops) else None}\nimpl : {impl[i][:100] if i < len(impl) else None}\n"
                      f"model: {model[i][:100] if i < len(model) else None}")
            ctx.oblige(f"correspondence:{name}:model=impl", False, f"{len(bad)} of {len(impl)} lines differ; " + detail[:1200])
            if o_bad == 0 and i < len(ops):
                op = json.loads(ops[i])
                with open(os.path.join(ctx.replay_dir(), f"correspondence-{name}.jsonl"), "w") as f:
                    f.write((ops[i] if "c" not in op else json.dumps({"c": op["c"], "name": op["name"], "class": op["class"]})) + "\n")
                ctx.unproved([f"correspondence C17/{name} (model.out != impl.out)"], detail + f"\nreplay: {ctx.replay_dir()}/correspondence-{name}.jsonl")
        else:
            ctx.oblige(f"correspondence:{name}:model=impl", True, f"{len(impl)} lines equal")
    if not ctx.replay:
        for c in ("parsejwt", "parsejws", "dpop", "dagtx", "apitoken", "jar", "vcjwt", "authzv1", "introspect", "ldproof", "vcld", "vcldfold"):
            ctx.oblige(f"non-vacuous:{c}-accepts-its-valid-token(impl)", accepted_valid[c] > 0, str(dict(accepted_valid)))
        for c in ("dpopj", "dagtxj"):
            ctx.oblige(f"non-vacuous:{c}-accepts-a-public-jwk-and-refuses-a-private-one(impl)",
                       jwk_tests[c]["passed accept"] > 0 and jwk_tests[c]["refused reject"] > 0, str(dict(jwk_tests[c])))
        ctx.oblige("non-vacuous:casevar-finds-a-variant-and-passes-a-clean-document(impl)", casevar["found:variant"] > 0 and casevar["clean"] > 0, str(dict(casevar)))
        ctx.oblige("non-vacuous:jarset-takes-all-three-exits(impl)",
                   jarset_exits["accept"] > 0 and jarset_exits["reject:client_id does not own signer key"] > 0 and
                   jarset_exits["reject:key mismatch between OpenID configuration and signer key"] > 0, str(dict(jarset_exits)))
        ctx.cov["jarset_exits"] = dict(jarset_exits)
        ctx.oblige("non-vacuous:framingtx-accepts-the-canonical-compact-transaction(impl)", accepted_valid["framingtx"] > 0, str(dict(accepted_valid)))
        ctx.cov["json_serialisations_of_a_signed_transaction_accepted"] = accepted_valid["framingtx-json"]

    ctx.cov["evaluations"] = total
    ctx.cov["distinct_nontrivial"] = len(distinct)
    ctx.cov["traces_validated_against_impl"] = total - total_bad
    ctx.cov["rule"] = ("one generator (vHostile) applied to a valid token of each consumer kind, per signer key (P-256, Ed25519, RSA-2048, P-384) and round: "
                       "alg -> none (7 spellings / missing), HS256/384/512 keyed with 5 encodings of the public key, 10 other algorithm names, properly signed "
                       "weaker RSA algorithms; JSON serialisation flattened/general with 0, 1, 2 signatures (valid+attacker in both orders, valid+valid, "
                       "valid+other party, valid+none, attacker+attacker, unprotected kid), split-confusion tokens (signature over a fixed prefix, payload "
                       "uncovered, 1 and 2 signatures); jwk public / private / symmetric, jku, x5u, x5c embedded by the signer and by an attacker (own kid and "
                       "victim's kid); kid of another party, kid removed, signed by attacker / by another party; N flipped bytes at random positions of the three "
                       "segments (same-bytes flips classed as re-encodings); re-encodings (padding, std alphabet, 4th segment, trailing dot, white space, "
                       "truncations, re-serialised header). Consumers: crypto.ParseJWT, crypto.ParseJWS, dpop.Parse, dag.ParseTransaction+signature verifier "
                       "(kid form and jwk form), tokenV2 middleware, and iam jar.validate (in-package, DID resolver + client key set mocked, 5 client environments per "
                       "variant: publishes the signer key / another key under the kid / not the kid / configuration unavailable / client_id mismatch), and the VC/VP "
                       "JWT consumer signatureVerifier.jwtSignature (in-package vcr/verifier, DID key resolver mocked). jarset: jar.validate against multi-entry client key sets "
                       "(empty, kid absent / once / twice with the right key first or second / three times, entries without kid, kid case / space / prefix variants, the signer's key "
                       "under other kids, 12 random sets) x (client's own request, request signed by another party under ITS OWN resolvable kid, by another client) with the exit taken. accept/reject vs model; direct oracle on the implementation's accepts. "
                       "distinct_nontrivial = distinct (consumer, variant name)")
    ctx.cov["input_distribution"] = {c: dict(t) for c, t in table.items()}
    ctx.cov["reencodings_accepted"] = dict(reenc)
    ctx.cov["samples"] = samples
