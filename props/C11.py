"""C11 — Revocation is effective, permanent and issuer-only; status-list slots are unique.
Lean: NutsProofs.Props.C11 over NutsModel.C11 (Bitstring, Revocation) + regenerated facts.
Correspondence: in-package harnesses on the real StatusList2021 (two nodes on SQLite, HMAC signer, virtual clock) and on the
real vcr/verifier (RegisterRevocation / Verify with forged revocation documents)."""
import json, os, re
from collections import Counter

PKG = "vcr/revocation"
HARNESS = ["vcr/revocation/zz_verif_c11_test.go"]
PKG_V = "vcr/verifier"
HARNESS_V = ["vcr/verifier/zz_verif_c11v_test.go"]
PKG_A = "vcr"
HARNESS_A = ["vcr/zz_verif_c11a_test.go"]
PKG_I = "vcr/issuer"
HARNESS_I = ["vcr/issuer/zz_verif_c11i_test.go"]
HARNESSES = [(PKG, HARNESS, "c11"), (PKG_V, HARNESS_V, "c11v"), (PKG_A, HARNESS_A, "c11a"), (PKG_I, HARNESS_I, "c11i")]

REQUIRED = ["entries_injective", "einv_fresh", "bit_set_get", "bit_total", "served_list_signed_and_fresh", "list_signed_in_same_transaction",
            "sign_failure_is_atomic", "refresh_iff_expired_or_too_old", "too_old_external_list_is_fetched", "fact_status_list_refresh_tree", "store_read_fault_never_accepts", "each_entry_judged_by_its_own_list", "fact_verify_soft_fail_scope", "fact_update_upserts_all_columns", "fact_revoke_credential_statements", "set_monotone", "served_bit_never_cleared", "revoke_idempotent", "revoked_forever_network", "revocation_before_credential",
            "revocation_event_stored_or_retried", "redelivered_revocation_effective", "fact_ambassador_transient_errors",
            "first_revocation_entry_is_first_relevant", "issuer_revoke_status_list_effective", "issuer_network_revocation_accepted",
            "fact_issuer_ambassador_store_sites", "issuer_only", "stored_revocations_accepted", "network_revocation_is_by_issuer", "forged_revocations_rejected",
            "foreign_prefix_witness", "issuer_only_stmt_false", "issuer_only_partial", "nuts_validators_enforce_prefix",
            "credential_never_panics", "revoked_forever_local", "revoke_effective", "revoked_forever_remote", "refresh_after_revocation_pins",
            "cache_sound", "status_only_from_named_list", "update_refuses_other_list", "fact_bitstring_arithmetic", "fact_constants",
            "fact_env_ok", "fact_status_list_url", "fact_entry_structure", "fact_revoke_and_credential_structure", "fact_status_verifier_structure",
            "fact_register_and_verify_order",
            # wire layer (deepening round): NutsProofs.Props.C11Wire
            "atoi_itoa_roundtrip", "atoi_fits_int", "index_strings_injective", "validated_entry_fields", "issued_entry_validates",
            "validated_entry_never_atoi_error", "wire_entries_distinct", "status_list_urls_injective", "wire_entries_distinct_same_base", "fact_entry_validate_order", "fact_entry_literal_and_strconv_sites",
            # validAt (NutsProofs.Props.C11ValidAt)
            "revoked_whatever_valid_at", "received_revocation_refused_at_every_valid_at", "revoked_forever_network_at_every_valid_at",
            # base URL changes (NutsProofs.Props.C11Rebase)
            "slots_unique_across_url_changes", "entry_update_independent_of_base", "fact_entry_update_key",
            # credentialStatus syntax check in front of the revocation logic (NutsProofs.Props.C11CredStatus)
            "validated_credential_entries_wellformed", "verify_wire_relevant_entries_have_index", "malformed_status_refused_before_revocation_logic",
            "fact_default_validator_chain", "fact_validate_credential_status_chain",
            # REPROCESS path (NutsProofs.Props.C11Reprocess)
            "reprocess_same_as_delivery", "reprocessed_revocation_effective", "reprocess_other_content_is_inert", "fact_reprocess_callback_switch",
            # vcr.Resolve / vcr.Search (NutsProofs.Props.C11Resolve)
            "verify_trust_at_refines", "resolve_never_presents_revoked_as_valid", "resolve_valid_only_if_not_revoked", "resolve_revoked_says_revoked",
            "search_omits_revoked", "resolve_after_revocation_in_history", "fact_resolve_and_search_sites",
            # VerifyVP (NutsProofs.Props.C11Present)
            "vp_accepted_only_without_revoked_credentials", "vp_with_revoked_credential_refused", "vp_of_revoked_credential_says_revoked", "fact_verify_vp_chain",
            "credRevoked_after_register", "search_after_revocation_in_history", "vp_after_revocation_in_history",
            # JSON typing of status entries (NutsProofs.Props.C11CredStatusJson)
            "validate_json_refines_wire", "validated_entries_have_string_index", "non_string_index_refused"]

ENTRY_RE = re.compile(r"(n\d+/\S+/\d+) (\S+) wf=(\w+)")


def scenario_ops(ops, i):
    """ops of the scenario containing line i, up to and including i (scenario = from the last reset)"""
    if json.loads(ops[i]).get("op") in ("wire", "url"):
        return ops[i] + "\n"
    k = i
    while k > 0 and json.loads(ops[k]).get("op") != "reset":
        k -= 1
    return "\n".join(ops[k:i + 1]) + "\n"


def ref_atoi(s):
    """reference of strconv.Atoi for a 64-bit int: optional sign, ASCII digits only, value in range; None = error"""
    if re.fullmatch(r"[+-]?[0-9]+", s) and -2**63 <= int(s) < 2**63:
        return int(s)
    return None


def oracle(ctx, ops, impl, max_index, min_left_min, max_age=900):
    """direct property checks on the implementation's own output lines"""
    issued = {}        # (node, list, idx) -> line   (per scenario)
    issued_lists = set()   # (node, list) lists that exist on a node (an entry was handed out)
    revoked = {}       # (node, list) -> set(idx) successfully revoked
    served = {}        # (node, list) -> last served bit set
    seen_revoked = set()  # (node, list, idx) a verify on that node answered revoked
    url_seen = {}         # rendered status list URL -> (base, issuer, page)
    hosted_valid = {}     # foreign url -> union of the bits of every valid revocation list ever hosted there in this scenario
    hosted_now = {}       # foreign url -> what it serves now
    clock = 0             # virtual seconds since the scenario started (sum of the ticks)
    first_stored = {}     # (node, foreign url) -> clock of the first successful download (gorm keeps created_at of the first insert)
    last_dl = {}          # (verifier node, list name of the other node) -> revoked set of the hosting node at the last successful download
    cached_foreign = {}   # (node, url, idx) -> True while a valid list with that bit was downloaded and the host has not served another valid list since
    stats = Counter()
    bad = []

    def report(sig, what, i):
        stats["oracle-violations"] += 1
        if sig not in [b[0] for b in bad]:
            bad.append((sig, what, i))

    for i, line in enumerate(impl):
        if i >= len(ops) or not ops[i]:
            continue
        op = json.loads(ops[i])
        kind = op.get("op")
        node = op.get("node", 0)
        if line.startswith("panic:") or " panic:" in line:
            report("C11:panic", f"operation {kind} panicked: {line[:200]}", i)
        if kind == "tick":
            clock += op.get("secs", 0)
        if kind == "reset":
            clock, first_stored = 0, {}
            issued_lists = set()
            issued, revoked, served, seen_revoked, hosted_valid, hosted_now, cached_foreign, last_dl = {}, {}, {}, set(), {}, {}, {}, {}
        elif kind == "host":
            h = op["host"]
            hosted_now[h["url"]] = h
            if h["kind"] in ("ok", "noexp", "suspension"):   # a different list that verifies may legitimately replace the cached one
                for k3 in [k3 for k3 in cached_foreign if k3[1] == h["url"]]:
                    del cached_foreign[k3]
            if (h.get("len") or 0) > 16384:
                stats["hosted-lists-larger-than-16kB"] += 1
            if h["kind"] in ("ok", "noexp"):
                hosted_valid.setdefault(h["url"], set()).update(h.get("bits") or [])
        elif kind in ("entry", "race", "par", "mix"):
            if kind == "mix":
                stats["concurrent-mixes"] += 1
                if "mid=ok" not in line:
                    report("C11:list-served-during-concurrent-revocation-invalid-or-not-monotone", line[-300:], i)
                for m in re.finditer(r"(n\d+/[^ /]+/\d+)#(\d+):([a-z:-]+)", line):
                    k2 = (node, m.group(1))
                    if m.group(3) == "ok":
                        if int(m.group(2)) in revoked.get(k2, set()):
                            report("C11:revoke-accepted-twice", f"{m.group(1)}#{m.group(2)}", i)
                        revoked.setdefault(k2, set()).add(int(m.group(2)))
                    elif m.group(3) == "revoked":
                        stats["re-revocations"] += 1
                    else:
                        report("C11:revoke-of-issued-entry-failed-under-concurrency", m.group(0), i)
                for m in re.finditer(r"(n\d+/[^ /=]+/\d+)=\[([0-9,]*)\]", line.split("after=")[1]):
                    bits = set(int(x) for x in m.group(2).split(",") if x)
                    if bits != revoked.get((node, m.group(1)), set()):
                        report("C11:served-bits-differ-from-revocations", f"{m.group(1)}: served {sorted(bits)} revoked {sorted(revoked.get((node, m.group(1)), set()))}", i)
                    served[(node, m.group(1))] = bits
            for m in ENTRY_RE.finditer(line.split(" revokes=")[0]):
                stats["entries"] += 1
                if not m.group(2).isdigit() or m.group(2) != str(int(m.group(2))):
                    report("C11:malformed-entry", f"statusListIndex {m.group(2)!r} is not a canonical decimal: {line[:200]}", i)
                    continue
                key = (node, m.group(1), int(m.group(2)))
                if key in issued:
                    report("C11:status-list-position-handed-out-twice", f"{key} returned by lines {issued[key]} and {i}", i)
                issued[key] = i
                issued_lists.add((node, m.group(1)))
                if int(m.group(2)) > max_index:
                    report("C11:status-list-index-beyond-bitstring", f"{key}", i)
                if m.group(3) != "true":
                    report("C11:malformed-entry", line[:200], i)
                if int(m.group(2)) == 0 and not m.group(1).endswith("/1"):
                    stats["rollover-entries"] += 1
            if kind == "race" and "competitor=none" not in line:
                stats["duplicate-key-retries"] += 1
        elif kind == "revoke":
            lst = op["list"]
            name = f"n{lst['node']}/{lst.get('issuer','')}/{lst.get('page',0)}"
            if ref_atoi(op.get("idx", "")) is None:
                # Revoke parses the index first: what a decimal 64-bit parser refuses must be refused as such, never acted upon
                stats["revoke-with-unparsable-index"] += 1
                if line != "revoke err:atoi":
                    report("C11:revoke-acts-on-unparsable-status-list-index", f"statusListIndex {op.get('idx')!r}: {line}", i)
                continue
            elif op.get("idx") != str(ref_atoi(op["idx"])):
                stats["revoke-with-alias-spelling-of-index"] += 1
            if line == "revoke ok":
                stats["revocations"] += 1
                if int(op["idx"]) in revoked.get((node, name), set()):
                    report("C11:revoke-accepted-twice", f"{name}#{op['idx']}", i)
                revoked.setdefault((node, name), set()).add(int(op["idx"]))
            elif line == "revoke err:sign":
                stats["revoke-with-failing-signer"] += 1
            elif line == "revoke revoked":
                stats["re-revocations"] += 1
                if int(op["idx"]) not in revoked.get((node, name), set()):
                    report("C11:revoke-reports-revoked-for-unrevoked-entry", line, i)
            if (line not in ("revoke revoked", "revoke ok") and op.get("purpose") == "revocation" and op.get("idx", "").isdigit()
                    and int(op["idx"]) in revoked.get((node, name), set())):
                report("C11:revoke-not-idempotent", f"second revoke of {name}#{op['idx']} answered {line}", i)
        elif kind in ("serve", "serverace") and " issuer=" in line:
            stats["served"] += 1
            if kind == "serverace":
                rv = line.split()[1].split("=", 1)[1]
                if rv != "none":
                    stats["revoke-inside-credential"] += 1
                if rv == "ok":
                    revoked.setdefault((node, f"n{node}/{op['issuer']}/{op['page']}"), set()).add(int(op["idx"]))
            f = dict(kv.split("=", 1) for kv in line.split()[1:] if "=" in kv)
            bits = set(int(x) for x in f["bits"].strip("[]").split(",") if x)
            key = (node, f["subj"])
            if f["sig"] != "ok":
                report("C11:served-list-not-validly-signed", line[:200], i)
            if f["ttl"] == "none" or int(f["ttl"]) < min_left_min:
                report("C11:served-list-about-to-expire", line[:200], i)
            if not served.get(key, set()) <= bits:
                report("C11:set-bit-cleared", f"{key}: {sorted(served[key])} then {sorted(bits)}", i)
            if bits != revoked.get(key, set()):
                report("C11:served-bits-differ-from-revocations", f"{key}: served {sorted(bits)} revoked {sorted(revoked.get(key, set()))}", i)
            if int(f["age"]) > 0:
                stats["served-cached"] += 1
            if bits:
                stats["served-nonempty"] += 1
            served[key] = bits
        elif kind == "verify":
            stats["verifies"] += 1
            c = op["cred"]
            rel = [s for s in c.get("statuses", []) if s["type"] == "StatusList2021Entry" and s["purpose"] == "revocation"] if not c.get("nostatus") else []
            v = line.split()[1]
            # every download of a foreign URL that serves a list which verifies stores a record (whatever the credential looks like)
            _fs_before = dict(first_stored)
            for url in re.findall(r"raw:([^,\]]+)", line.split("dl=")[1]):
                if (node, url) not in first_stored and hosted_now.get(url, {}).get("kind") in ("ok", "noexp", "suspension"):
                    first_stored[(node, url)] = clock
            if op.get("down"):
                stats["verify-with-endpoint-down"] += 1
            # successful downloads of another node's list in this verification: what the stored row must hold afterwards
            for name in re.findall(r"n\d+/[^,\]]+", line.split("dl=")[1]):
                host = int(name[1:name.index("/")])
                if host != node and host not in (op.get("down") or []) and (host, name) in issued_lists:
                    last_dl[(node, name)] = set(revoked.get((host, name), set()))
            if v == "revoked":
                stats["verify-revoked"] += 1
            if len(rel) == 1 and ref_atoi(rel[0]["idx"]) is None:
                stats["verify-with-unparsable-index"] += 1
                if v in ("ok", "revoked"):
                    report("C11:verify-acts-on-unparsable-status-list-index", f"statusListIndex {rel[0]['idx']!r}: answer {v}", i)
            if "dl=[]" not in line:
                stats["verify-with-download"] += 1
            if len(rel) >= 2 and all(x["idx"].isdigit() and int(x["idx"]) <= max_index and x["list"]["node"] >= 0 for x in rel):
                # several entries: each is judged by the list IT names. Walk them in order as far as the outcome is determined
                # by what this run knows: lists of the verifying node itself (always current) or lists downloaded right now.
                stats["verify-multi-entry"] += 1
                dl = line.split("dl=")[1]
                expected = "ok"
                for x in rel:
                    lx = x["list"]
                    nm = f"n{lx['node']}/{lx.get('issuer','')}/{lx.get('page',0)}"
                    if (lx["node"], nm) not in issued_lists or not (lx["node"] == node or nm in dl):
                        expected = None
                        break
                    if int(x["idx"]) in revoked.get((lx["node"], nm), set()):
                        expected = "revoked"
                        break
                if expected is not None and len({(x["list"]["node"], x["list"].get("issuer"), x["list"].get("page")) for x in rel}) > 1:
                    stats["verify-multi-entry-different-lists-decided"] += 1
                    if v != expected:
                        report("C11:entry-not-judged-by-the-list-it-names",
                               f"node {node}: entries {[(x['list'].get('issuer'), x['list'].get('page'), x['idx']) for x in rel]} expected {expected}, answer {v}", i)
            if len(rel) == 1 and rel[0]["idx"].isdigit():
                s = rel[0]
                lst = s["list"]
                name = f"n{lst['node']}/{lst.get('issuer','')}/{lst.get('page',0)}" if lst["node"] >= 0 else "raw:" + lst.get("raw", "")
                key = (node, name, int(s["idx"]))
                if lst["node"] < 0:
                    url = lst.get("raw", "")
                    asked = ("raw:" + url) in line.split("dl=")[1]
                    fs = _fs_before.get((node, url))
                    if not asked and (fs is None or clock - fs > max_age):
                        report("C11:stale-external-list-not-refreshed-after-max-age",
                               f"node {node}, {url}: " + ("no record yet" if fs is None else f"first stored {clock - fs} s ago (> {max_age} s)") +
                               f", host serves kind={hosted_now.get(url, {}).get('kind')}; the verification did not ask the host; answer {v}", i)
                    if asked and fs is not None:
                        stats["external-list-refreshes"] += 1
                    k3 = (node, lst.get("raw", ""), int(s["idx"]))
                    if v == "revoked":
                        cached_foreign[k3] = True
                        if any(hh.get("kind") == "wrongsubject" and (hh.get("subject") or {}).get("raw") == url and hh.get("url") != url for hh in hosted_now.values()):
                            stats["verify-after-another-url-served-a-list-claiming-this-one"] += 1
                    elif k3 in cached_foreign and any(hh.get("kind") == "wrongsubject" and (hh.get("subject") or {}).get("raw") == url and hh.get("url") != url for hh in hosted_now.values()):
                        stats["verify-after-another-url-served-a-list-claiming-this-one"] += 1
                        report("C11:revocation-not-permanent:cached-list-replaced-by-a-list-served-from-another-url",
                               f"{k3}: revoked before from the list the credential names; since then only ANOTHER url served a list claiming to be {url} "
                               f"(a status entry is honoured only from the list the credential itself names); answer {v}", i)
                    elif k3 in cached_foreign:
                        report("C11:cached-revocation-lost-after-failed-refresh",
                               f"{k3}: revoked before; since then the host only served failures / lists that do not verify; answer {v}", i)
                if v == "revoked":
                    # honoured only from the list the credential names: the bit must really be revoked on the hosting node
                    if lst["node"] >= 0 and int(s["idx"]) not in revoked.get((lst["node"], name), set()):
                        report("C11:revoked-without-revocation-on-named-list", f"{key}", i)
                    if lst["node"] < 0 and int(s["idx"]) not in hosted_valid.get(lst.get("raw", ""), set()):
                        report("C11:revoked-from-a-list-that-is-not-a-valid-list-of-the-named-url",
                               f"{key}: no validly signed revocation list naming this URL with that bit was ever hosted there", i)
                    if lst["node"] >= 0:   # permanence is claimed for lists served by a node (a foreign host may serve anything)
                        seen_revoked.add(key)
                else:
                    hn = hosted_now.get(lst.get("raw", "")) if lst["node"] < 0 else None
                    if (hn and hn["kind"] in ("ok", "noexp") and int(s["idx"]) in (hn.get("bits") or [])
                            and ("raw:" + lst["raw"]) in line.split("dl=")[1]):
                        report("C11:revoked-position-of-a-refreshed-list-not-honoured",
                               f"{key}: the list was downloaded in this verification, it is valid and has the bit set (list of {hn.get('len') or 16384} bytes); answer {v}", i)
                    if key in seen_revoked:
                        report("C11:revocation-not-permanent", f"{key} was revoked for this node before, now {v}", i)
                    if lst["node"] == node and int(s["idx"]) in revoked.get((node, name), set()):
                        report("C11:revocation-not-effective-on-issuing-node", f"{key} answered {v}", i)
                    if lst["node"] >= 0 and lst["node"] != node and name in line.split("dl=")[1] and int(s["idx"]) in revoked.get((lst["node"], name), set()):
                        report("C11:revocation-not-effective-after-refresh", f"{key} answered {v} although the list was downloaded", i)
        elif kind == "record" and line.startswith("record purpose="):
            lst = op["list"]
            name = f"n{lst['node']}/{lst.get('issuer','')}/{lst.get('page',0)}"
            if lst["node"] >= 0 and lst["node"] != node and (node, name) in last_dl:
                stats["records-of-downloaded-lists"] += 1
                bits = set(int(x) for x in re.search(r"bits=\[([0-9,]*)\]", line).group(1).split(",") if x)
                if bits != last_dl[(node, name)]:
                    report("C11:stored-list-differs-from-the-last-downloaded-list",
                           f"node {node} holds {sorted(bits)} for {name}; the list it downloaded last had {sorted(last_dl[(node, name)])}", i)
        elif kind == "rebase":
            # the node's public URL changed: positions stay unique (also against everything handed out before) and every
            # entry handed out can be revoked
            stats["base-url-changes"] += 1
            m = re.match(r"rebase entries=\[(.*)\] revokes=\[(.*)\]", line)
            if not m:
                report("C11:rebase-line-malformed", line[:200], i)
                continue
            ents = [x.split() for x in m.group(1).split(" ; ") if " wf=" in x]
            revs = m.group(2).split()
            for k, (name, idx, wf) in enumerate(ents):
                key = (node, name, int(idx) if idx.isdigit() else idx)
                stats["entries-after-base-url-change"] += 1
                if name.startswith("n"):
                    stats["entries-after-base-url-change-on-existing-page"] += 1
                if key in issued:
                    report("C11:status-list-position-handed-out-twice",
                           f"{key} returned again after the node's base URL changed to {op.get('raw')} (lines {issued[key]} and {i})", i)
                issued[key] = i
                if wf != "wf=true" or not idx.isdigit():
                    report("C11:malformed-entry", line[:200], i)
                    continue
                if int(idx) > max_index:
                    report("C11:status-list-index-beyond-bitstring", f"{key}", i)
                if k < len(revs) and revs[k] == "ok":
                    revoked.setdefault((node, name), set()).add(int(idx))
                else:
                    report("C11:issued-entry-cannot-be-revoked",
                           f"{name}#{idx} was handed out after the base URL changed to {op.get('raw')}; Revoke answers {revs[k] if k < len(revs) else 'nothing'}", i)
        elif kind == "url":
            # the URL a status list is served under / named by: <base>/statuslist/<did>/<page>, never shared by two lists
            stats["status-list-urls"] += 1
            u = line[4:]
            want = f"{op.get('raw', '')}/statuslist/{op.get('issuer', '')}/{op.get('page', 0)}"
            if u != want:
                report("C11:status-list-url-rendering", f"expected {want}, got {u}", i)
            key = (op.get("raw", ""), op.get("issuer", ""), op.get("page", 0))
            if url_seen.setdefault(u, key) != key:
                report("C11:two-status-lists-share-a-url", f"{u}: {url_seen[u]} and {key}", i)
        elif kind == "wire":
            # independent reference of the spec of StatusList2021Entry.Validate / strconv.Atoi / strconv.Itoa (64-bit int)
            stats["wire-cases"] += 1
            f = dict(x.split("=", 1) for x in line.split()[1:] if "=" in x)
            idx = op.get("idx", "")
            ref = ref_atoi(idx)
            want_atoi = "err" if ref is None else str(ref)
            if f.get("atoi") != want_atoi:
                report("C11:status-list-index-misparsed", f"statusListIndex {idx!r}: Atoi gave {f.get('atoi')}, a 64-bit decimal parser gives {want_atoi}", i)
            wellformed = (op.get("id", "") != op.get("raw", "") and op.get("type", "") == "StatusList2021Entry" and op.get("purpose", "") != ""
                          and ref is not None and ref >= 0 and op.get("urlok", False))
            if f.get("validate") == "ok" and not wellformed:
                report("C11:malformed-status-entry-passes-validation", f"entry {ops[i][:300]} accepted by Validate", i)
            if f.get("validate") != "ok" and wellformed:
                report("C11:wellformed-status-entry-refused", f"entry {ops[i][:300]}: {f.get('validate')}", i)
            stats["wire-validate-" + f.get("validate", "?").replace("err:", "")] += 1
            if f.get("itoa") != str(op.get("n", 0)) or f.get("rt") != "ok":
                report("C11:status-list-index-print-parse-round-trip", f"n={op.get('n', 0)}: {line[:200]}", i)
            if f.get("intsize") != "64":
                report("C11:int-is-not-64-bit", line[:200], i)
        elif kind == "bits":
            stats["bitstring-cases"] += 1
            if "rt=ok" not in line:
                report("C11:compress-expand-round-trip", line[:200], i)
    return stats, bad


def voracle(ops, impl):
    """direct property checks on the real vcr/verifier's answers (network revocations)"""
    stats = Counter()
    bad = []
    accepted = {}   # subject -> set(issuer named by an accepted revocation)
    refused_honest = {}  # subject -> set(issuer) whose own properly signed revocation was refused as issuer-mismatch
    seen_creds = set()   # (id, issuer) verified in this scenario

    def report(sig, what, i):
        if sig not in [b[0] for b in bad]:
            bad.append((sig, what, i))

    def pre(s):
        return s.split("#")[0]

    for i, line in enumerate(impl):
        if i >= len(ops) or not ops[i]:
            continue
        op = json.loads(ops[i])
        kind = op.get("op")
        if "panic:" in line:
            report("C11:panic", f"operation {kind} panicked: {line[:200]}", i)
        if kind == "vreset":
            accepted, refused_honest, seen_creds = {}, {}, set()
        elif kind == "vregister":
            stats["register"] += 1
            subj = op["subject"] + ("x" if op.get("tamper") == "subject" else "")
            honest = (op["vm"] == op["signer"] and pre(op["vm"]) == op["issuer"] and op.get("tamper", "") in ("", "reason") and not op.get("drop"))
            if line == "vregister ok":
                stats["register-accepted"] += 1
                forged = []
                if pre(subj) != op["issuer"]:
                    forged.append("names-another-issuer-than-id-prefix")
                if pre(op["vm"]) != op["issuer"]:
                    forged.append("key-of-another-party")
                if op["vm"] != op["signer"]:
                    forged.append("signed-with-another-key")
                if op.get("tamper", "") not in ("", "reason"):
                    forged.append("changed-after-signing")
                if op.get("drop"):
                    forged.append("required-field-missing")
                if forged:
                    report("C11:forged-revocation-accepted:" + "+".join(forged), f"{ops[i][:300]}", i)
                accepted.setdefault(subj, set()).add(op["issuer"])
            else:
                stats["register-rejected:" + line.split()[1]] += 1
                if honest and line == "vregister err:issuer-mismatch":
                    refused_honest.setdefault(subj, set()).add(op["issuer"])
                elif honest and "#" in subj:
                    report("C11:honest-revocation-refused", f"{line} for {ops[i][:300]}", i)
        elif kind == "visrevoked":
            if (line == "visrevoked true") != (op["id"] in accepted):
                report("C11:isrevoked-disagrees-with-accepted-revocations", f"{op['id']} {line}", i)
        elif kind == "vvp":
            # a presentation: accepted (credentials returned) only if the node holds a revocation for none of its credentials
            ids = [c["id"] for c in op.get("creds", [])]
            rev = [c for c in ids if c in accepted]
            at = op.get("at", 0)
            stats[f"vp:n={len(ids)}:revoked-inside={len(rev)}:{'verifyVCs' if not op.get('noverifyvcs') else 'no-vc-verification'}:at={'nil' if not at else ('past' if at < 0 else 'future')}"] += 1
            if "credentials-returned-with-error" in line:
                report("C11:presentation-refused-but-credentials-returned", line, i)
            if rev and not op.get("noverifyvcs") and line.startswith("vvp ok"):
                report("C11:presentation-with-revoked-credential-accepted",
                       f"{rev[0]} has an accepted revocation; VerifyVP(verifyVCs=true, validAt = now{at:+d} min) of a presentation of {len(ids)} credentials answers '{line}'", i)
            wellformed = (not rev and op.get("holder") == op["presenter"] and op.get("vpsig") != "bad" and (at == 0 or at >= -45)
                          and all(c["subject"] == op["presenter"] and c["id"].split("#")[0] == c["issuer"] and
                                  (c.get("proof") == "good" or (not c.get("proof") and c["issuer"] == op["presenter"])) for c in op.get("creds", [])))
            if wellformed and line != f"vvp ok n={len(ids)}":
                report("C11:revoked-without-revocation" if "revoked" in line else "C11:wellformed-presentation-refused", f"{line} for {ops[i][:300]}", i)
        elif kind == "vverify":
            stats["verify"] += 1
            cid, iss = op.get("id", ""), op["issuer"]
            if not cid:
                if line != "vverify err:validation":
                    report("C11:credential-without-id-not-refused", f"{line}", i)
                continue
            seen_creds.add((cid, iss))
            if op.get("kind") == "nutsorg" and pre(cid) != iss:
                if line != "vverify err:validation":
                    report("C11:nuts-validator-accepts-foreign-id-prefix", f"{line} for {ops[i][:300]}", i)
                continue
            # the validator runs first: a malformed StatusList2021Entry (or a missing context) is refused before the revocation
            # store / status lists are consulted — whatever the store says
            malformed = None
            for st in op.get("statuses") or []:
                mal = st.get("mal", "")
                if mal == "othertype":
                    continue
                n = ref_atoi(st.get("idx", ""))
                if mal in ("numidx", "boolidx", "objidx", "nullidx", "numpurpose"):
                    stats["verify-with-non-string-json-member:" + mal] += 1
                if mal in ("noid", "idislist", "notype", "nopurpose", "badurl", "numidx", "boolidx", "objidx", "nullidx", "numpurpose") or n is None or n < 0 or op.get("noslctx"):
                    malformed = st
                    break
            if op.get("statuses"):
                stats["verify-with-status-entries"] += 1
            if malformed is not None:
                stats["verify-with-malformed-status-entry"] += 1
                if line != "vverify err:validation:status":
                    report("C11:malformed-credential-status-reaches-revocation-logic", f"{malformed} noslctx={op.get('noslctx', False)}: {line}", i)
                continue
            if line == "vverify err:validation:status":
                report("C11:wellformed-credential-status-refused", f"{ops[i][:300]}: {line}", i)
                continue
            if op.get("storefault"):
                stats["verify-with-store-read-fault"] += 1
                if line == "vverify ok":
                    report("C11:credential-accepted-while-the-revocation-store-cannot-be-read",
                           f"{cid} ({'revocation present' if cid in accepted else 'no revocation'}): {line}", i)
                continue
            if op.get("at"):
                stats["verify-with-explicit-validAt"] += 1
            if cid in accepted:
                stats["verify-with-revocation-present"] += 1
                if op.get("at"):
                    stats["verify-with-revocation-present-and-explicit-validAt"] += 1
                if line != "vverify revoked":
                    report("C11:revocation-not-effective-or-not-permanent", f"{cid} has an accepted revocation, answer {line}"
                           + (f" (Verify asked with validAt = now{op['at']:+d} min; a received revocation counts for every validAt)" if op.get("at") else ""), i)
                elif iss not in accepted[cid]:
                    stats["foreign-prefix:revoked-by-prefix-owner"] += 1
                    report("C11:foreign-id-prefix:revoked-by-prefix-owner",
                           f"credential {cid} of issuer {iss} is answered revoked; the only accepted revocations name {sorted(accepted[cid])}", i)
            elif line == "vverify revoked" and not op.get("statuses"):
                report("C11:revoked-without-revocation", f"{cid} {line}", i)
            if iss in refused_honest.get(cid, set()) and line != "vverify revoked":
                stats["foreign-prefix:issuer-revocation-refused"] += 1
                report("C11:foreign-id-prefix:issuer-revocation-refused",
                       f"issuer {iss} revoked its credential {cid} with a properly signed revocation; it was refused (issuer-mismatch) and the credential verifies: {line}", i)
    return stats, bad


def aoracle(ops, impl):
    """the real ambassador: a delivered, acceptable revocation is stored or the event is retried, never dropped for a transient error"""
    stats = Counter()
    bad = []
    stored = set()
    creds, trusted = {}, set()

    def report(sig, what, i):
        if sig not in [b[0] for b in bad]:
            bad.append((sig, what, i))

    for i, line in enumerate(impl):
        if i >= len(ops) or not ops[i]:
            continue
        op = json.loads(ops[i])
        kind = op.get("op")
        if "panic:" in line:
            report("C11:panic", f"{line[:200]}", i)
        if kind == "awire":
            stats["wiring-checks"] += 1
            if line != "awire vcr_revocations:[rev=stored vc=- txevent=-] vcr_vcs:[rev=- vc=- txevent=-]":
                report("C11:ambassador-wiring:revocation-events-do-not-reach-RegisterRevocation-or-others-do", line[:300], i)
        if kind == "areset":
            stored = set()
            creds, trusted = {}, set()
        elif kind == "astore":
            if line == "astore ok":
                creds[op["id"]] = bool(op.get("exp"))
            elif line != "astore exists":
                report("C11:credential-store-failed", line[:200], i)
        elif kind == "atrust":
            trusted.add(op["issuer"])
        elif kind in ("aresolve", "asearch"):
            # the node's own answers (vcr.Resolve / vcr.Search) for credentials of its store, asked about resolveTime = now+at min
            at = op.get("at", 0)

            def valid_at(cid):
                return at >= -60 and not (creds[cid] and at > 60)
            when = f"resolveTime = now{at:+d} min" if at else "resolveTime = nil"
            if kind == "aresolve":
                cid = op["id"]
                stats[f"resolve:{'revoked' if cid in stored else 'not-revoked'}:{'stored' if cid in creds else 'absent'}:at={'nil' if not at else ('past' if at < 0 else 'future')}"] += 1
                if cid in stored and cid in creds and line != "aresolve cred=true revoked":
                    report("C11:resolve-presents-revoked-credential-as-valid" if line == "aresolve cred=true ok" else "C11:resolve-of-revoked-credential-not-answered-revoked",
                           f"{cid} has an accepted revocation; vcr.Resolve ({when}) answers '{line}' (a received revocation counts for every resolveTime)", i)
                if cid not in creds and line != "aresolve cred=false notfound":
                    report("C11:resolve-answers-for-a-credential-not-in-the-store", f"{cid}: {line}", i)
                if cid in creds and cid not in stored:
                    want = "aresolve cred=true untrusted" if cid.split("#")[0] not in trusted else ("aresolve cred=true ok" if valid_at(cid) else "aresolve cred=false err:not-valid-at-time")
                    if line != want:
                        report("C11:revoked-without-revocation" if "revoked" in line else "C11:resolve-answer-unexpected", f"{cid} ({when}): expected '{want}', got '{line}'", i)
            else:
                m = re.fullmatch(r"asearch \[(.*)\]", line)
                if not m:
                    report("C11:search-failed", line[:200], i)
                    continue
                got = set(m.group(1).split())
                stats[f"search:{'allow-untrusted' if op.get('untrusted') else 'trusted-only'}:at={'nil' if not at else ('past' if at < 0 else 'future')}:revoked-in-store={len([c for c in creds if c in stored])}"] += 1
                for cid in sorted(got & stored):
                    report("C11:search-returns-revoked-credential", f"{cid} has an accepted revocation; vcr.Search ({when}, allowUntrusted={bool(op.get('untrusted'))}) returns it", i)
                want = {c for c in creds if c not in stored and (op.get("untrusted") or c.split("#")[0] in trusted) and valid_at(c)}
                if got - stored != want:
                    report("C11:search-result-unexpected", f"({when}) expected {sorted(want)}, got {sorted(got)}", i)
        elif kind == "adeliver":
            honest = op["subject"].split("#")[0] == op["issuer"]
            fault = op.get("fault", "")
            stats[f"deliver:{'honest' if honest else 'other-party'}:{fault or 'healthy'}:wraps={op.get('wraps', 0)}"] += 1
            if honest and fault in ("deadline", "canceled") and line != "adeliver retry":
                report("C11:network-revocation-dropped-for-transient-storage-error",
                       f"store failed with context {fault} wrapped {op.get('wraps', 0)}+1 times; the event was answered '{line}' instead of being retried", i)
            if honest and not fault:
                if line != "adeliver done":
                    report("C11:acceptable-network-revocation-not-stored", line, i)
                stored.add(op["subject"])
            if not honest and line == "adeliver done":
                report("C11:forged-revocation-accepted:names-another-issuer-than-id-prefix", ops[i][:300], i)
        elif kind == "areprocess":
            honest = op["subject"].split("#")[0] == op["issuer"]
            is_rev = op.get("ct") == "application/ld+json;type=revocation" and not op.get("nopayload")
            stats[f"reprocess:{'revocation' if is_rev else 'other-or-empty'}:{'honest' if honest else 'other-party'}:{op.get('fault') or 'healthy'}"] += 1
            if is_rev and honest and not op.get("fault"):
                if line != "areprocess failed=false":
                    report("C11:reprocessed-revocation-not-stored", line, i)
                stored.add(op["subject"])
            if is_rev and not honest and line != "areprocess failed=true":
                report("C11:forged-revocation-accepted:names-another-issuer-than-id-prefix", ops[i][:300], i)
            if not is_rev and line != "areprocess failed=false":
                report("C11:reprocess-of-other-content-fails", line, i)
        elif kind == "averify":
            stats["verify"] += 1
            if (line == "averify revoked") != (op["id"] in stored):
                report("C11:revocation-not-effective-or-not-permanent" if op["id"] in stored else "C11:revoked-without-revocation", f"{op['id']} {line}", i)
    return stats, bad


def ioracle(ops, impl):
    """the real issuer + verifier of one node: Issue (id prefix, one status entry, unique position), Revoke (route, document,
    once), Verify (revoked exactly when the node knows: bit set locally / revocation delivered)"""
    stats = Counter()
    bad = []
    creds = []      # per scenario: dict(issuer, status, route_done, known_to_verifier)
    positions = set()

    def report(sig, what, i):
        if sig not in [b[0] for b in bad]:
            bad.append((sig, what, i))

    for i, line in enumerate(impl):
        if i >= len(ops) or not ops[i]:
            continue
        op = json.loads(ops[i])
        kind = op.get("op")
        if "panic:" in line:
            report("C11:panic", line[:200], i)
        if kind == "ireset":
            creds, positions = [], set()
        elif kind == "iissue":
            stats["issue"] += 1
            m = re.match(r"iissue ok k=(\d+) idprefix=(\w+) status=(\S+)$", line)
            if not m:
                report("C11:issue-failed", line[:200], i)
                creds.append(None)
                continue
            if m.group(2) != "true":
                report("C11:issued-credential-id-not-prefixed-by-issuer", line, i)
            st = m.group(3)
            if op.get("statuslist"):
                mm = re.fullmatch(r"StatusList2021Entry/revocation#(.+)/(\d+)#(\d+)", st)
                if not mm or mm.group(1) != op["issuer"]:
                    report("C11:issued-credential-without-its-own-revocation-entry", line, i)
                elif (mm.group(1), mm.group(2), mm.group(3)) in positions:
                    report("C11:status-list-position-handed-out-twice", line, i)
                else:
                    positions.add((mm.group(1), mm.group(2), mm.group(3)))
            elif st != "none":
                report("C11:unrequested-status-entry", line, i)
            creds.append({"issuer": op["issuer"], "sl": bool(op.get("statuslist")), "revoked_by_issuer": False, "known": False})
        elif kind == "iplant":
            # a stored credential with two status entries of the node's own list (first one: other purpose / other type)
            stats["plant:" + op.get("shape", "")] += 1
            m = re.match(r"iplant ok k=(\d+) status=(\S+)$", line)
            if not m:
                report("C11:plant-failed", line[:200], i)
                creds.append(None)
                continue
            ents = m.group(2).split(",")
            for e in ents:
                mm = re.fullmatch(r"(\w+)/(\w+)#(.+)/(\d+)#(\d+)", e)
                if not mm or mm.group(3) != op["issuer"]:
                    report("C11:issued-credential-without-its-own-revocation-entry", line, i)
                elif (mm.group(3), mm.group(4), mm.group(5)) in positions:
                    report("C11:status-list-position-handed-out-twice", line, i)
                else:
                    positions.add((mm.group(3), mm.group(4), mm.group(5)))
            has_rev = any(e.startswith("StatusList2021Entry/revocation#") for e in ents)
            creds.append({"issuer": op["issuer"], "sl": True, "revoked_by_issuer": False, "known": False, "norev": not has_rev})
        elif kind == "irevoke":
            c = creds[op["k"]] if op["k"] < len(creds) else None
            if c is None:
                continue
            stats["revoke"] += 1
            if c.get("norev"):
                # no StatusList2021Entry with purpose revocation: nothing may be revoked
                stats["revoke-without-revocation-entry"] += 1
                if line != "irevoke err:status-not-found":
                    report("C11:issuer-revoked-through-an-entry-that-is-not-a-revocation-entry", f"{line}", i)
                continue
            nuts = c["issuer"].startswith("did:nuts:")
            if c["revoked_by_issuer"]:
                if line != "irevoke revoked":
                    report("C11:issuer-revoke-not-idempotent", f"second revoke answered {line}", i)
                continue
            if nuts:
                want = "irevoke ok net subject=true issuer=true published=1" + (" register=ok" if op.get("deliver") else "")
                if line != want:
                    report("C11:issuer-network-revocation-wrong:" + ("route" if " net " not in line + " " else "document-or-acceptance"),
                           f"expected '{want}', got '{line}'", i)
                c["revoked_by_issuer"] = True
                c["known"] = c["known"] or bool(op.get("deliver"))
            else:
                if line != "irevoke ok statuslist":
                    report("C11:issuer-status-list-revocation-wrong-route-or-failed", f"{line}", i)
                c["revoked_by_issuer"] = True
                c["known"] = True
        elif kind == "iverify":
            c = creds[op["k"]] if op["k"] < len(creds) else None
            if c is None:
                continue
            stats["verify"] += 1
            if c["known"] and line != "iverify revoked":
                report("C11:issuer-revocation-not-effective", f"credential {op['k']} of {c['issuer']} was revoked and the node knows it; answer {line}", i)
            if not c["known"] and line != "iverify ok":
                report("C11:revoked-without-revocation", f"credential {op['k']}: {line}", i)
    return stats, bad


def run_side_harness(ctx, pkg, files, name, test, reset_op, oracle_fn, scen_quick, scen_thorough):
    """a further harness of the same shape: build, run, model, compare, oracle"""
    binary = ctx.go_test_binary(pkg, files, name)
    if binary is None:
        ctx.oblige(f"harness-builds({name})", False, ctx.harness_error[-1500:])
        return None
    ctx.oblige(f"harness-builds({name})", True)
    env = {"TMPDIR": ctx.scratch}
    if ctx.replay:
        env["VERIF_REPLAY"] = os.path.abspath(ctx.replay)
    else:
        env["VERIF_CORPUS"] = os.path.join(os.path.dirname(os.path.dirname(os.path.abspath(__file__))), "harness", "corpus", "C11")
        env["VERIF_SCENARIOS"] = scen_thorough if ctx.thorough else scen_quick
    rc, log, out = ctx.run_harness(binary, test, env, outdir=os.path.join(ctx.scratch, "out-" + name), timeout=3000)
    if rc != 0:
        ctx.oblige(f"harness-runs({name})", False, log[-1500:])
        return None
    ctx.oblige(f"harness-runs({name})", True)
    ops_p, impl_p, model_p = (os.path.join(out, x) for x in ("ops.jsonl", "impl.out", "model.out"))
    ok, err = ctx.model("C11", ops_p, model_p)
    ctx.oblige(f"model-driver-runs({name})", ok, err[-500:])
    impl, model, bad = ctx.compare(impl_p, model_p)
    ops = ctx.read_lines(ops_p)
    stats, obad = oracle_fn(ops, impl)

    def scen(i):
        k = i
        while k > 0 and json.loads(ops[k]).get("op") != reset_op:
            k -= 1
        return "\n".join(ops[k:i + 1]) + "\n"
    unknown = 0
    for sig, what, i in obad:
        if ctx.violation(sig, what + f" (op line {i})", name + "-" + re.sub(r"[^a-z0-9-]+", "-", sig.split(":", 1)[1])[:60] + ".jsonl", scen(i)):
            unknown += 1
    ctx.oblige(f"oracle({name}):property-holds-on-implementation-outputs", unknown == 0, "; ".join(b[0] for b in obad))
    if bad:
        i = bad[0]
        detail = f"first differing line {i}\nop   : {ops[i][:600] if i < len(ops) else None}\nimpl : {impl[i][:300] if i < len(impl) else None}\nmodel: {model[i][:300] if i < len(model) else None}"
        ctx.oblige(f"correspondence({name}):model=impl", False, f"{len(bad)} of {len(impl)} lines differ; " + detail[:900])
        if unknown == 0:
            with open(os.path.join(ctx.replay_dir(), name + "-correspondence.jsonl"), "w") as f:
                f.write(scen(i))
            ctx.unproved([f"correspondence C11 {name} harness (model.out != impl.out)"], detail + f"\nreplay ops: {ctx.replay_dir()}/{name}-correspondence.jsonl")
    else:
        ctx.oblige(f"correspondence({name}):model=impl", True, f"{len(impl)} lines equal")
    return {"lines": len(impl), "bad": len(bad), "stats": dict(stats), "outcomes": dict(Counter(impl).most_common(20))}


def run_verifier_harness(ctx):
    """second harness: real vcr/verifier with really signed and forged revocation documents"""
    binary = ctx.go_test_binary(PKG_V, HARNESS_V, "c11v")
    if binary is None:
        ctx.oblige("harness-builds(verifier)", False, ctx.harness_error[-1500:])
        return None
    ctx.oblige("harness-builds(verifier)", True)
    env = {"TMPDIR": ctx.scratch}
    if ctx.replay:
        env["VERIF_REPLAY"] = os.path.abspath(ctx.replay)
    else:
        env["VERIF_CORPUS"] = os.path.join(os.path.dirname(os.path.dirname(os.path.abspath(__file__))), "harness", "corpus", "C11")
        env["VERIF_SCENARIOS"] = 1200 if ctx.thorough else 150
    outdir = os.path.join(ctx.scratch, "outv")
    rc, log, out = ctx.run_harness(binary, "TestVerifC11v", env, outdir=outdir, timeout=3000)
    if rc != 0:
        ctx.oblige("harness-runs(verifier)", False, log[-1500:])
        return None
    ctx.oblige("harness-runs(verifier)", True)
    ops_p, impl_p, model_p = (os.path.join(out, x) for x in ("ops.jsonl", "impl.out", "model.out"))
    ok, err = ctx.model("C11", ops_p, model_p)
    ctx.oblige("model-driver-runs(verifier)", ok, err[-500:])
    impl, model, bad = ctx.compare(impl_p, model_p)
    ops = ctx.read_lines(ops_p)
    stats, obad = voracle(ops, impl)
    unknown = 0
    for sig, what, i in obad:
        k = i
        while k > 0 and json.loads(ops[k]).get("op") != "vreset":
            k -= 1
        if ctx.violation(sig, what + f" (op line {i})", "v-" + re.sub(r"[^a-z0-9-]+", "-", sig.split(":", 1)[1])[:60] + ".jsonl", "\n".join(ops[k:i + 1]) + "\n"):
            unknown += 1
    ctx.oblige("oracle(verifier):property-holds-on-implementation-outputs", unknown == 0, "; ".join(b[0] for b in obad))
    if bad:
        i = bad[0]
        detail = f"first differing line {i}\nop   : {ops[i][:600] if i < len(ops) else None}\nimpl : {impl[i][:300] if i < len(impl) else None}\nmodel: {model[i][:300] if i < len(model) else None}"
        ctx.oblige("correspondence(verifier):model=impl", False, f"{len(bad)} of {len(impl)} lines differ; " + detail[:900])
        if unknown == 0:
            k = i
            while k > 0 and json.loads(ops[k]).get("op") != "vreset":
                k -= 1
            with open(os.path.join(ctx.replay_dir(), "v-correspondence.jsonl"), "w") as f:
                f.write("\n".join(ops[k:i + 1]) + "\n")
            ctx.unproved(["correspondence C11 verifier harness (model.out != impl.out)"], detail + f"\nreplay ops: {ctx.replay_dir()}/v-correspondence.jsonl")
    else:
        ctx.oblige("correspondence(verifier):model=impl", True, f"{len(impl)} lines equal")
    return {"lines": len(impl), "bad": len(bad), "stats": dict(stats), "outcomes": dict(Counter(impl).most_common(20))}


def run(ctx):
    facts = ctx.facts()
    thms = ctx.build_and_audit(["NutsProofs.Props.C11", "NutsProofs.Props.C11Wire", "NutsProofs.Props.C11ValidAt", "NutsProofs.Props.C11Rebase", "NutsProofs.Props.C11CredStatus", "NutsProofs.Props.C11Reprocess", "NutsProofs.Props.C11Resolve", "NutsProofs.Props.C11Present", "NutsProofs.Props.C11CredStatusJson"])
    for r in REQUIRED:
        if not any(t.endswith("Props." + r) for t in thms):
            ctx.oblige("thm-present:" + r, False, "theorem missing or its module does not build")
    ctx.trusted += [
        "modelled, not verified: gorm/SQL (transactions atomic, row locks, primary keys), gzip+base64 of the bitstring (round trip checked by the harness), "
        "go-did JSON (un)marshalling, url.JoinPath rendering of <base>/statuslist/<did>/<page> (injective), JSON-LD canonicalisation and JWS of revocation documents",
        "model scope: vcr/revocation bitstring.go (bit/setBit/isSet), statuslist2021_issuer.go (Entry incl. retry loop, Revoke, Credential, updateCredential), "
        "statuslist2021_verifier.go (Verify, statusList, update, verify, validate), vcr/verifier RegisterRevocation/IsRevoked/Verify (revocation part), ValidateRevocation",
    ]
    ctx.assumptions += [
        "SQL substrate: a transaction is atomic; SELECT … FOR UPDATE keeps the selected row locked until commit/rollback; primary keys are enforced",
        "signatures: Sign(kid, body) verifies under VerifySignature (hypothesis of served_list_signed); a verifying revocation proof was made with the resolved key (EUF, trusted base)",
        "a verifier's download of a status list URL of a modelled node is answered by that node's Credential() (HTTP transport is honest for the composed theorems)",
    ]
    ctx.notes += [
        "known finding C11:foreign-id-prefix (open): Lean foreign_prefix_witness / issuer_only_stmt_false; issuer_only_partial holds for id-prefixed credentials",
        "observed while building the model (outside the property, not findings): (1) gorm's Order(\"page\").Last() orders by page ASC, subject_id DESC, so after "
        "the first roll-over every Entry() starts at page 1 and only reaches the current page through duplicate-key retries (one failed transaction per "
        "earlier page); uniqueness is unaffected (entries_injective covers any row the select returns). (2) OnConflict{UpdateAll} does not update the "
        "autoCreateTime column created_at, so an external list is re-downloaded at every verification once its FIRST download is older than "
        "maxAgeExternal. (3) 'reason' of a CredentialRevocation is not defined in the JSON-LD context and therefore not covered by the signature. "
        "(4) update()/verify() do not compare the status list credential's issuer with the issuer of the credential being checked (the property only "
        "demands that the list is the one the credential names). (5) a status_list_credential row stored for a URL that later becomes a page URL of a "
        "local issuer would make Entry() retry forever (duplicate key on the credential record); not reachable through the node's own download path.",
    ]
    max_index = (facts or {}).get("maxBitstringIndex", 131071)
    min_left = (facts or {}).get("minTimeUntilExpired", 21600)

    replay_is_v = False
    if ctx.replay:
        with open(ctx.replay) as f:
            first = [l for l in f.read().split("\n") if l.strip()][:1]
        replay_is_v = bool(first) and json.loads(first[0]).get("op", "").startswith("v")
        replay_is_a = bool(first) and json.loads(first[0]).get("op", "").startswith("a")
        replay_is_i = bool(first) and json.loads(first[0]).get("op", "").startswith("i")
    else:
        replay_is_a = replay_is_i = False

    vres = ares = ires = None
    if not ctx.replay or replay_is_i:
        ires = run_side_harness(ctx, PKG_I, HARNESS_I, "c11i", "TestVerifC11i", "ireset", ioracle, 40, 400)
    if not ctx.replay or replay_is_v:
        vres = run_verifier_harness(ctx)
    if not ctx.replay or replay_is_a:
        ares = run_side_harness(ctx, PKG_A, HARNESS_A, "c11a", "TestVerifC11a", "areset", aoracle, 60, 600)
    if ctx.replay and (replay_is_v or replay_is_a or replay_is_i):
        ctx.cov["evaluations"] = (vres or ares or ires or {}).get("lines", 0)
        ctx.cov["input_distribution"] = {"verifier_harness": vres, "ambassador_harness": ares, "issuer_harness": ires}
        return

    binary = ctx.go_test_binary(PKG, HARNESS, "c11")
    if binary is None:
        ctx.oblige("harness-builds", False, ctx.harness_error[-1500:])
        return
    ctx.oblige("harness-builds", True)
    env = {"TMPDIR": ctx.scratch}
    if ctx.replay:
        env["VERIF_REPLAY"] = os.path.abspath(ctx.replay)
    else:
        env["VERIF_CORPUS"] = os.path.join(os.path.dirname(os.path.dirname(os.path.abspath(__file__))), "harness", "corpus", "C11")
        env["VERIF_SCENARIOS"] = 2500 if ctx.thorough else 200
    rc, log, out = ctx.run_harness(binary, "TestVerifC11", env, timeout=3000)
    if rc != 0:
        ctx.oblige("harness-runs", False, log[-1500:])
        return
    ctx.oblige("harness-runs", True)
    ops_p, impl_p, model_p = (os.path.join(out, x) for x in ("ops.jsonl", "impl.out", "model.out"))
    ok, err = ctx.model("C11", ops_p, model_p)
    ctx.oblige("model-driver-runs", ok, err[-500:])
    impl, model, bad = ctx.compare(impl_p, model_p)
    ops = ctx.read_lines(ops_p)

    stats, obad = oracle(ctx, ops, impl, max_index, min_left // 60, (facts or {}).get("maxAgeExternal", 900))
    unknown = 0
    for sig, what, i in obad:
        if ctx.violation(sig, what + f" (op line {i})", sig.split(":")[1] + ".jsonl", scenario_ops(ops, i)):
            unknown += 1
    ctx.oblige("oracle:property-holds-on-implementation-outputs", unknown == 0, "; ".join(b[0] for b in obad))

    if bad:
        i = bad[0]
        detail = f"first differing line {i}\nop   : {ops[i][:600] if i < len(ops) else None}\nimpl : {impl[i][:800] if i < len(impl) else None}\nmodel: {model[i][:800] if i < len(model) else None}"
        ctx.oblige("correspondence:model=impl", False, f"{len(bad)} of {len(impl)} lines differ; " + detail[:900])
        if unknown == 0:
            with open(os.path.join(ctx.replay_dir(), "correspondence.jsonl"), "w") as f:
                f.write(scenario_ops(ops, i))
            ctx.unproved(["correspondence C11 (model.out != impl.out)"], detail + f"\nreplay ops: {ctx.replay_dir()}/correspondence.jsonl")
    else:
        ctx.oblige("correspondence:model=impl", True, f"{len(impl)} lines equal")

    kinds = Counter(json.loads(o).get("op") for o in ops if o)
    outcomes = Counter(re.sub(r"n\d/\S+|\[[^\]]*\]|\d+", "_", l)[:60] for l in impl)
    vlines = (vres or {}).get("lines", 0) + (ares or {}).get("lines", 0) + (ires or {}).get("lines", 0)
    ctx.cov["evaluations"] = len(impl) + vlines
    ctx.cov["distinct_nontrivial"] = len(set(l for l in impl if l not in ("reset", "tick", "host", "bump 0", "record none")
                                             and "err:notfound" not in l)) + len((vres or {}).get("outcomes", {}))
    ctx.cov["traces_validated_against_impl"] = len(impl) - len(bad) + vlines - (vres or {}).get("bad", 0)
    ctx.cov["rule"] = ("(1) op sequences on two real StatusList2021 nodes (SQLite, HMAC signer, virtual clock by ageing stored rows), chosen online from "
                       "the implementation's earlier answers: entry / race (duplicate-key retry forced by a concurrent Entry of the same issuer) / par "
                       "(goroutines) / bump last_issued_index to the page limit / revoke (issued, re-revoked, out-of-range, malformed) / serve / tick / "
                       "verify (either node, lists of either node or of foreign hosts serving valid, mis-signed, mis-named, malformed lists) / record; "
                       "bitstring differential (all indexes of small strings, boundary and negative indexes of the 16 kB string). (2) real vcr/verifier "
                       "with a real leia store: RegisterRevocation of JsonWebSignature2020-signed honest and forged revocation documents (other issuer, "
                       "other party's key, other signer, unknown key, changed after signing, missing fields), IsRevoked, Verify of credentials with "
                       "own/foreign id prefix, Nuts/other type, status entries on hosted lists. (3) real ambassador.handleNetworkRevocations on the real verifier + "
                       "leia store with injected StoreRevocation faults (context deadline/cancel wrapped 0-3 times, other error), re-delivery, Verify. distinct_nontrivial = distinct output lines that are not "
                       "reset/tick/not-found")
    ctx.cov["input_distribution"] = {"ops": dict(kinds), "features": dict(stats), "outcome_shapes": dict(outcomes.most_common(40)),
                                     "verifier_harness": vres, "ambassador_harness": ares, "issuer_harness": ires}
    ctx.cov["samples"] = [ops[len(ops) // 2][:300] if ops else "", impl[len(impl) // 2][:300] if impl else ""]
