"""C19 — untrusted input never crashes or hangs the node (PARTIAL by nature).
Lean: NutsProofs.Props.C19 over NutsModel.C19.{Dpop,Resolver,Bitstring,Iblt,Murmur,Callback,Sites} + regenerated
partial-operation inventory (Facts.C19).  Correspondence: five in-package harnesses (crypto/dpop, vdr/resolver,
vcr/revocation, network/dag/tree, auth/api/iam) compare outcome classes ok|err|panic(site)|timeout with the model;
those and one black-box harness (zzverif/c19bb) also EXPLORE the not-modelled entry points with a pure
crash/timeout oracle (structure-aware JSON mutator) — exploration, not proof."""
import concurrent.futures as cf
import importlib.util
import json
import os
import re
from collections import Counter

ROOT = os.path.dirname(os.path.dirname(os.path.abspath(__file__)))


def _h(pkg):
    return (pkg, [pkg + "/zz_verif_c19_test.go", pkg + "/zz_verif_c19_common_test.go"], "c19_" + pkg.replace("/", "_"))


HARNESSES = [_h("crypto/dpop"), _h("vdr/resolver"), _h("vcr/revocation"), _h("network/dag/tree"), _h("zzverif/c19bb"), _h("auth/api/iam"), _h("vdr/didnuts"), _h("network/transport/v2"), _h("vcr/verifier"), _h("auth/client/iam"), _h("discovery"), _h("http/client"), _h("vdr/didweb")]

# entry points whose code is inside a Lean model (everything else is sampled only)
MODELLED = {
    "dpop": "crypto/dpop/dpop.go Parse + HTU + HTM + Match (theorem dpop_total)",
    "dpop.strip": "crypto/dpop/dpop.go strip (dpop_total)",
    "baseurl": "vdr/resolver/key.go baseUrl (keyresolver_baseurl_total)",
    "keybyid": "vdr/resolver/key.go ResolveKeyByID (keyresolver_total, under the go-did PublicKey contract)",
    "key": "vdr/resolver/key.go ResolveKey (keyresolver_total)",
    "svc": "vdr/resolver/service.go Resolve/ResolveEx (service_resolve_terminates)",
    "bit": "vcr/revocation/bitstring.go bit/setBit (bitstring_total)",
    "iblt.set": "network/dag/tree/iblt.go UnmarshalBinary→Subtract→Decode as in handleTransactionSet (iblt_handle_set_total, iblt_decode_terminates)",
    "iblt.insert": "network/dag/tree/iblt.go Insert/Delete/bucketIndices (iblt_bucket_indices_total)",
    "iblt.raw": "network/dag/tree/iblt.go UnmarshalBinary+Decode on any byte string (iblt_unmarshal_total, iblt_decode_terminates)",
    "murmur": "twmb/murmur3 vs NutsModel/C19/Murmur.lean (tie of the concrete hash instance)",
    "slc.update": "vcr/revocation/statuslist2021_verifier.go update + validate (statuslist_total); Verify's per-entry loop is in the model (statuslist_total) but only sampled on the real code",
    "didkey": "vdr/didkey/resolver.go Resolve: checks between the DID string and the library calls (didkey_total)",
    "jwx.parse": "crypto/jwx.go JWTKidAlg, ParseJWT, ParseJWS: check order between the token bytes and the library's verification (jwx_total, jwx_accepts_only_verified); the jwx library's results are data",
    "cred.presenter": "vcr/credential util.go ResolveSubjectDID, PresenterIsCredentialSubject and resolver.go PresentationSigner, ParseLDProof on every presentation go-did parses (cred_total, cred_presenter_sound); go-did's SubjectDID / ParseDIDURL / UnmarshalProofValue and crypto.JWTKidAlg are data",
    "jsonld.guard": "jsonld/ldutils.go LDUtil.Canonicalize, reader.go Reader.ReadBytes, jsonld.go AllFieldsDefined around the third-party JSON-LD processor: defer/recover mechanics (jsonld_total, jsonld_guard_must_be_direct); what json-gold does with the document (ok / error / PANIC) is observed on the processor itself and is data",
    "cred.dates": "vcr/credential/util.go PresentationIssuanceDate / PresentationExpirationDate on every presentation go-did parses (cred_dates_total, cred_dates_source); the jwx accessors and the first LD proof's created/expires are data",
    "cred.autocorrect": "vcr/credential/util.go AutoCorrectSelfAttestedCredential on every credential (cred_autocorrect_total, cred_autocorrect_only_fills_missing); go-did's UnmarshalCredentialSubject result is data",
    "cred.filter": "vcr/credential/util.go FilterOnDIDMethod on every credential list x 4 method lists (cred_filter_correct); did.ParseDID / UnmarshalCredentialSubject results are data",
    "httpcache.seq": "http/client/caching.go CachingRoundTripper.RoundTrip → responseCache.get/removeExpiredEntries/insert/pop on sequences of GET round trips (httpcache_make_room_terminates — no fuel —, httpcache_roundtrip_total, httpcache_size_invariant); cachecontrol's verdict and the clock are data",
    "didweb.pct": "vdr/didweb/util.go percentDecodeString + percentDecodeChar + isHex + unhex, output compared byte for byte (didweb_percent_decode_total, _length, _only_allowed)",
    "didweb.unescape": "net/url PathUnescape vs NutsModel/C19/DidWeb.lean pathUnescape (tie of the re-implemented library function)",
    "didweb.url": "vdr/didweb/util.go DIDToURL on any DID value (didweb_did_to_url_total, didweb_did_to_url_ok); url.Parse / net.ParseIP are data",
    "didweb.resolve": "vdr/didweb/web.go Resolver.Resolve over a stub HTTP doer: DIDToURL, request path, status, content type, read, null-entry guard BEFORE go-did, id comparison (didweb_resolve_total under the go-did contract, didweb_resolve_ok)",
    "didnuts.callback": "vdr/didnuts/ambassador.go handleNetworkEvent → callback: integrity checks, null-entry pre-check BEFORE json.Unmarshal into did.Document, validator, hand-over (ambassador_callback_total under the go-did contract, ambassador_callback_rejects); the REAL subscriber is called with a stub store",
    "callback": "auth/api/iam/openid4vp.go withCallbackURI and validatePresentationNonce's nonces[0] inside handleAuthorizeResponseSubmission (callback_total_in_handler; the stand-alone withCallbackURI is partial)",
}
# modelled ops whose panic outcome is NOT a property violation by itself: the function is called directly by the harness with
# arguments no call site passes (theorem callback_total_in_handler + handler exploration cover the reachable uses)
NOT_AN_ENTRY_POINT = {"callback"}

REQUIRED = [
    "dpop_total", "dpop_unfixed_witnesses", "keyresolver_baseurl_total", "keyresolver_total", "keyresolver_unfixed_witnesses",
    "service_resolve_terminates", "bitstring_total", "iblt_unmarshal_total", "subtract_mismatch_is_error",
    "iblt_bucket_indices_total", "iblt_bucket_indices_exact", "iblt_insert_delete_total", "iblt_decode_terminates", "iblt_decode_fuel_irrelevant", "iblt_decode_total",
    "iblt_handle_set_total", "iblt_zero_buckets_never_divide", "murmur_chain_short_cycles", "iblt_unbounded_chain_hangs",
    "iblt_small_table_hangs_unfixed", "callback_total_in_handler", "callback_empty_envelope_needs_guard", "statuslist_total", "statuslist_guards_needed", "didkey_total", "callback_standalone_partial", "panic_sites_accounted",
    "fact_jwx", "jwx_total", "jwx_accepts_only_verified", "jwx_guards_needed",
    "fact_jsonld", "jsonld_total", "jsonld_guard_must_be_direct",
    "fact_credmore", "cred_dates_total", "cred_dates_source", "cred_autocorrect_total", "cred_autocorrect_only_fills_missing", "cred_more_guards_needed", "cred_filter_correct",
    "fact_cred", "cred_total", "cred_presenter_sound", "cred_guards_needed",
    "fact_httpcache", "httpcache_make_room_terminates", "httpcache_roundtrip_total", "httpcache_unguarded_loop_spins", "httpcache_size_invariant",
    "fact_doc_unmarshal_guarded", "ambassador_callback_total", "ambassador_callback_rejects", "ambassador_null_guard_needed",
    "fact_didweb", "didweb_percent_decode_total", "didweb_percent_decode_guard_needed", "didweb_percent_decode_length", "didweb_percent_decode_only_allowed",
    "didweb_path_unescape_plain", "didweb_did_to_url_total", "didweb_did_to_url_ok", "didweb_resolve_total", "didweb_resolve_ok", "didweb_null_guard_needed",
    "model_panics_only_at_listed_sites", "fact_cfg_is_fixed", "fact_constants", "fact_http_clients_have_timeout", "iblt_decode_pass_bound", "dpop_parse_ok_claims_are_strings",
]


def _gen_common():
    spec = importlib.util.spec_from_file_location("c19gen", os.path.join(ROOT, "harness", "c19", "gen.py"))
    mod = importlib.util.module_from_spec(spec)
    spec.loader.exec_module(mod)
    mod.gen()


def _cls(line):
    """outcome classes contained in an impl line"""
    out = set(re.findall(r"panic:[^\s]+", line))
    if "timeout" in line:
        out.add("timeout")
    if "STATE-CHANGED" in line:
        out.add("state-changed-on-error")
    if "INVARIANT-BROKEN" in line:
        out.add("invariant-broken")
    return out


def _didweb_oracle(kind, op_text, line, facts):
    """the did:web theorems evaluated on the IMPLEMENTATION's own output (not on the model's)"""
    try:
        op = json.loads(op_text)
    except Exception:
        return None
    dec = set(int(x) for x in facts.get("didwebDecodeSet", []))
    if kind == "didweb.pct":
        s, out = op["s"], list(bytes.fromhex(line.split(" ")[1] if " " in line else ""))
        if len(out) > len(s):
            return "percentDecodeString output is longer than its input"
        new = [b for b in out if b not in s and b not in dec]
        if new:
            return f"percentDecodeString introduced byte {new[0]} that is neither in the input nor in the decode set"
        for x in (47, 37, 46, 63, 35, 92):
            if x in out and x not in s:
                return f"percentDecodeString introduced the structural byte {chr(x)!r}"
    if kind == "didweb.resolve":
        h = op["http"]
        path = bytes.fromhex(line.split("path=")[1]) if "path=" in line else b""
        if not path.endswith(b"/did.json"):
            return "a document was returned from a URL that does not end in /did.json"
        if not (200 <= h["status"] < 300):
            return "a document was returned for a non-2xx response"
        # (the expectation is a constant here, NOT the regenerated case list: a widened list must give a concrete replay)
        if h.get("ct") not in ("application/did+ld+json", "application/did+json", "application/json"):
            return "a document was returned for a content type outside the allow-list"
        if h["nullEntries"]:
            return "a body with null key entries was handed to go-did"
        if op["method"] != "web" or not h["idEquals"]:
            return "a document was returned for another DID"
    return None


def run(ctx):
    ctx.level = "partial"
    _gen_common()
    facts = ctx.facts()
    thms = ctx.build_and_audit(["NutsProofs.Props.C19"])
    for r in REQUIRED:
        if not any(t.endswith("Props." + r) for t in thms):
            ctx.oblige("thm-present:" + r, False, "theorem missing or its module does not build")
    ctx.trusted += [
        "modelled, not verified (their observed results are DATA for the model): jwx (jws/jwt parsing, Thumbprint), net/url.Parse, go-did "
        "(document parsing, VerificationMethod.PublicKey, UnmarshalServiceEndpoint, ParseDIDURL), gzip/base64; twmb/murmur3 is re-implemented in Lean "
        "(NutsModel/C19/Murmur.lean) and compared on every run",
        "the partial-operation inventory is syntactic (go/ast, no type information): nil dereferences through pointer-typed variables are only "
        "inventoried where an error result is discarded (`x, _ := f()`), a pointer is dereferenced explicitly (`*p`) or a nil check exists",
    ]
    ctx.assumptions += [
        "PROVED entry points (for all inputs, by the theorems listed in coverage.proved_entry_points): " + "; ".join(sorted(MODELLED.values())),
        "ONLY SAMPLED (crash/timeout oracle, exploration — not proof): go-did/jwx/json-gold parsing, did:web/did:key/did:jwk resolvers, crypto.ParseJWT/ParseJWS, "
        "status-list credential validation + expand, VC/VP unmarshalling and vcr/credential helpers, the OpenID4VP authorize-response handler; the entry points "
        "owned by other properties' models (dag parser C06, vcr/pe C12, tokenV2 C04/C17, discovery C16, didnuts validators C09) are not re-checked here",
        "memory exhaustion (gzip bombs in expand, huge bodies) and slow-but-terminating inputs are outside the model; Go int is modelled as unbounded Int (superset)",
        "go-did contract used by keyresolver_total: VerificationMethod.PublicKey() does not panic — BREACHED by go-did v0.15.0 (open finding), the theorem is conditional on it",
    ]

    # ---------------- harness binaries (parallel build, parallel run)
    def build(h):
        pkg, files, name = h
        c = ctx.go_test_binary(pkg, files, name)
        return h, c, (None if c else getattr(ctx, "harness_error", ""))
    with cf.ThreadPoolExecutor(12) as ex:
        built = list(ex.map(build, HARNESSES))
    bins = []
    for (pkg, files, name), b, err in built:
        ctx.oblige("harness-builds:" + pkg, b is not None, (err or "")[-1200:])
        if b:
            bins.append((pkg, name, b))
    n = 6000 if ctx.thorough else 500
    env = {"VERIF_N": n}
    if ctx.replay:
        env["VERIF_REPLAY"] = os.path.abspath(ctx.replay)
    else:
        env["VERIF_CORPUS"] = os.path.join(ROOT, "harness", "corpus", "C19")

    def runh(b):
        pkg, name, binary = b
        out = os.path.join(ctx.scratch, "out_" + name)
        e = dict(env)
        if pkg == "network/dag/tree":
            e["VERIF_ORBIT"] = "full" if ctx.thorough else "sample"
        rc, log, out = ctx.run_harness(binary, "TestVerifC19", e, outdir=out, timeout=3000)
        return pkg, name, rc, log, out
    with cf.ThreadPoolExecutor(12) as ex:
        runs = list(ex.map(runh, bins))

    seen_sig = set()

    def violate(sig, what, text):
        if sig in seen_sig:
            return
        seen_sig.add(sig)
        ctx.violation(sig, what, re.sub(r"[^A-Za-z0-9_.-]", "_", sig) + ".jsonl", text)

    total_model = total_explore = 0
    ep_counts = {}
    dist = Counter()
    distinct = set()
    max_us = {}
    passes = Counter()
    samples = []
    corr_bad = []
    orbit = None
    for pkg, name, rc, log, out in runs:
        ctx.oblige("harness-runs:" + pkg, rc == 0, log[-1500:] if rc != 0 else "")
        if not os.path.exists(os.path.join(out, "summary.json")):
            # the process died without running its deferred close (fatal runtime error: stack overflow, out of memory, …): the op it was
            # executing is in inflight.jsonl; re-run that op ALONE in a fresh process to confirm it kills the process again
            infl = os.path.join(out, "inflight.jsonl")
            op_text = open(infl, errors="replace").read().strip() if os.path.exists(infl) else ""
            if op_text and not ctx.replay:
                alone = os.path.join(ctx.scratch, "alone_" + name)
                os.makedirs(alone, exist_ok=True)
                rp = os.path.join(alone, "op.jsonl")
                with open(rp, "w") as f:
                    f.write(op_text + "\n")
                binary = [b for p_, n_, b in bins if n_ == name][0]
                rc2, log2, _ = ctx.run_harness(binary, "TestVerifC19", {"VERIF_REPLAY": rp, "VERIF_N": 1}, outdir=alone, timeout=600)
                if rc2 != 0 and not os.path.exists(os.path.join(alone, "summary.json")):
                    mk = re.search(r'"op":"([^"]+)"', op_text)
                    fatal = re.search(r"(fatal error: [^\n]*|runtime: goroutine stack exceeds[^\n]*|signal: killed)", log2)
                    sig = f"C19:{mk.group(1) if mk else '?'}:process-died"
                    violate(sig, f"{pkg}: the op KILLS THE PROCESS (not recoverable), confirmed by re-running it alone: {fatal.group(1) if fatal else log2[-200:]}", op_text)
            continue   # (a harness that died still flushes what it had: its outputs are searched for a concrete failing input)
        summ = json.load(open(os.path.join(out, "summary.json")))
        for ep, c in summ["counts"].items():
            ep_counts.setdefault(ep, Counter()).update(c)
        dist.update(summ["distribution"])
        max_us.update(summ.get("max_us", {}))
        total_explore += summ["explored"]
        if os.path.exists(os.path.join(out, "orbit.json")):
            orbit = json.load(open(os.path.join(out, "orbit.json")))
        ops_p, impl_p, model_p = (os.path.join(out, x) for x in ("ops.jsonl", "impl.out", "model.out"))
        ops = [l for l in ctx.read_lines(ops_p) if l]
        if ops:
            ok, err = ctx.model("C19", ops_p, model_p + ".raw")
            ctx.oblige("model-driver-runs:" + pkg, ok, err[-500:])
            with open(model_p + ".raw", errors="replace") as fi, open(model_p, "w") as fo:
                for l in fi:
                    m = re.search(r" #passes=(\d+)", l)
                    if m:
                        passes[int(m.group(1))] += 1
                        l = l.replace(m.group(0), "")
                    fo.write(l)
            impl, model, bad = ctx.compare(impl_p, model_p)
            total_model += len(impl)
            for i, line in enumerate(impl):
                mk = re.search(r'"op":"([^"]+)"', ops[i]) if i < len(ops) else None   # (ops can nest 10^4 deep: no json.loads)
                kind = mk.group(1) if mk else "?"
                distinct.add((kind, line[:160]))
                if len(samples) < 6 and i % 97 == 0:
                    samples.append(f"{kind}: {line[:160]}")
                # ---- direct property oracle on the implementation's own outcome
                if kind in NOT_AN_ENTRY_POINT:
                    continue
                if kind.startswith("didweb.") and line.startswith("ok"):
                    why = _didweb_oracle(kind, ops[i], line, facts or {})
                    if why:
                        violate(f"C19:{kind}:property-broken", f"{MODELLED.get(kind, kind)}: {why} (impl line: {line[:160]})", ops[i])
                for c in sorted(_cls(line)):
                    sig = f"C19:{kind}:{c}"
                    violate(sig, f"{MODELLED.get(kind, kind)}: input makes the real code end in `{c}` (impl line: {line[:200]})", ops[i])
            for i in bad:
                # clause (S): the model is the specification of what is REJECTED — the real code accepting an input the model rejects is a
                # concrete violation ("malformed input is rejected with an error"), not just a broken correspondence
                a, b = (impl[i] if i < len(impl) else ""), (model[i] if i < len(model) else "")
                fa, fb = a.split(" ")[0].split("=")[-1], b.split(" ")[0].split("=")[-1]
                if fa.startswith("ok") and fb.startswith("err") and i < len(ops):
                    mk = re.search(r'"op":"([^"]+)"', ops[i])
                    kind = mk.group(1) if mk else "?"
                    violate(f"C19:{kind}:malformed-input-accepted", f"{MODELLED.get(kind, kind)}: the real code ACCEPTS an input that must be rejected "
                            f"(model: {b[:80]}; implementation: {a[:80]})", ops[i])
                corr_bad.append((pkg, i, impl[i] if i < len(impl) else None, model[i] if i < len(model) else None, ops[i] if i < len(ops) else ""))
        # ---- exploration failures (not-modelled entry points)
        fp = os.path.join(out, "explore_fail.jsonl")
        if os.path.exists(fp):
            for l in ctx.read_lines(fp):
                if not l:
                    continue
                o = json.loads(l)
                res = o.get("outcome", "")
                c = res.split(" (")[0] if res.startswith("panic:") else ("timeout" if res == "timeout" else ("invariant-broken" if res.startswith("INVARIANT-BROKEN") else "state-changed-on-error"))
                sig = f"C19:{o['op']}:{c}"
                violate(sig, f"exploration (not modelled): {o['op'][2:]} ends in `{res[:160]}`", l)

    if corr_bad:
        pkg, i, a, b, op = corr_bad[0]
        detail = f"{len(corr_bad)} lines differ; first: {pkg} line {i}\nimpl : {str(a)[:600]}\nmodel: {str(b)[:600]}"
        ctx.oblige("correspondence:model=impl", False, detail[:800])
        if not ctx.violations:
            with open(os.path.join(ctx.replay_dir(), "correspondence.jsonl"), "w") as f:
                f.write(op + "\n")
            ctx.unproved(["correspondence C19 (model.out != impl.out)"], detail + f"\nreplay ops: {ctx.replay_dir()}/correspondence.jsonl")
    else:
        ctx.oblige("correspondence:model=impl", True, f"{total_model} lines equal")
    if orbit is not None:
        mc = int(re.sub(r"[^0-9]", "", str((facts or {}).get("ibltMaxChain", "0"))) or 0)
        orbit["ibltMaxChain"] = mc
        ok = orbit.get("unexpected_bad", 1) == 0 and orbit.get("known_found") == 6 and orbit.get("max_steps_good", 99) <= mc
        # the repaired bucketIndices gives every key whose chain is not on a short cycle the SAME buckets as before (network compatibility)
        ctx.oblige("murmur3-chain:repair-changes-only-the-six-cycle-starts(" + orbit.get("mode", "?") + ")", ok, json.dumps(orbit)[:300])

    ctx.cov["evaluations"] = total_model + total_explore
    ctx.cov["distinct_nontrivial"] = len(distinct)
    ctx.cov["traces_validated_against_impl"] = total_model - len(corr_bad)
    ctx.cov["modelled_evaluations"] = total_model
    ctx.cov["explored_evaluations"] = total_explore
    ctx.cov["proved_entry_points"] = MODELLED
    ctx.cov["sampled_only_entry_points"] = sorted(ep for ep in ep_counts if ep not in MODELLED and ep != "bit.full")
    ctx.cov["outcomes_per_entry_point"] = {ep: dict(c) for ep, c in sorted(ep_counts.items())}
    ctx.cov["max_call_us_explored"] = max_us
    ctx.cov["iblt_decode_passes_histogram"] = dict(sorted(passes.items()))
    ctx.cov["murmur3_chain"] = orbit
    ctx.cov["rule"] = ("per entry point: valid instance(s) → systematic single-slot mutations (every JSON member × 27 type confusions, deletion, conflicting duplicate, "
                       "truncation sweep) + random 1-3 stacked mutations (null, extreme numbers, long strings, deep nesting, swaps, key renames, garbage bytes) + hand-listed "
                       "schema-valid-but-unusual cases; each call under recover() and a 3 s watchdog, state digest before/after where there is state. Modelled ops: outcome "
                       "class compared with the Lean model line by line. distinct_nontrivial = distinct (op kind, outcome line) pairs of modelled ops")
    by_ep = Counter()
    for k, v in dist.items():
        by_ep[k.split(":")[0]] += v
    kinds = Counter()
    for k, v in dist.items():
        kinds[k.split(":")[-1]] += v
    ctx.cov["input_distribution"] = {"by_entry_point": dict(by_ep), "by_mutation_kind": dict(kinds.most_common(40))}
    ctx.cov["samples"] = samples
