#!/bin/bash
# MANIFEST.setup_cmd: build everything from files on disk only (offline).
set -u
cd "$(dirname "$0")"
export GOFLAGS=-mod=mod GOPROXY=off GOSUMDB=off GOTOOLCHAIN=local
echo "[setup] regenerating facts from /repo (extractor built per property: main.go + c<nn>*.go)"
for id in $(python3 -c "import json;print(' '.join(c['property_id'] for c in json.load(open('MANIFEST.json'))['checks']))"); do
  lid=$(echo "$id" | tr 'A-Z' 'a-z')
  (cd extract && go build -o "extract_$id" main.go ${lid}*.go && VERIF_ROOT=$OLDPWD ./extract_$id "$id" /repo; rm -f "extract_$id") || echo "[setup] extractor failed for $id (the check will report it)"
done
echo "[setup] building Lean project"
(cd lean && lake build 2>&1 | grep -v '^✔' | tail -20)
echo "[setup] warming Go build cache with the harness test binaries"
python3 tools/warm.py
echo "[setup] done"
