#!/usr/bin/env python3
"""Copies harness/c19/common.go.tmpl into every C19-harnessed package with the right package clause
(Go needs one physical file per package). Run after editing the template; props/C19.py runs it on every check."""
import os
ROOT = os.path.dirname(os.path.dirname(os.path.dirname(os.path.abspath(__file__))))
PKGS = {"crypto/dpop": "dpop", "vdr/resolver": "resolver", "vcr/revocation": "revocation", "network/dag/tree": "tree",
        "zzverif/c19bb": "c19bb", "auth/api/iam": "iam", "vdr/didnuts": "didnuts", "network/transport/v2": "v2", "vcr/verifier": "verifier", "auth/client/iam": "iam", "discovery": "discovery", "http/client": "client", "vdr/didweb": "didweb"}
def gen():
    tmpl = open(os.path.join(ROOT, "harness", "c19", "common.go.tmpl")).read()
    for pkg, name in PKGS.items():
        d = os.path.join(ROOT, "harness", "inpkg", pkg)
        if not os.path.isdir(d):
            continue
        p = os.path.join(d, "zz_verif_c19_common_test.go")
        txt = tmpl.replace("package PKGNAME", "package " + name, 1)
        if not os.path.exists(p) or open(p).read() != txt:
            with open(p, "w") as f:
                f.write(txt)
if __name__ == "__main__":
    gen()
