#!/usr/bin/env python3
"""Developer tool (not run by the check): (re)writes the `expected` inventory block of lean/NutsModel/C19/Sites.lean from the
CURRENT facts/C19.json plus the disposition table below. Run it after a deliberate source change, review the diff of Sites.lean.
An operation without a disposition is written as `.total "TODO"` and reported."""
import json, os
ROOT = os.path.dirname(os.path.dirname(os.path.dirname(os.path.abspath(__file__))))
facts = json.load(open(os.path.join(ROOT, 'facts/C19.json')))['partialOps']
order = [l.split('"')[1] for l in open(os.path.join(ROOT, 'lean/NutsModel/Facts/C19.lean')) if '("' in l and '.go:' in l]
T = lambda why: ('total', why)
S = lambda name: ('site', name)
D = {
 ('Parse','index:message.Signatures()[0]'):S('Parse:Signatures()[0]'),
 ('Parse','nilcheck:headers.JWK() == nil'):T('guard: Match later calls t.Headers.JWK().Thumbprint'),
 ('Parse','assertok:v.(string)'):T('checked assertion (Cfg.parseTypeChecks)'),
 ('DPoP.HTU','assertok:v.(string)'):T('checked assertion (Cfg.htuChecked); the unchecked form is site HTU:v.(string)'),
 ('DPoP.HTM','assertok:v.(string)'):T('checked assertion (Cfg.htmChecked); the unchecked form is site HTM:v.(string)'),
 ('DPoP.Match','discard:t.Headers.JWK().Thumbprint(crypto.SHA256)'):T('JWK() is non-nil for every token Parse returns (nil check in Parse); a Thumbprint error only makes the comparison fail'),
 ('strip','index:strings.Split(url.Host, ":")[0]'):T('strings.Split with a non-empty separator returns at least one element'),
 ('DIDKeyResolver.ResolveKeyByID','range:relationships'):T('bounded loop'),
 ('DIDKeyResolver.ResolveKeyByID','nilcheck:rel.VerificationMethod == nil'):T('guard (Cfg.nilVMChecked); without it: site ResolveKeyByID:rel.ID(nil *VerificationMethod)'),
 ('DIDKeyResolver.ResolveKeyByID','nilcheck:baseUrl != nil'):T('guard of *baseUrl'),
 ('DIDKeyResolver.ResolveKeyByID','deref:*baseUrl'):T('under baseUrl != nil (model: match on Option)'),
 ('DIDKeyResolver.baseUrl','range:context'):T('bounded loop'),
 ('DIDKeyResolver.baseUrl','index:context[i]'):T('i ranges over context'),
 ('DIDKeyResolver.baseUrl','assert:ctx.(map[string]interface{})'):T('under reflect Kind()==Map; every map kind in a JSON-decoded @context is map[string]interface{} (J.obj)'),
 ('DIDKeyResolver.baseUrl','index:m["@base"]'):T('map read'),
 ('DIDKeyResolver.baseUrl','assertok:val.(string)'):T('checked assertion (Cfg.baseChecked); the unchecked form is site baseUrl:val.(string)'),
 ('DIDKeyResolver.ResolveKey','range:keys'):T('bounded loop'),
 ('DIDKeyResolver.ResolveKey','nilcheck:key.VerificationMethod == nil'):T('guard (Cfg.nilVMChecked); without it: site ResolveKey:keys[0].PublicKey()(nil *VerificationMethod)'),
 ('DIDServiceResolver.ResolveEx','index:documentCache[referencedDID.String()]'):T('map read'),
 ('DIDServiceResolver.ResolveEx','nilcheck:document == nil'):T('cache miss test'),
 ('DIDServiceResolver.ResolveEx','indexw:documentCache[referencedDID.String()]'):S('ResolveEx:documentCache[k]=v(nil map)'),
 ('DIDServiceResolver.ResolveEx','range:document.Service'):T('bounded loop; document is non-nil when the resolver returns no error (contract of DIDResolver)'),
 ('DIDServiceResolver.ResolveEx','nilcheck:service == nil'):T('guard of *service'),
 ('DIDServiceResolver.ResolveEx','nilcheck:service.UnmarshalServiceEndpoint(&endpointURL) == nil'):T('error test'),
 ('DIDServiceResolver.ResolveEx','deref:*resolvedEndpointURI'):T('after err == nil of ssi.ParseURI'),
 ('DIDServiceResolver.ResolveEx','deref:*service'):T('under service != nil'),
 ('DIDServiceResolver.ResolveEx','rec:s.ResolveEx'):T('recursion with depth+1 under depth < maxDepth: measure maxDepth - depth (service_resolve_terminates)'),
 ('bitstring.bit','deref:*bs'):T('receiver is the address of a local value at every call site'),
 ('bitstring.bit','index:(*bs)[q]'):S('bit:(*bs)[q]'),
 ('bitstring.setBit','deref:*bs'):T('receiver is the address of a local value at every call site'),
 ('bitstring.setBit','index:(*bs)[q]'):S('setBit:(*bs)[q]'),
 ('bitstring.setBit','indexw:(*bs)[q]'):S('setBit:(*bs)[q]'),
 ('Iblt.Insert','range:i.bucketIndices(keyHash)'):T('bounded loop over the result of bucketIndices (iblt_bucket_indices_total)'),
 ('Iblt.Insert','index:i.buckets[h]'):S('Insert/Delete:i.buckets[h]'),
 ('Iblt.Delete','range:i.bucketIndices(keyHash)'):T('bounded loop over the result of bucketIndices (iblt_bucket_indices_total)'),
 ('Iblt.Delete','index:i.buckets[h]'):S('Insert/Delete:i.buckets[h]'),
 ('Iblt.Subtract','range:i.buckets'):T('bounded loop'),
 ('Iblt.Subtract','index:i.buckets[idx]'):S('Subtract:i.buckets[idx]'),
 ('Iblt.Subtract','index:o.buckets[idx]'):S('Subtract:o.buckets[idx]'),
 ('Iblt.validate','assertok:other.(*Iblt)'):T('checked assertion'),
 ('Iblt.Decode','for:'):T('UNBOUNDED loop: modelled with fuel, termination is theorem iblt_decode_terminates'),
 ('Iblt.Decode','range:i.buckets'):T('bounded loop'),
 ('Iblt.Decode','index:i.buckets[idx]'):S('Decode:i.buckets[idx]'),
 ('Iblt.Decode','index:pures[txRef]'):T('map read'),
 ('Iblt.Decode','indexw:pures[txRef]'):T('map write on a map made in the function'),
 ('Iblt.Empty','range:i.buckets'):T('bounded loop'),
 ('Iblt.Empty','index:i.buckets[idx]'):T('idx ranges over i.buckets (model: Array.all)'),
 ('Iblt.bucketIndices','for:len(indices) < k && step < ibltMaxChain'):T('bounded by ibltMaxChain (model: recursion on the remaining steps)'),
 ('Iblt.bucketIndices','divmod:next % numBuckets'):S('bucketIndices:next % numBuckets'),
 ('Iblt.bucketIndices','index:bucketUsed[bucketID]'):T('map read'),
 ('Iblt.bucketIndices','indexw:bucketUsed[bucketID]'):T('map write on a map made in the function'),
 ('Iblt.bucketIndices','for:len(indices) < k && off < numBuckets'):T('bounded by numBuckets (model: recursion on the remaining offsets)'),
 ('Iblt.bucketIndices','divmod:(bucketID + off) % numBuckets'):S('bucketIndices:(bucketID + off) % numBuckets'),
 ('Iblt.bucketIndices','index:bucketUsed[probe]'):T('map read'),
 ('Iblt.bucketIndices','indexw:bucketUsed[probe]'):T('map write on a map made in the function'),
 ('Iblt.UnmarshalBinary','divmod:len(data) / bucketBytes'):T('bucketBytes is the constant 44'),
 ('Iblt.UnmarshalBinary','for:j < i.numBuckets()'):T('bounded loop'),
 ('Iblt.UnmarshalBinary','index:i.buckets[j]'):T('j < len(i.buckets) is the loop condition (model: Array.push)'),
 ('Iblt.UnmarshalBinary','rec:i.buckets[j].UnmarshalBinary'):T('not recursion: the method of bucket'),
 ('bucket.UnmarshalBinary','conv:(*[bucketBytes]byte)(data)'):S('bucket.UnmarshalBinary:(*[bucketBytes]byte)(data)'),
 ('bucket.UnmarshalBinary','slice:d[:4]'):T('constant bounds on an array of 44'),
 ('bucket.UnmarshalBinary','slice:d[4:12]'):T('constant bounds on an array of 44'),
 ('bucket.UnmarshalBinary','slice:d[12:]'):T('constant bounds on an array of 44'),
 ('bucket.UnmarshalBinary','conv:(*hash.SHA256Hash)(d[12:])'):T('d[12:] has the 32 elements of the target array'),
 ('bucket.UnmarshalBinary','deref:*keySum'):T('result of the conversion above, never nil'),
 ('withCallbackURI','assert:err.(oauth.OAuth2Error)'):S('withCallbackURI:err.(oauth.OAuth2Error)'),
 ('StatusList2021.Verify','nilcheck:credentialToVerify.CredentialStatus == nil'):T('no status, nothing to verify'),
 ('StatusList2021.Verify','range:statuses'):T('bounded loop (model: verifyEntries)'),
 ('StatusList2021.statusList','nilcheck:cr.Expires != nil'):T('guard of *cr.Expires'),
 ('StatusList2021.statusList','deref:*cr.Expires'):T('under cr.Expires != nil in the same condition'),
 ('StatusList2021.update','deref:*cred'):T('download returns a non-nil credential when it returns no error'),
 ('StatusList2021.update','nilcheck:cred.ExpirationDate != nil'):T('GUARD of cred.ExpirationDate.IsZero() (Cfg.expirationNilGuard); without it: site update:cred.ExpirationDate.IsZero()(nil)'),
 ('StatusList2021.validate','lencheck:len(cred.Type) > 2'):T('error: other types'),
 ('StatusList2021.validate','nilcheck:cred.ID == nil'):T('error: id required'),
 ('StatusList2021.validate','nilcheck:cred.Proof == nil'):T('error: proof required'),
 ('StatusList2021.validate','nilcheck:cred.CredentialStatus != nil'):T('error: status list credential with a status'),
 ('StatusList2021.validate','lencheck:len(target) != 1'):T('GUARD of target[0] (Cfg.singleSubjectGuard)'),
 ('StatusList2021.validate','index:target[0]'):S('validate:target[0]'),
 ('Resolver.Resolve','lencheck:len(encodedKey) == 0'):T('GUARD of encodedKey[0] (DidKey.Cfg.emptyGuard)'),
 ('Resolver.Resolve','index:encodedKey[0]'):S('Resolve:encodedKey[0]'),
 ('Resolver.Resolve','slice:encodedKey[1:]'):T('encodedKey has at least one character here'),
 ('Resolver.Resolve','discard:io.ReadAll(reader)'):T('reading from a bytes.Reader does not fail'),
 ('Resolver.Resolve','discard:unmarshalEC(elliptic.P521(), -1, mcBytes)'):T('expectedLen -1: unmarshalEC cannot return an error; invalid points give nil coordinates, which NewVerificationMethod rejects (data vmOk)'),

 ('Resolver.Resolve','lencheck:keyLength != 32'):T('exact length of X25519 / Ed25519 keys (model: DidKey.codecCheck keyLength != 32); a longer key would be handed to crypto/ed25519, which panics on it'),
 ('unmarshalEC','lencheck:expectedLen != -1'):T('P-521 is decoded without a length check'),
 ('unmarshalEC','lencheck:len(pubKeyBytes) != expectedLen'):T('length error (model: keyLength tests)'),

 ('Parse','lencheck:len(message.Signatures()) != 1'):T('guard of Signatures()[0] (model: nSigs != 1)'),
 ('Parse','lencheck:len(token.JwtID()) > maxJtiLength'):T('jti length limit (model: jtiLen > maxJtiLength)'),
 ('bitstring.bit','lencheck:q >= len(*bs)'):T('guard of (*bs)[q]'),
 ('bitstring.setBit','lencheck:q >= len(*bs)'):T('guard of (*bs)[q]'),
 ('Iblt.UnmarshalBinary','lencheck:len(data) != numBuckets * bucketBytes'):T('the only error of UnmarshalBinary; precedes every assignment'),
 ('bucket.UnmarshalBinary','lencheck:len(data) != bucketBytes'):T('guard of the array-pointer conversion'),
 ('Wrapper.handleAuthorizeResponseSubmission','nilcheck:request.Body.State == nil'):T('guard of *request.Body.State'),
 ('Wrapper.handleAuthorizeResponseSubmission','nilcheck:request.Body.VpToken == nil'):T('guard of *request.Body.VpToken'),
 ('Wrapper.handleAuthorizeResponseSubmission','deref:*request.Body.VpToken'):T('under the nil check above'),
 ('Wrapper.handleAuthorizeResponseSubmission','lencheck:len(pexEnvelope.Presentations) == 0'):T('GUARD of nonces[0] in validatePresentationNonce (Cfg.envelopeGuard): pe.ParseEnvelope("[]") succeeds with no presentations'),
 ('Wrapper.handleAuthorizeResponseSubmission','deref:*request.Body.State'):T('under the nil check above'),
 ('Wrapper.handleAuthorizeResponseSubmission','deref:*session.OwnSubject'):T('every OAuthSession the node stores under a client state has OwnSubject set (not input)'),
 ('Wrapper.handleAuthorizeResponseSubmission','nilcheck:request.Body.PresentationSubmission == nil'):T('guard of *request.Body.PresentationSubmission'),
 ('Wrapper.handleAuthorizeResponseSubmission','deref:*request.Body.PresentationSubmission'):T('under the nil check above'),
 ('Wrapper.handleAuthorizeResponseSubmission','range:pexEnvelope.Presentations'):T('bounded loop'),
 ('Wrapper.handleAuthorizeResponseSubmission','deref:*subjectDID'):T('validatePresentationSigner returns a non-nil DID when it returns no error'),
 ('Wrapper.handleAuthorizeResponseSubmission','deref:*submission'):T('after err == nil of ParsePresentationSubmission'),
 ('Wrapper.handleAuthorizeResponseSubmission','deref:*pexEnvelope'):T('after err == nil of ParseEnvelope'),
 ('Wrapper.handleAuthorizeResponseSubmission','discard:session.OpenID4VPVerifier.next()'):T('second result unused'),
 ('Wrapper.handleAuthorizeResponseSubmission','nilcheck:nextWalletOwnerType != nil'):T('flow control'),
 ('Wrapper.handleAuthorizeResponseSubmission','deref:*callbackURI'):T('session.redirectURI() of a stored session'),
 ('Wrapper.validatePresentationNonce','range:presentations'):T('bounded loop'),
 ('Wrapper.validatePresentationNonce','lencheck:len(nonces) > 1'):T('error: differing nonces'),
 ('Wrapper.validatePresentationNonce','lencheck:len(errs) > 0'):T('error return'),
 ('Wrapper.validatePresentationNonce','range:nonces'):T('bounded loop'),
 ('Wrapper.validatePresentationNonce','index:nonces[0]'):S('validatePresentationNonce:nonces[0]'),
 ('extractChallenge','discard:presentation.JWT().Get("nonce")'):T('missing claim gives nil, then the checked assertion gives ""'),
 ('extractChallenge','assertok:nonceRaw.(string)'):T('checked assertion'),
 ('extractChallenge','nilcheck:proof.Challenge != nil'):T('guard of *proof.Challenge'),
 ('extractChallenge','deref:*proof.Challenge'):T('under the nil check'),
 ('Wrapper.validatePresentationAudience','nilcheck:proof.Domain != nil'):T('guard of *proof.Domain'),
 ('Wrapper.validatePresentationAudience','deref:*proof.Domain'):T('under the nil check'),
 ('Wrapper.validatePresentationAudience','range:audience'):T('bounded loop'),

 ('DIDToURL','slice:id.ID[:subpathIdx]'):T('under subpathIdx != -1, subpathIdx = strings.Index(id.ID, ":") <= len (model: DidWeb.splitColon)'),
 ('DIDToURL','slice:id.ID[subpathIdx:]'):T('under subpathIdx != -1, subpathIdx = strings.Index(id.ID, ":") <= len (model: DidWeb.splitColon)'),
 ('DIDToURL','nilcheck:parsedIP != nil'):T('test of the result of net.ParseIP'),
 ('percentDecodeString','for:i < len(s)'):T('i strictly increases (i++ and i += 2): model recursion on the remaining bytes (didweb_percent_decode_length)'),
 ('percentDecodeString','lencheck:i + 2 < len(s)'):T('guard of the slice (Cfg.sliceGuard = some 2); weaker or absent: site percentDecodeString:s[i:i+3]'),
 ('percentDecodeString','index:s[i]'):T('under the loop condition i < len(s)'),
 ('percentDecodeString','slice:s[i:i + 3]'):S('percentDecodeString:s[i:i+3]'),
 ('percentDecodeChar','lencheck:len(encoded) != 3'):T('guard of the three index expressions (Cfg.charLenGuard)'),
 ('percentDecodeChar','index:encoded[0]'):S('percentDecodeChar:encoded[0]'),
 ('percentDecodeChar','index:encoded[1]'):S('percentDecodeChar:encoded[1]'),
 ('percentDecodeChar','index:encoded[2]'):S('percentDecodeChar:encoded[2]'),
 ('responseCache.insert','lencheck:len(entry.responseData) > h.maxBytes'):T('sanity check (model: HttpCache.insert)'),
 ('responseCache.insert','defer:h.mux.Unlock'):T('the mutex is released on every return; a loop that does not terminate keeps it for ever'),
 ('responseCache.insert','for:h.head != nil && h.currentSizeBytes + len(entry.responseData) > h.maxBytes'):T('every iteration pops one entry off a non-empty expiry list: measure = its length (httpcache_make_room_terminates); without `h.head != nil` the loop spins on an empty list (httpcache_unguarded_loop_spins)'),
 ('responseCache.insert','nilcheck:h.head == nil'):T('test'),
 ('responseCache.insert','for:current.next != nil && current.next.expirationTime.Before(entry.expirationTime)'):T('walks the acyclic expiry list (model: structural recursion insertAfterHead)'),
 ('responseCache.insert','indexw:h.entriesByURL[entry.requestURL.String()]'):T('entriesByURL is made by newCache, never nil'),
 ('responseCache.insert','index:h.entriesByURL[entry.requestURL.String()]'):T('map read'),
 ('responseCache.pop','nilcheck:h.head == nil'):T('guard of h.head.requestURL: pop on an empty list changes nothing (model: HttpCache.pop)'),
 ('responseCache.pop','index:h.entriesByURL[requestURL]'):T('map read'),
 ('responseCache.pop','range:entries'):T('bounded loop'),
 ('responseCache.pop','indexw:h.entriesByURL[requestURL]'):T('entriesByURL is made by newCache, never nil'),
 ('responseCache.pop','slice:entries[:i]'):T('i ranges over entries'),
 ('responseCache.pop','slice:entries[i + 1:]'):T('i ranges over entries: i+1 <= len'),
 ('responseCache.pop','lencheck:len(h.entriesByURL[requestURL]) == 0'):T('test'),
 ('responseCache.removeExpiredEntries','for:current != nil'):T('every iteration pops the head or breaks (model: structural recursion removeExpired)'),
 ('responseCache.get','defer:h.mux.Unlock'):T('released on return'),
 ('responseCache.get','index:h.entriesByURL[httpRequest.URL.String()]'):T('map read'),
 ('responseCache.get','range:entries'):T('bounded loop'),
 ('CachingRoundTripper.RoundTrip','nilcheck:response != nil'):T('test'),
 ('CachingRoundTripper.RoundTrip','rec:r.wrappedTransport.RoundTrip'):T('not a self call: the wrapped transport (same method name)'),
 ('CachingRoundTripper.cacheResponse','lencheck:len(reasons) > 0'):T('test'),
 ('ResolveSubjectDID','range:credentials'):T('bounded loop (model: Cred.resolveLoop)'),
 ('ResolveSubjectDID','deref:*sid'):S('ResolveSubjectDID:*sid'),
 ('PresenterIsCredentialSubject','deref:*signerDID'):T('after err == nil of PresentationSigner, which returns a non-nil DID on every ok path (model: Cred.presentationSigner)'),
 ('ParseLDProof','lencheck:len(proofs) != 1'):T('guard of proofs[0] (Cfg.proofCountExact)'),
 ('ParseLDProof','index:proofs[0]'):S('ParseLDProof:proofs[0]'),
 ('JWTKidAlg','lencheck:len(j.Signatures()) != 1'):T('guard of j.Signatures()[0] (Jwx.Cfg.kidAlgSigGuard)'),
 ('JWTKidAlg','index:j.Signatures()[0]'):S('JWTKidAlg:j.Signatures()[0]'),
 ('ParseJWS','lencheck:len(signatures) != 1'):T('guard of signatures[0] (Jwx.Cfg.jwsSigGuard)'),
 ('ParseJWS','index:signatures[0]'):S('ParseJWS:signatures[0]'),
}
# functions that are NOT (or only partly) inside a model: every partial operation is listed with the harness entry point that samples it
SAMPLED = {}
def _s(file, fns, ep):
    for f in fns: SAMPLED[file + ':' + f] = ep
_s('auth/api/iam/openid4vp.go', ['Wrapper.getClientMetadataFromRequest', 'Wrapper.getPresentationDefinitionFromRequest'], 'iam.handleAuthorizeRequestFromVerifier')
_s('auth/client/iam/client.go', ['HTTPClient.PresentationDefinition', 'checkNoNullEntries'], 'iamclient.PresentationDefinition')
_s('vcr/pe/presentation_definition.go', ['PresentationDefinition.Match', 'PresentationDefinition.matchBasic', 'PresentationDefinition.matchSubmissionRequirements'], 'pe.match+validate (parallel-array invariant of Match; the PE model is C12)')
_s('vcr/pe/util.go', ['ParseEnvelope', 'parseJSONArrayEnvelope', 'parseJSONObjectOrStringEnvelope', 'tryParseJSONArray'], 'pe.ParseEnvelope (JWT claim combinations) / iam.HandleAuthorizeResponse')
_s('network/transport/v2/conversation.go', ['conversationManager.check', 'Envelope_TransactionListQuery.checkResponse', 'Envelope_TransactionRangeQuery.checkResponse', 'Envelope_State.checkResponse', 'Envelope_TransactionList.parseTransactions'], 'v2.envelope (reply-type-confusion matrix: every request type × every reply handler, live conversation id)')
_s('network/transport/v2/transactionlist_handler.go', ['protocol.handleTransactionList'], 'v2.envelope')
_s('vcr/pe/presentation_submission.go', ['PresentationSubmission.Validate', 'PresentationSubmission.Resolve', 'PresentationSubmissionBuilder.Build'], 'pe.match+validate')
_s('discovery/module.go', ['Module.Register', 'Module.verifyRegistration', 'Module.validateRegistration', 'Module.validateRetraction'], 'discovery.Register (definitions with optional members absent × registration/retraction presentations with undeterminable signer, missing id/claims)')
_s('discovery/client.go', ['clientUpdater.updateService'], 'discovery.client.updateService (lists a remote Discovery Server returns)')
_s('discovery/store.go', ['storePresentation'], 'discovery.client.updateService / discovery.Register')
_s('http/client/client.go', ['StrictHTTPClient.WithRedirectCheck', 'StrictHTTPClient.Do'], 'httpclient.fetch (stalling servers × every constructor and its WithRedirectCheck copy)')
_s('discovery/module.go', ['Module.Search'], 'pe.match+validate (the indexing loop of Search is replayed on Match results; the discovery model is C16)')
_s('vcr/revocation/statuslist2021_verifier.go', ['StatusList2021.Verify', 'StatusList2021.statusList', 'StatusList2021.update', 'StatusList2021.download', 'StatusList2021.verify', 'StatusList2021.validate'], 'revocation.Verify / revocation.statusListCredential')
_s('vcr/revocation/bitstring.go', ['bitstring.Scan', 'expand'], 'revocation.bitstring.Scan / revocation.statusListCredential')
_s('vdr/didkey/resolver.go', ['Resolver.Resolve', 'unmarshalEC'], 'didkey.Resolve')
_s('vdr/didjwk/resolver.go', ['Resolver.Resolve'], 'didjwk.Resolve')
_s('vdr/didweb/web.go', ['Resolver.Resolve'], 'didweb.Resolve')
_s('vcr/credential/util.go', ['ResolveSubjectDID', 'PresenterIsCredentialSubject', 'PresentationIssuanceDate', 'PresentationExpirationDate', 'AutoCorrectSelfAttestedCredential', 'FilterOnDIDMethod'], 'credential.vp / credential.vc')
_s('vcr/credential/resolver.go', ['PresentationSigner', 'ParseLDProof'], 'credential.vp')
_s('vcr/credential/validator.go', ['validateNutsCredentialID'], 'credential.vc')
_s('vcr/verifier/verifier.go', ['verifier.Verify', 'verifier.doVerifyVP'], 'verifier.Verify / verifier.VerifyVP')
_s('crypto/jwx.go', ['JWTKidAlg', 'ParseJWT', 'ParseJWS'], 'crypto.ParseJWT')
_s('jsonld/ldutils.go', ['LDUtil.Canonicalize'], 'verifier.VerifyVP')
_s('vdr/didnuts/validators.go', ['verificationMethodValidator.Validate', 'verificationMethodValidator.verifyThumbprint'], 'didnuts.validate+findKeyByThumbprint')
_s('vdr/didnuts/ambassador.go', ['ambassador.callback'], 'didnuts.validate+findKeyByThumbprint (guard + unmarshal + validator as in callback)')
_s('vdr/didnuts/validators.go', ['nilEntryValidator.Validate', 'NetworkDocumentValidator'], 'didnuts.validate+findKeyByThumbprint')
_s('vdr/resolver/nullentries.go', ['RejectNullKeyEntries'], 'didweb.Resolve / didnuts.validate+findKeyByThumbprint')
_s('vdr/didnuts/ambassador.go', ['ambassador.findKeyByThumbprint'], 'didnuts.accepted-doc-then-findKeyByThumbprint')
_s('network/transport/v2/handlers.go', ['protocol.Handle', 'protocol.handle', 'protocol.handleTransactionPayload', 'protocol.handleTransactionPayloadQuery', 'protocol.handleTransactionRangeQuery', 'protocol.handleGossip', 'protocol.handleTransactionListQuery', 'protocol.handleState', 'protocol.handleTransactionSet'], 'v2.Handle')

q = lambda s: json.dumps(s, ensure_ascii=False)
out, missing = [], []
for key in order:
    fn = key.split(':', 1)[1]
    ents = []
    for op in (facts.get(key) or []):
        d = D.get((fn, op))
        if fn == 'Resolver.Resolve' and not key.startswith('vdr/didkey/'):
            d = None
        if key == 'vdr/didweb/web.go:Resolver.Resolve':
            d = {'lencheck:len(baseURL.Path) == 0': T('test (model: DidWeb.requestPath)'),
                 'guardcall:resolver.RejectNullKeyEntries': T('guard of document.UnmarshalJSON (Cfg.nullGuard); without it: site Resolve>did.Document.UnmarshalJSON (go-did dereferences null key entries)')}.get(op)
        if d is None and key.split(':')[0] + ':' + fn in SAMPLED:
            d = ('sampled', SAMPLED[key.split(':')[0] + ':' + fn])
        if d is None:
            missing.append((fn, op)); d = ('total', 'TODO')
        ents.append("    ⟨%s, .%s %s⟩" % (q(op), d[0], q(d[1])))
    out.append(("  (%s, [\n%s])" % (q(key), ",\n".join(ents))) if ents else "  (%s, [])" % q(key))
print("without disposition:", missing)
p = os.path.join(ROOT, 'lean/NutsModel/C19/Sites.lean')
s = open(p).read()
a, b = "def expected : List (String × List Entry) := [\n", "]\n\ndef expectedOps"
if a in s:
    s = s[:s.index(a) + len(a)] + ",\n".join(out) + s[s.index(b):]
else:
    marker = "/-! ### model configurations"
    head, tail = s.split(marker, 1)
    head += '''/-- what happens with a partial operation of the source in the model -/
inductive Disp where
  /-- it is the `Res.panic` site with this name -/
  | site (name : String)
  /-- it cannot fail; why -/
  | total (why : String)
  deriving Repr, DecidableEq

structure Entry where
  go : String
  disp : Disp
  deriving Repr

/-- the EXPECTED inventory: per modelled Go function, its partial operations in source order, each with its disposition -/
''' + a + ",\n".join(out) + b + ''' : List (String × List String) := expected.map fun p => (p.1, p.2.map (·.go))

/-- the panic sites the expected inventory refers to -/
def expectedSites : List String :=
  (expected.flatMap fun p => p.2.filterMap fun e => match e.disp with | .site n => some n | .total _ => none).eraseDups

'''
    s = head + marker + tail
open(p, 'w').write(s)
